"""C01 obligation "the scripted agents are total under every response history".

`PrimaiteGymEnv.step` calls `get_action`, `format_request` and `process_action_response` of EVERY agent of the scenario; an
exception in any of them is an exception out of `step`.  Whether a scripted agent reaches a given branch depends on the
responses it got earlier, and short undisturbed episodes only ever answer `success`.  This module therefore drives the real
agent classes STANDALONE through C19's driver (harness/rigs/agents.py: prescribed random draws, synthetic simulator
responses, the game's calling convention) under the single oracle

    get_action / format_request / process_action_response never raise and get_action returns a well-formed
    (registered action name, options dict) — for every response history.

Families:
  (a) C19's own generators of WELL-FORMED cases (periodic, data-manipulation, probabilistic, random, TAP001, TAP003; random
      settings, long random response sequences with failure rates) run through C19's `run_impl`;
  (b) bounded-exhaustive, action-aware failure injection for the two kill-chain agents: the all-success run of a configuration
      is recorded (it must reach SUCCEEDED), then EVERY non-idle action of it in turn (and every pair, in the thorough tier
      for all outcomes, in the quick tier for `failure` x `failure`) is answered with every other outcome of the alphabet
      below; a `do-nothing` is always answered `success` (the simulator cannot refuse it), so only histories the simulator
      could produce are fed.

A raise is NOT yet a violation of C01 (the synthetic history might be unrealisable): it is a BROKEN OBLIGATION, and
harness/props/c01.py then searches the real environment (disturbed episodes) for an episode that realises it.
"""
from __future__ import annotations

import copy
import itertools
from typing import Any, Dict, List, Optional, Tuple

from harness.lib.core import Rng
from harness.rigs import agents as rig     # C19's standalone driver (read-only import)
from harness.rigs.envrig import exc_info

# outcome alphabet for a NON-idle action: (label, status, data-kind)
OUTCOMES = [("ok", "success", "typical"), ("failure", "failure", "reason"), ("failure-bare", "failure", "empty"),
            ("unreachable", "unreachable", "reason"), ("pending", "pending", "empty")]
SCAN_OUTCOMES = [("ok-no-hosts", "success", "no-hosts"), ("ok-no-target", "success", "no-target"), ("ok-no-db-port", "success", "no-pg"),
                 ("ok-list-shape", "success", "list"), ("ok-empty-data", "success", "empty")]
SCANS = ("node-nmap-ping-scan", "node-nmap-port-scan", "node-network-service-recon")


def response_shapes_assumed() -> Dict[str, List[str]]:
    """(status | sorted data keys) the synthetic alphabet contains, per class of action - compared by the check with the shapes
    the real simulator answered red actions with in the disturbed episodes."""
    return {"any": ["success|", "failure|reason", "failure|", "unreachable|reason", "pending|"],
            "node-session-remote-login": ["success|ip_address,username"],
            "scan": ["success|live_hosts", "success|<addresses>", "success|"]}


def _data(kind: str, act: str, dkind: str, case: Optional[dict] = None) -> Dict[str, Any]:
    if dkind == "reason":
        return {"reason": "synthetic"}
    if dkind == "empty":
        return {}
    if kind == "tap3":
        if act == "node-session-remote-login":
            return {"ip_address": "10.9.9.9", "username": "admin"}
        return {}
    if act in SCANS:
        shape = "list" if (act == "node-nmap-ping-scan" or dkind == "list") else "dict"
        return rig._data1({"shape": shape, "hostsEmpty": dkind == "no-hosts", "containsTarget": dkind not in ("no-hosts", "no-target"),
                           "hasPg": dkind not in ("no-hosts", "no-target", "no-pg")}, rig.target_of(case or {}))
    return {}


class AgentRaise(Exception):
    pass


def drive(kind: str, case: dict, inject: Dict[int, Tuple[str, str, str]], max_steps: int, us: Optional[List[Tuple[int, int]]] = None) -> dict:
    """Run one real TAP agent standalone.  `case` = C19 case dict (settings part); `inject[k]` = outcome of the k-th NON-idle
    action (others: ok).  Returns {"trace": [(t, action, status, stage-before, stage-after)], "nonidle": n, "final": stage, "raise": info|None}."""
    from primaite.game.agent.actions.abstract import AbstractAction
    from primaite.interface.request import RequestResponse
    cfg = rig.tap1_cfg(case) if kind == "tap1" else rig.tap3_cfg(case)
    v = case["v"]
    trace: List[tuple] = []
    out = {"trace": trace, "nonidle": 0, "final": None, "raise": None, "problems": [], "rejected": None}
    with rig.patched_rng() as pr:
        d = pr.fresh(v)
        d.sched, d.k = [case.get("d0", 0)], case.get("startIdx", 0)
        d.kmap = [(cfg["agent_settings"].get("starting_nodes") or [], case.get("startIdx", 0)),
                  (cfg["agent_settings"].get("target_ips") or [], case.get("targetIdx", 0))]
        try:
            agent = rig._agent_from(cfg)
        except Exception as e:
            if rejected_at_load(e):
                out["rejected"] = f"{type(e).__name__}: {str(e).splitlines()[0][:120] if str(e) else ''}"
            else:
                out["raise"] = {"phase": "constructor", **exc_info(e)}
            return out
        k = 0
        prev = (None, None)
        for t in range(max_steps):
            d = pr.fresh(v)
            u = (us[t % len(us)] if us else (0, 8))
            d.sched, d.u, d.scan = [0, 0], u[0] / u[1], 0
            stage0, prog0 = agent.current_kill_chain_stage.name, agent.current_stage_progress.name
            ctx = {"t": t, "stage": stage0, "progress": prog0, "prev_action": prev[0], "prev_status": prev[1]}
            try:
                ret = rig.game_call(agent, t)
            except Exception as e:
                out["raise"] = {"phase": "get_action", **ctx, **exc_info(e)}
                break
            if not (isinstance(ret, tuple) and len(ret) == 2 and isinstance(ret[0], str) and isinstance(ret[1], dict)):
                out["raise"] = {"phase": "get_action-return", **ctx, "exc": "MalformedAction", "msg": repr(ret)[:120], "where": "get_action"}
                break
            act, par = ret
            if act not in AbstractAction._registry:
                out["raise"] = {"phase": "get_action-return", **ctx, "exc": "UnregisteredAction", "msg": act, "where": "get_action"}
                break
            try:
                req = agent.format_request(act, par)
            except Exception as e:
                out["raise"] = {"phase": "format_request", **ctx, "action": act, **exc_info(e)}
                break
            if act == "do-nothing":
                status, data = "success", {}
            else:
                label, status, dkind = inject.get(k, OUTCOMES[0])
                data = _data(kind, act, dkind, case)
                k += 1
            try:
                agent.process_action_response(timestep=t, action=act, parameters=par, request=req,
                                              response=RequestResponse(status=status, data=data), observation=None)
            except Exception as e:
                out["raise"] = {"phase": "process_action_response", **ctx, "action": act, **exc_info(e)}
                break
            prev = (act, status)
            trace.append((t, act, status, stage0, agent.current_kill_chain_stage.name))
            out["problems"] += d.problems
            if agent.actions_concluded and t > 2:
                # two more ticks after conclusion are enough to see that the agent stays idle
                if len(trace) >= 2 and trace[-2][1] == "do-nothing" and trace[-1][1] == "do-nothing":
                    break
        out["nonidle"] = k
        out["final"] = agent.current_kill_chain_stage.name
    return out


# ------------------------------------------------------------------------------------------------ configurations
def _base_tap1() -> dict:
    return {"agent": "tap1", "start": 1, "f": 1, "v": 0, "rkc": False, "rs": True, "pP": (1, 1), "pC": (1, 1), "pY": (1, 1), "attempts": 20,
            "repeatScan": False, "nAddr": 3, "exfil": True, "corrupt": True, "cont": True, "startIdx": 0, "d0": 0, "steps": []}


def _base_tap3() -> dict:
    return {"agent": "tap3", "start": 1, "f": 1, "v": 0, "rkc": False, "rs": True, "pPl": (1, 1), "pAc": (1, 1), "pMa": (1, 1), "pEx": (1, 1),
            "nHosts": 3, "accts": [1, 0, 2], "acls": [1, 2], "creds": [[0, 0], [1, 1], [2, 1]], "d0": 0, "steps": []}


def configs(kind: str, rng: Rng, thorough: bool, n_quick: int) -> List[dict]:
    """The shipped-like configuration first, then the flag grid (thorough: all of it; quick: a seeded sample)."""
    out = []
    if kind == "tap1":
        base = _base_tap1()
        grid = []
        for rkc, rs, cont, exfil, corrupt, rscan, att, na in itertools.product([False, True], [True, False], [True, False], [True, False],
                                                                               [True, False], [False, True], [20, 1], [3, 1]):
            c = dict(base)
            c.update({"rkc": rkc, "rs": rs, "cont": cont, "exfil": exfil, "corrupt": corrupt, "repeatScan": rscan, "attempts": att, "nAddr": na})
            grid.append(c)
    else:
        base = _base_tap3()
        grid = []
        for rkc, rs, accts, acls, nh in itertools.product([False, True], [True, False], [[1, 0, 2], [], [1], [0]], [[1, 2], [1], [2, 2, 1]], [3]):
            c = dict(base)
            c.update({"rkc": rkc, "rs": rs, "accts": list(accts), "acls": list(acls), "nHosts": nh})
            grid.append(c)
    out.append(grid[0])
    rest = grid[1:]
    out += rest if thorough else rng.shuffle(rest)[:n_quick]
    return out


def sweep(kind: str, rng: Rng, thorough: bool, n_quick_cfg: int, n_pairs_quick: int, shard: Tuple[int, int] = (0, 1)) -> dict:
    """Family (b).  Returns counts, the stage x outcome histogram and the list of raises.  `shard = (i, n)`: this call takes the
    configurations whose index is i modulo n (the sweep of the thorough tier is spread over several worker processes)."""
    raises: List[dict] = []
    hist: Dict[str, int] = {}
    cases = steps = rejected = 0
    not_succeeding: List[str] = []
    max_steps = 90
    cfgs = configs(kind, rng, thorough, n_quick_cfg)
    cfgs = [c for i, c in enumerate(cfgs) if i % shard[1] == shard[0]]
    for ci, case in enumerate(cfgs):
        base = drive(kind, case, {}, max_steps)
        cases += 1
        steps += len(base["trace"])
        if case["rkc"] and not base["raise"]:
            # a repeating chain never concludes: the first pass and the beginning of the second are enough
            end = next((i for i, x in enumerate(base["trace"]) if x[4] in ("SUCCEEDED", "FAILED")), len(base["trace"]) - 1)
            base = drive(kind, case, {}, min(max_steps, end + 1 + max(8, end // 2)))
        label = {k: case[k] for k in case if k not in ("steps", "agent", "d0", "start", "f", "v", "startIdx")}
        if base.get("rejected"):
            rejected += 1
            continue
        if base["raise"]:
            raises.append({"agent": kind, "case": case, "inject": {}, **base["raise"]})
            continue
        if base["final"] != "SUCCEEDED" and not case["rkc"]:
            not_succeeding.append(f"{kind} {label}: all-success run ends in {base['final']}")
        n = base["nonidle"]
        # the stage in which the k-th non-idle action was issued (for the histogram)
        stage_of = [s for (_, a, _, s, _) in base["trace"] if a != "do-nothing"]
        acts = [a for (_, a, _, _, _) in base["trace"] if a != "do-nothing"]
        budget = min(max_steps, len(base["trace"]) + 12)      # a failed action costs a few extra slots
        singles = []
        for k in range(n):
            alphabet = OUTCOMES[1:] + (SCAN_OUTCOMES if (kind == "tap1" and acts[k] in SCANS) else [])
            for oc in alphabet:
                singles.append({k: oc})
        pairs = []
        if thorough and ci * shard[1] + shard[0] < 4:      # all pairs for the first four configurations of the (unsharded) list
            for i, j in itertools.combinations(range(n), 2):
                for oi in OUTCOMES[1:3]:
                    for oj in OUTCOMES[1:4]:
                        pairs.append({i: oi, j: oj})
        else:
            allp = list(itertools.combinations(range(n), 2))
            for i, j in rng.shuffle(allp)[:n_pairs_quick]:
                pairs.append({i: OUTCOMES[1], j: rng.choice(OUTCOMES[1:])})
            # a failure directly followed by another one, at every position
            for i in range(n - 1):
                pairs.append({i: OUTCOMES[1], i + 1: OUTCOMES[2]})
        for inj in singles + pairs:
            r = drive(kind, case, inj, budget)
            cases += 1
            steps += len(r["trace"])
            for k, oc in inj.items():
                key = f"{kind}:{stage_of[k] if k < len(stage_of) else '?'}:{oc[0]}"
                hist[key] = hist.get(key, 0) + 1
            if r["raise"]:
                raises.append({"agent": kind, "case": case, "inject": {str(k): list(v) for k, v in inj.items()}, **r["raise"]})
    # probabilities below one: the trial outcome alternates (u = 0 passes, u = 7/8 fails p = 1/2 and 3/4)
    for case in cfgs[:3]:
        c = dict(case)
        for key in ("pP", "pC", "pY", "pPl", "pAc", "pMa", "pEx"):
            if key in c:
                c[key] = (1, 2)
        for us in ([(7, 8), (0, 8)], [(7, 8), (7, 8), (0, 8)], [(7, 8)]):
            r = drive(kind, c, {}, max_steps, us=us)
            cases += 1
            steps += len(r["trace"])
            hist[f"{kind}:trial-failures"] = hist.get(f"{kind}:trial-failures", 0) + 1
            if r["raise"]:
                raises.append({"agent": kind, "case": c, "inject": {}, "us": us, **r["raise"]})
    return {"cases": cases, "steps": steps, "hist": hist, "raises": raises, "notes": not_succeeding, "configs": len(cfgs), "rejected": rejected}


# ------------------------------------------------------------------------------------------------ family (a)
def construct_only(case: dict) -> Optional[BaseException]:
    """Build the agent of a C19 case the way C19's driver does and return the exception of the CONSTRUCTOR (None if it builds)."""
    kind = rig.kind_of(case)
    if kind == "tap1":
        cfg = rig.tap1_cfg(case)
    elif kind == "tap3":
        cfg = rig.tap3_cfg(case)
    elif kind == "periodic":
        cfg = rig.periodic_cfg(case)
    else:
        return None
    with rig.patched_rng() as pr:
        d = pr.fresh(case.get("sv", case.get("v", 0)) if kind == "periodic" else case.get("v", 0))
        d.sched, d.k = [case.get("d0", 0)], case.get("startIdx", 0)
        d.kmap = [(cfg["agent_settings"].get("starting_nodes") or [], case.get("startIdx", 0)),
                  (cfg["agent_settings"].get("target_ips") or [], case.get("targetIdx", 0))]
        try:
            rig._agent_from(cfg)
        except Exception as e:
            return e
    return None


def rejected_at_load(e: BaseException) -> bool:
    """A configuration the agent constructor / schema refuses with a ValueError (pydantic's ValidationError is one) never becomes an
    environment: outside C01's domain (counted in the evidence, not a raise of the agent)."""
    return isinstance(e, ValueError)


def c19_family(kind: str, rng: Rng, n: int) -> dict:
    """C19's well-formed generator + C19's `run_impl`; `game_call` is wrapped so that the exception behind a `raised` line is kept."""
    raises: List[dict] = []
    cases = steps = skipped = 0
    caught: List[dict] = []
    orig = rig.game_call

    def wrapped(agent, t):
        try:
            ret = orig(agent, t)
            if not (isinstance(ret, tuple) and len(ret) == 2 and isinstance(ret[0], str) and isinstance(ret[1], dict)):
                caught.append({"phase": "get_action-return", "t": t, "exc": "MalformedAction", "msg": f"get_action returned {ret!r}"[:120],
                               "where": "get_action"})
            return ret
        except Exception as e:
            info = {"phase": "get_action", "t": t, **exc_info(e)}
            if hasattr(agent, "current_kill_chain_stage"):
                info["stage"] = agent.current_kill_chain_stage.name
                info["progress"] = agent.current_stage_progress.name
                if agent.history:
                    info["prev_action"], info["prev_status"] = agent.history[-1].action, agent.history[-1].response.status
            caught.append(info)
            raise
    rig.game_call = wrapped
    try:
        for k in range(n):
            case = rig.gen_case(rng, kind, malformed=False)
            del caught[:]
            try:
                impl, _, problems = rig.run_impl(case)
            except Exception as e:      # C19's driver does not catch exceptions of process_action_response / format_request
                raises.append({"agent": kind, "case": case, "phase": "process_action_response", **exc_info(e)})
                cases += 1
                continue
            cases += 1
            steps += len(impl)
            if any(l.startswith("raised") for l in impl):
                if caught:
                    raises.append({"agent": kind, "case": case, **caught[0]})
                else:      # C19's driver swallows the constructor's exception: build the agent again to see what it was
                    e = construct_only(case)
                    if e is not None and rejected_at_load(e):
                        skipped += 1
                    else:
                        raises.append({"agent": kind, "case": case, "phase": "constructor",
                                       **(exc_info(e) if e is not None else {"exc": "?", "msg": "raised line without an exception", "where": "?"})})
            for pb in problems:
                if "cannot be formed into a request" in pb:
                    raises.append({"agent": kind, "case": case, "phase": "format_request", "exc": "Unformattable", "msg": pb[:200], "where": "format_request"})
    finally:
        rig.game_call = orig
    return {"cases": cases, "steps": steps, "raises": raises, "skipped": skipped}


AGENT_TYPE = {"tap1": "tap-001", "tap3": "tap-003", "periodic": "periodic-agent", "dm": "red-database-corrupting-agent",
              "prob": "probabilistic-agent", "rand": "random-agent"}


def agent_type_of(r: dict) -> str:
    a = r.get("agent")
    if a == "periodic" and isinstance(r.get("case"), dict) and r["case"].get("agent") == "dm":
        a = "dm"
    return AGENT_TYPE.get(a, str(a))
