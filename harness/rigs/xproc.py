"""R-env (C03 part): the cross-process rig.

`run_workers(spec, variants)` starts one FRESH interpreter per variant (different PYTHONHASHSEED, logging fully on / fully
off, optionally a pinned clock / pinned ICMP identifier), each of which builds the same scenario, plays the same operation
list (`int` = RL action, `["reset", seed|None]` = env.reset) and prints one canonical JSON line per step:
(observation, reward as float.hex, truncated, every agent's (action, parameters, request, response)), plus the complete
agent histories at every reset and at the end.  Opaque identifiers (uuid4 strings, MAC addresses) are renamed to their
first-seen index over the whole output; timestamps are erased.  The parent diffs the streams line by line.

Every `new` / `reset` line and every histories line also carries `rng`: digests of the states of python's `random`, numpy's
global generator and torch's CPU generator at that moment ("the generators right after reset(seed=s) are the same in every
process and after every history" is compared through them).

`pick_hashseeds` chooses PYTHONHASHSEED values under which the string vocabularies of a scenario (host names, addresses, every
list of strings in the config) are iterated in pairwise DIFFERENT set orders, so that a `list(set(names))` feeding an
index-based choice cannot hide behind two interpreters that happen to agree.

PROCESS HISTORY: a variant may carry `warm` = indices into `spec["warm"]` (other scenarios as YAML + a number of steps): the worker
builds, steps, resets and closes those environments FIRST and only then runs the case, so that anything that survives between games
in one interpreter (class attributes, module-level objects, registries, the global generators) has a non-default value when the case
starts. The case's lines must equal those of a worker that started fresh.

FORK SERVERS (`Servers`, `--server`): importing the code under test costs 4 s per interpreter; instead of one interpreter per
(case, variant) the parent starts ONE server per PYTHONHASHSEED value, which imports the code once and forks a child per job. A
child has exactly the state an interpreter has right after the imports (python's `random` is re-seeded in a forked child by
CPython; numpy's global generator, seeded from OS entropy at import, is shared by the children of ONE server and differs between
servers - the comparison is always across servers), gets a session directory of its own, and runs `run_spec`. The stored corpus
witnesses and `--replay` still start one interpreter per variant.

The worker half (`python -m harness.rigs.xproc`) imports primaite; the parent half does not.
"""
from __future__ import annotations

import json
import os
import re
import shutil
import subprocess
import sys
import tempfile
from pathlib import Path
from typing import Any, Dict, List, Optional, Tuple

UUID_RE = re.compile(r"[0-9a-f]{8}-[0-9a-f]{4}-[0-9a-f]{4}-[0-9a-f]{4}-[0-9a-f]{12}")
MAC_RE = re.compile(r"(?<![0-9a-f:])(?:[0-9a-f]{2}:){5}[0-9a-f]{2}(?![0-9a-f:])")
ID_RE = re.compile(UUID_RE.pattern + "|" + MAC_RE.pattern)
TS_RE = re.compile(r"\d{4}-\d\d-\d\d[T ]\d\d:\d\d:\d\d(?:\.\d+)?")
BROADCAST = "ff:ff:ff:ff:ff:ff"

LOUD_IO = {"save_agent_actions": True, "save_step_metadata": True, "save_pcap_logs": True, "save_sys_logs": True,
           "save_agent_logs": True, "save_logs": True, "write_sys_log_to_terminal": False, "write_agent_log_to_terminal": False,
           "sys_log_level": "DEBUG", "agent_log_level": "DEBUG"}
QUIET_IO = {"save_agent_actions": False, "save_step_metadata": False, "save_pcap_logs": False, "save_sys_logs": False,
            "save_agent_logs": False, "save_logs": False, "write_sys_log_to_terminal": False, "write_agent_log_to_terminal": False}


# ------------------------------------------------------------------------------------------------ canonical form
class Canon:
    """uuid / MAC -> first-seen index (one numbering for the whole run); timestamps erased."""

    def __init__(self):
        self.ids: Dict[str, str] = {}

    def _id(self, m: "re.Match") -> str:
        s = m.group(0)
        if s == BROADCAST:
            return s
        if s not in self.ids:
            self.ids[s] = f"<id{len(self.ids)}>"
        return self.ids[s]

    def text(self, s: str) -> str:
        s = ID_RE.sub(self._id, s)  # ONE pass, so that the numbering is first-seen in text order (= the model's canonRun)
        return TS_RE.sub("<ts>", s)


def _plain(x: Any) -> Any:
    """Observation / response data -> JSON-able, order preserving (dict order IS part of the comparison)."""
    import datetime as _dt
    try:
        import numpy as np
    except Exception:  # pragma: no cover
        np = None
    if isinstance(x, dict):
        return {str(k): _plain(v) for k, v in x.items()}
    if isinstance(x, (list, tuple)):
        return [_plain(v) for v in x]
    if isinstance(x, (set, frozenset)):
        return {"<set>": sorted(str(v) for v in x)}
    if np is not None and isinstance(x, np.ndarray):
        return [_plain(v) for v in x.tolist()]
    if np is not None and isinstance(x, np.generic):
        return _plain(x.item())
    if isinstance(x, bool) or x is None or isinstance(x, (int, str)):
        return x
    if isinstance(x, float):
        return x.hex()
    if isinstance(x, (_dt.datetime, _dt.date)):
        return "<ts>"
    if hasattr(x, "model_dump"):
        return _plain(x.model_dump())
    return str(x)


def _item(it) -> Any:
    return {"t": it.timestep, "a": it.action, "p": _plain(it.parameters), "rq": _plain(it.request),
            "st": getattr(it.response, "status", None), "d": _plain(getattr(it.response, "data", None)),
            "r": None if it.reward is None else float(it.reward).hex()}


OWN_STATE_KEY = "_generator_state"    # the key of the F-11 repair's decorator (Gen/OwnGeneratorState.stateKey; c03.py obliges the equality)


def rng_digest(env=None) -> Dict[str, str]:
    """Digests of the generator states THE ENVIRONMENT'S NEXT OPERATION STARTS FROM: since the F-11 repair its own saved state of python's
    and numpy's process-wide generators (right after one of its operations that IS the process-wide state; later somebody else may have
    moved the latter), on a tree without the repair the process-wide state; torch's CPU generator if imported."""
    import hashlib
    import random as _random
    own = getattr(env, "__dict__", {}).get(OWN_STATE_KEY) if env is not None else None
    out = {"py": hashlib.sha1(repr(own[0] if own is not None else _random.getstate()).encode()).hexdigest()[:12]}
    try:
        import numpy as np
        st = own[1] if own is not None else np.random.get_state()
        out["np"] = hashlib.sha1(st[1].tobytes() + repr(st[2:]).encode()).hexdigest()[:12]
    except Exception:  # pragma: no cover
        pass
    th = sys.modules.get("torch")
    if th is not None:
        try:
            out["torch"] = hashlib.sha1(th.get_rng_state().numpy().tobytes()).hexdigest()[:12]
        except Exception:
            pass
    return out


# ------------------------------------------------------------------------------------------------ worker
def _pin(pin: Dict):
    """In-process wrappers (no hooks in the repository): a clock whose microsecond field is fixed, a fixed ICMP identifier."""
    if pin.get("micro") is not None:
        import datetime as _dt
        micro = int(pin["micro"])

        class PinnedDatetime(_dt.datetime):
            @classmethod
            def now(cls, tz=None):
                return _dt.datetime(2025, 1, 1, 12, 0, 0, micro)

        import primaite.simulator.network.transmission.data_link_layer as dll
        dll.datetime = PinnedDatetime
    if pin.get("icmp_id") is not None:
        import primaite.simulator.network.protocols.icmp as icmp_mod
        ident = int(pin["icmp_id"])

        class _Secrets:
            @staticmethod
            def randbits(k):       # the code before the F-9 repair: identifier = secrets.randbits(16)
                return ident

            @staticmethod
            def randbelow(k):      # the repaired code: identifier = 10000 + secrets.randbelow(55536)
                return min(max(ident - 10000, 0), k - 1)

        icmp_mod.secrets = _Secrets


def worker_main() -> int:
    spec = json.loads(sys.stdin.read())
    out = sys.__stdout__
    sys.stdout = open(os.devnull, "w")  # PrettyTable prints etc. must not mix with the protocol
    return run_spec(spec, out)


def run_spec(spec: Dict, out) -> int:
    """Play one case (warm-ups, construction, operations) and write the canonical lines to `out`."""
    import logging
    import warnings
    warnings.filterwarnings("ignore")
    logging.disable(logging.NOTSET if spec.get("loud") else logging.WARNING)
    canon = Canon()

    def emit(obj):
        out.write(canon.text(json.dumps(obj, sort_keys=False, default=str)) + "\n")

    warm_failed: List[str] = []
    try:
        _pin(spec.get("pin") or {})
        from primaite.session.environment import PrimaiteGymEnv
        import copy
        import yaml
        cfg = yaml.safe_load(spec["cfg_yaml"])  # YAML, not JSON: integer keys (ports, action map) must stay integers
        io = dict(cfg.get("io_settings") or {})
        io.update(LOUD_IO if spec.get("loud") else QUIET_IO)
        cfg["io_settings"] = io
        # -- process history: other games are built, played and closed in this interpreter before the case starts
        for wi in (spec.get("warm_idx") or []):
            w = spec["warm"][wi]
            try:
                wcfg = yaml.safe_load(w["cfg_yaml"])
                wio = dict(wcfg.get("io_settings") or {})
                wio.update(QUIET_IO)
                wcfg["io_settings"] = wio
                wenv = PrimaiteGymEnv(env_config=wcfg)
                for _ in range(int(w.get("steps", 3))):
                    wenv.step(0)
                if w.get("reset"):
                    wenv.reset()
                    wenv.step(0)
                wenv.close()
                del wenv
            except Exception as e:  # a warm-up that cannot run is reported to the parent (counted; not part of the compared stream)
                warm_failed.append(f"WARMUP-FAILED {wi} {type(e).__name__}: {str(e)[:120]}")
        canon.ids.clear()
        env = PrimaiteGymEnv(env_config=cfg)

        # -- FOREIGN ACTIVITY (variant key `foreign`, since the F-11 repair part of the claim): between every two operations of the
        # environment somebody else uses the process-wide generators: k draws from `random` and `numpy.random` (k even: they are RE-SEEDED
        # first); k = 3: additionally a SECOND LIVE ENVIRONMENT of the same scenario (another seed) is built after the first operation and
        # stepped / reset in between. None of it may show in the compared stream.
        foreign = int(spec.get("foreign") or 0)
        neighbour = {"env": None, "n": 0}

        def foreign_activity():
            if not foreign:
                return
            import random as _r
            import numpy as _np
            if foreign % 2 == 0:
                _r.seed(foreign)
                _np.random.seed(foreign)
            for _ in range(foreign):
                _r.random()
                _np.random.randint(0, 65535)
            if foreign == 3:
                saved_ids = dict(canon.ids)
                # torch's process-wide generator is seeded by every seeding operation of every environment (for the LEARNING code's
                # benefit) and is not the environment's: nothing in the package draws from it (inventory: its only torch site is the
                # seeding call), so it cannot reach the trajectory - but it is part of this stream's generator digest. Shielded here;
                # that a second environment re-seeds the learner's torch generator is stated as NOT covered in the design note.
                th = sys.modules.get("torch")
                torch_state = th.get_rng_state() if th is not None else None
                try:
                    if neighbour["env"] is None:
                        ncfg = copy.deepcopy(cfg)
                        ncfg.setdefault("game", {})["seed"] = 4242
                        neighbour["env"] = PrimaiteGymEnv(env_config=ncfg)
                    neighbour["n"] += 1
                    if neighbour["n"] % 5 == 0:
                        neighbour["env"].reset(seed=neighbour["n"])
                    neighbour["env"].step(0)
                except Exception as e:
                    warm_failed.append(f"WARMUP-FAILED neighbour {type(e).__name__}: {str(e)[:120]}")
                if torch_state is not None:
                    th.set_rng_state(torch_state)
                canon.ids.clear()
                canon.ids.update(saved_ids)

        def hist():
            return {"histories": {n: [_item(i) for i in a.history] for n, a in env.game.agents.items()}, "rng": rng_digest(env)}

        emit({"op": "new", "agents": list(env.game.agents), "order_deps_first": _order_ok(env.game), "rng": rng_digest(env),
              "obs": _plain(env._get_obs())})
        for op in spec["ops"]:
            foreign_activity()
            if isinstance(op, list) and op and op[0] == "reset":
                emit(hist())
                canon.ids.clear()  # identifiers are numbered per episode (the new game shares none with the old one)
                obs, info = env.reset(seed=op[1])
                emit({"op": "reset", "seed": op[1], "obs": _plain(obs), "rng": rng_digest(env)})
                continue
            obs, reward, term, trunc, info = env.step(op)
            if not _order_ok(env.game):
                emit({"reward-order-not-dependencies-first": list(env.game._reward_calculation_order)})
            emit({"op": op, "obs": _plain(obs), "reward": float(reward).hex(), "term": bool(term), "trunc": bool(trunc),
                  "acts": {n: _item(i) for n, i in info["agent_actions"].items()},
                  "rewards": {n: float(a.reward_function.current_reward).hex() for n, a in env.game.agents.items()}})
        emit(hist())
        if spec.get("probe"):
            emit({"probe": _probe(env, spec["probe"])})
        env.close()
    except Exception as e:  # totality is C01's business; here an exception is reported as a line and compared like any other
        import traceback
        tb = traceback.extract_tb(e.__traceback__)[-1]
        emit({"raised": type(e).__name__, "where": f"{tb.filename.split('primaite/')[-1]}:{tb.name}", "msg": str(e)[:200]})
    out.write(META_PREFIX + json.dumps({"warm_failed": warm_failed}) + "\n")  # trailer for the parent, stripped before comparison
    out.flush()
    return 0


# ------------------------------------------------------------------------------------------------ fork server
META_PREFIX = "#meta "


def server_main() -> int:
    """`python -m harness.rigs.xproc --server`: import the code under test ONCE, then fork one child per job (a JSON line
    {"spec": …, "out": path} on stdin). A child starts from exactly the state an interpreter has right after the imports (plus a
    session directory of its own), plays the job with `run_spec`, writes the lines to `out`.tmp and renames it to `out`."""
    import signal
    sys.stdout = open(os.devnull, "w")
    import warnings
    warnings.filterwarnings("ignore")
    import logging
    logging.disable(logging.WARNING)
    import yaml  # noqa: F401
    import primaite.session.environment  # noqa: F401  (the 4 s the server exists to pay once)
    signal.signal(signal.SIGCHLD, signal.SIG_IGN)  # children are reaped automatically
    sys.__stdout__.write("ready\n")
    sys.__stdout__.flush()
    for line in sys.stdin:
        line = line.strip()
        if not line:
            continue
        job = json.loads(line)
        pid = os.fork()
        if pid:
            continue
        # ---- child
        code = 0
        try:
            signal.signal(signal.SIGCHLD, signal.SIG_DFL)
            from primaite.simulator import SIM_OUTPUT
            SIM_OUTPUT.time_str = f"{SIM_OUTPUT.time_str}-{os.getpid()}"  # a session directory of its own (file output only)
            tmp = job["out"] + ".tmp"
            with open(tmp, "w") as f:
                run_spec(job["spec"], f)
            os.replace(tmp, job["out"])
        except BaseException as e:  # pragma: no cover
            try:
                with open(job["out"] + ".tmp", "a") as f:
                    f.write(json.dumps({"raised": "worker-crashed", "msg": f"{type(e).__name__}: {e}"[:200]}) + "\n")
                os.replace(job["out"] + ".tmp", job["out"])
            except Exception:
                pass
            code = 1
        os._exit(code)
    return 0


class Servers:
    """One fork server per PYTHONHASHSEED value; jobs are played by forked children (fresh post-import state each)."""

    def __init__(self, repo: Path, verif: Path):
        self.repo, self.verif = repo, verif
        self.root = Path(tempfile.mkdtemp(prefix="c03-servers-"))
        self.procs: Dict[int, subprocess.Popen] = {}
        self.n = 0
        import threading
        self.lock = threading.Lock()

    def _server(self, hashseed: int) -> subprocess.Popen:
        with self.lock:
            if hashseed not in self.procs:
                home = self.root / f"home-{hashseed}"
                home.mkdir()
                env = {"PATH": os.environ.get("PATH", ""), "HOME": str(home), "PYTHONHASHSEED": str(hashseed),
                       "PYTHONPATH": str(self.repo / "src") + os.pathsep + str(self.verif), "PRIMAITE_REPO": str(self.repo), "PRIMAITE_VERIF": "1",
                       "TMPDIR": str(home), "XDG_CONFIG_HOME": str(home / ".config"), "XDG_DATA_HOME": str(home / ".local"),
                       "XDG_STATE_HOME": str(home / ".state"), "XDG_CACHE_HOME": str(home / ".cache")}
                p = subprocess.Popen([sys.executable, "-m", "harness.rigs.xproc", "--server"], cwd=str(self.verif), env=env, stdin=subprocess.PIPE,
                                     stdout=subprocess.PIPE, stderr=subprocess.DEVNULL, text=True)
                if p.stdout.readline().strip() != "ready":
                    raise RuntimeError(f"fork server for PYTHONHASHSEED={hashseed} did not start")
                self.procs[hashseed] = p
            return self.procs[hashseed]

    def start(self, hashseeds) -> None:
        """start the servers of these seeds concurrently (each pays the import once)"""
        import concurrent.futures as cf
        with cf.ThreadPoolExecutor(max(1, len(list(hashseeds)))) as ex:
            list(ex.map(self._server, list(hashseeds)))

    def submit(self, hashseed: int, spec: Dict) -> Path:
        p = self._server(hashseed)
        with self.lock:
            self.n += 1
            out = self.root / f"job-{self.n}.out"
            p.stdin.write(json.dumps({"spec": spec, "out": str(out)}) + "\n")
            p.stdin.flush()
        return out

    @staticmethod
    def wait(out: Path, timeout: int = 900) -> List[str]:
        import time
        t0 = time.time()
        while not out.exists():
            if time.time() - t0 > timeout:
                return []
            time.sleep(0.05)
        return out.read_text().splitlines()

    def close(self) -> None:
        for p in self.procs.values():
            try:
                p.stdin.close()
                p.terminate()
            except Exception:
                pass
        shutil.rmtree(self.root, ignore_errors=True)


def _split_meta(lines: List[str]) -> Tuple[List[str], str]:
    meta = [l for l in lines if l.startswith(META_PREFIX)]
    err = ""
    for m in meta:
        try:
            err += "\n".join(json.loads(m[len(META_PREFIX):]).get("warm_failed", []))
        except Exception:
            pass
    return [l for l in lines if not l.startswith(META_PREFIX)], err


def _order_ok(game) -> bool:
    """The reward evaluation order may legitimately differ between processes (the dependency sets are sets of names); what
    must hold in every process is that it is duplicate-free, covers every agent and puts dependencies first."""
    from primaite.game.agent.rewards import SharedReward
    order = list(game._reward_calculation_order)
    if len(set(order)) != len(order) or set(order) != set(game.agents):
        return False
    pos = {n: i for i, n in enumerate(order)}
    for name, agent in game.agents.items():
        for comp, _w in agent.reward_function.reward_components:
            if isinstance(comp, SharedReward) and pos.get(comp.config.agent_name, 10 ** 9) >= pos[name]:
                return False
    return True


def _probe(env, what: Dict) -> Any:
    """Stand-alone evaluations of inventory sites inside THIS process (compared across processes by the parent)."""
    out: Dict[str, Any] = {}
    if what.get("link_loads"):
        out["link_loads"] = [float(l.current_load).hex() for l in env.game.simulation.network.links.values()]
    if "int_sets" in what:  # `for port in set(target_port)`, `list(software.listen_on_ports)`: sets of small ints
        out["int_sets"] = [list(set(l)) for l in what["int_sets"]]
    if what.get("open_ports"):
        out["open_ports"] = {n.config.hostname: list(n.software_manager.get_open_ports()) for n in env.game.simulation.network.nodes.values()}
        out["listen"] = {n.config.hostname: {name: sorted(sw.listen_on_ports) for name, sw in n.software_manager.software.items()
                                             if getattr(sw, "listen_on_ports", None)}
                         for n in env.game.simulation.network.nodes.values()}
    if "listen_lists" in what:  # `_set_software_listen_on_ports` on lists of port NAMES (string-hashed set), built in THIS process
        from harness.rigs import nondet_sites as _S
        out["listen_lists"] = [_S.listen_ports_probe(es) for es in what["listen_lists"]]
    if "explode" in what:  # NMAP target expansion, visited in sorted order after the F-8 repair
        from ipaddress import IPv4Address, IPv4Network
        from primaite.simulator.system.applications.nmap import NMAP
        res = []
        for targets in what["explode"]:
            ts = [IPv4Network(t, strict=False) if "/" in t else IPv4Address(t) for t in targets]
            res.append([str(x) for x in sorted(NMAP._explode_ip_address_network_array(ts))])
        out["explode"] = res
    if "str_graphs" in what:  # reward-sharing shaped graphs with SET neighbours of strings
        from primaite.game.science import graph_has_cycle, topological_sort
        res = []
        for g in what["str_graphs"]:
            graph = {k: set(v) for k, v in g.items()}
            cyc = graph_has_cycle(graph)
            order = list(topological_sort(graph))
            pos = {n: i for i, n in enumerate(order)}
            deps_first = all(pos[d] < pos[k] for k in graph for d in graph[k]) if not cyc else None
            res.append({"cycle": cyc, "deps_first": deps_first, "nodes": sorted(order), "nodup": len(set(order)) == len(order)})
        out["str_graphs"] = res
    return out


# ------------------------------------------------------------------------------------------------ parent
def run_workers(spec: Dict, variants: List[Dict], repo: Path, verif: Path, timeout: int = 900, servers: Optional["Servers"] = None
                ) -> List[Tuple[Dict, List[str], str]]:
    """One fresh interpreter per variant, in parallel (or, with `servers`, one forked child of the fork server of the variant's
    PYTHONHASHSEED). Returns [(variant, lines, stderr-tail)]."""
    import yaml
    procs = []
    cfg_yaml = spec.get("cfg_yaml") or yaml.safe_dump(spec["cfg"], sort_keys=False)
    if servers is not None:
        outs = []
        for v in variants:
            s = {k: x for k, x in spec.items() if k != "cfg"}
            s.update(cfg_yaml=cfg_yaml, loud=bool(v.get("loud")), pin=v.get("pin"), warm_idx=list(v.get("warm") or []), foreign=int(v.get("foreign") or 0))
            outs.append((v, servers.submit(int(v.get("hashseed", 0)), s)))
        res = []
        for v, out in outs:
            lines, err = _split_meta(Servers.wait(out, timeout))
            res.append((v, lines, err if lines else "no output from forked worker"))
        return res
    tmp_root = Path(tempfile.mkdtemp(prefix="c03-xproc-"))
    try:
        for k, v in enumerate(variants):
            home = tmp_root / f"home{k}"
            home.mkdir()
            env = {"PATH": os.environ.get("PATH", ""), "HOME": str(home), "PYTHONHASHSEED": str(v.get("hashseed", 0)),
                   "PYTHONPATH": str(repo / "src") + os.pathsep + str(verif), "PRIMAITE_REPO": str(repo), "PRIMAITE_VERIF": "1",
                   "TMPDIR": str(home), "XDG_CONFIG_HOME": str(home / ".config"), "XDG_DATA_HOME": str(home / ".local"),
                   "XDG_STATE_HOME": str(home / ".state"), "XDG_CACHE_HOME": str(home / ".cache")}
            s = {k: x for k, x in spec.items() if k != "cfg"}
            s.update(cfg_yaml=cfg_yaml, loud=bool(v.get("loud")), pin=v.get("pin"), warm_idx=list(v.get("warm") or []), foreign=int(v.get("foreign") or 0))
            p = subprocess.Popen([sys.executable, "-m", "harness.rigs.xproc"], cwd=str(verif), env=env, stdin=subprocess.PIPE,
                                 stdout=subprocess.PIPE, stderr=subprocess.PIPE, text=True)
            p.stdin.write(json.dumps(s))
            p.stdin.close()
            procs.append((v, p))
        res = []
        for v, p in procs:
            try:
                so = p.stdout.read()
                se = p.stderr.read()
                p.wait(timeout=timeout)
            except subprocess.TimeoutExpired:
                p.kill()
                so, se = "", "timeout"
            lines, err = _split_meta(so.splitlines())
            res.append((v, lines, (se[-1500:] + "\n" + err)))
        return res
    finally:
        shutil.rmtree(tmp_root, ignore_errors=True)


_ORDER_PROBE = ("import json,sys\n"
                "v=json.loads(sys.stdin.read())\n"
                "print(json.dumps([list(set(l)) for l in v]))\n")


def string_vocabularies(cfg: Any, cap: int = 40) -> List[List[str]]:
    """Every list of >= 2 distinct strings in the config (host lists, start nodes, target addresses, …), plus all host names and all
    addresses: the candidates for `set(...)` in the code under test."""
    out: List[List[str]] = []
    seen = set()

    def add(l):
        l = sorted(set(l))
        if len(l) >= 2 and tuple(l) not in seen and len(out) < cap:
            seen.add(tuple(l))
            out.append(l)

    hosts, ips, refs = [], [], []

    def rec(x):
        if isinstance(x, dict):
            if isinstance(x.get("ref"), str) and "type" in x:
                refs.append(x["ref"])
                shared = [c.get("options", {}).get("agent_name") for c in ((x.get("reward_function") or {}).get("reward_components") or [])
                          if isinstance(c, dict) and c.get("type") == "shared-reward"]
                add([n for n in shared if isinstance(n, str)])   # the set of agents this one shares from (a set of names in the code)
            if isinstance(x.get("hostname"), str):
                hosts.append(x["hostname"])
            if isinstance(x.get("ip_address"), str):
                ips.append(x["ip_address"])
            for v in x.values():
                rec(v)
        elif isinstance(x, list):
            if x and all(isinstance(e, str) for e in x):
                add(x)
            for v in x:
                rec(v)
    rec(cfg)
    add(hosts)
    add(ips)
    add(refs)
    return out


def pick_hashseeds(vocabs: List[List[str]], n: int, candidates: List[int]) -> Tuple[List[int], Dict[str, int]]:
    """Among `candidates`, n PYTHONHASHSEED values whose set-iteration orders of the vocabularies differ from each other on as many
    vocabularies as possible (greedy). Returns (seeds, {"vocabularies": …, "distinguished": number of vocabularies on which the chosen
    seeds do not all agree})."""
    if not vocabs:
        return candidates[:n], {"vocabularies": 0, "distinguished": 0}
    procs = []
    for hs in candidates:
        env = {"PATH": os.environ.get("PATH", ""), "PYTHONHASHSEED": str(hs)}
        # (not -E: that would make the probe ignore PYTHONHASHSEED)
        p = subprocess.Popen([sys.executable, "-S", "-c", _ORDER_PROBE], env=env, stdin=subprocess.PIPE, stdout=subprocess.PIPE,
                             stderr=subprocess.DEVNULL, text=True)
        p.stdin.write(json.dumps(vocabs))
        p.stdin.close()
        procs.append((hs, p))
    orders: Dict[int, List[List[str]]] = {}
    for hs, p in procs:
        try:
            orders[hs] = json.loads(p.stdout.read())
            p.wait(timeout=60)
        except Exception:
            p.kill()
    cands = [c for c in candidates if c in orders]
    if not cands:
        return candidates[:n], {"vocabularies": len(vocabs), "distinguished": 0}
    chosen = [cands[0]]
    while len(chosen) < n and len(chosen) < len(cands):
        def score(c):
            # number of vocabularies on which c differs from EVERY chosen seed, then from at least one
            every = sum(1 for i in range(len(vocabs)) if all(orders[c][i] != orders[d][i] for d in chosen))
            some = sum(1 for i in range(len(vocabs)) if any(orders[c][i] != orders[d][i] for d in chosen))
            return (every, some)
        best = max((c for c in cands if c not in chosen), key=score)
        chosen.append(best)
    dist = sum(1 for i in range(len(vocabs)) if len({tuple(orders[c][i]) for c in chosen}) > 1)
    return chosen, {"vocabularies": len(vocabs), "distinguished": dist,
                    "pairwise_all_differ": sum(1 for i in range(len(vocabs)) if len({tuple(orders[c][i]) for c in chosen}) == len(chosen))}


def first_diff(a: List[str], b: List[str]) -> Optional[int]:
    for i, (x, y) in enumerate(zip(a, b)):
        if x != y:
            return i
    if len(a) != len(b):
        return min(len(a), len(b))
    return None


def describe_diff(a: str, b: str) -> Dict:
    """Which top-level part of the step line differs (used for the violation signature)."""
    try:
        ja, jb = json.loads(a), json.loads(b)
    except Exception:
        return {"part": "unparsable"}
    if not isinstance(ja, dict) or not isinstance(jb, dict):
        return {"part": "shape"}
    for k in ja:
        if ja.get(k) != jb.get(k):
            d = {"part": k}
            if k in ("acts", "histories") and isinstance(ja[k], dict) and isinstance(jb.get(k), dict):
                for ag in ja[k]:
                    if ja[k][ag] != jb[k].get(ag):
                        d["agent"] = ag
                        x, y = ja[k][ag], jb[k].get(ag)
                        if isinstance(x, list) and isinstance(y, list):
                            j = next((j for j, (p, q) in enumerate(zip(x, y)) if p != q), None)
                            if j is not None:
                                x, y = x[j], y[j]
                        if isinstance(x, dict) and isinstance(y, dict):
                            d["action"] = x.get("a")
                            d["field"] = next((f for f in x if x[f] != y.get(f)), None)
                        break
            return d
    return {"part": "keys"}


if __name__ == "__main__":
    sys.exit(server_main() if "--server" in sys.argv else worker_main())
