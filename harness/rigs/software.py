"""R-svc: drive a real `Computer` (every shipped service and application class installable on it) and the Lean model
(Drivers/C13.lean) with the same operation sequences; diff every answer and the whole observable state after every
operation.  Also: the implementation-side oracles of C13 (registries agree; open port => running owner), the runtime
cross-check of the Gen class table, and the receive()-guard probe.

primaite is imported inside functions only (REPO/src is first on sys.path, see harness/check.py).
"""
from __future__ import annotations

import itertools
import os
import shutil
import tempfile
from typing import Any, Dict, List, Optional, Tuple

from harness.lib.core import Rng

PROTO_NAMES = {"none": "none", "tcp": "tcp", "udp": "udp", "icmp": "icmp"}
SVC_REQS = ["scan", "stop", "start", "pause", "resume", "restart", "disable", "enable", "fix", "compromise"]
APP_REQS = ["scan", "close", "execute", "fix", "compromise"]
SVC_EVS = ["start", "stop", "pause", "resume", "restart", "disable", "enable", "scan", "fix", "compromise", "tick", "send"]
APP_EVS = ["run", "close", "install", "scan", "fix", "compromise", "tick", "send"]
NODE_KINDS = ["computer", "computer", "computer", "server", "router", "switch", "firewall"]
HEALTHS = ["GOOD", "GOOD", "GOOD", "UNUSED", "COMPROMISED", "OVERWHELMED", "FIXING"]
PORT_POOL = [0, 21, 22, 53, 80, 123, 219, 5432, 8080, 443]

_LOADED = False
_TMP: Optional[str] = None


def load():
    """import every module that defines a shipped software class (fills the registries)"""
    global _LOADED, _TMP
    if _LOADED:
        return
    if _TMP is None:
        _TMP = tempfile.mkdtemp(prefix="c13_", dir=os.environ.get("TMPDIR"))
        import atexit
        atexit.register(lambda: shutil.rmtree(_TMP, ignore_errors=True))
    import primaite.simulator.network.hardware.nodes.host.computer  # noqa
    import primaite.simulator.system.applications.database_client  # noqa
    import primaite.simulator.system.applications.nmap  # noqa
    import primaite.simulator.system.applications.web_browser  # noqa
    import primaite.simulator.system.applications.red_applications.c2.c2_beacon  # noqa
    import primaite.simulator.system.applications.red_applications.c2.c2_server  # noqa
    import primaite.simulator.system.applications.red_applications.data_manipulation_bot  # noqa
    import primaite.simulator.system.applications.red_applications.dos_bot  # noqa
    import primaite.simulator.system.applications.red_applications.ransomware_script  # noqa
    import primaite.simulator.system.services.database.database_service  # noqa
    import primaite.simulator.system.services.dns.dns_client  # noqa
    import primaite.simulator.system.services.dns.dns_server  # noqa
    import primaite.simulator.system.services.ftp.ftp_client  # noqa
    import primaite.simulator.system.services.ftp.ftp_server  # noqa
    import primaite.simulator.system.services.ntp.ntp_client  # noqa
    import primaite.simulator.system.services.ntp.ntp_server  # noqa
    import primaite.simulator.system.services.terminal.terminal  # noqa
    import primaite.simulator.system.services.web_server.web_server  # noqa
    from primaite import PRIMAITE_CONFIG  # noqa
    try:
        from primaite.simulator import SIM_OUTPUT
        SIM_OUTPUT.save_pcap_logs = False
        SIM_OUTPUT.save_sys_logs = False
        SIM_OUTPUT.write_sys_log_to_terminal = False
    except Exception:
        pass
    _LOADED = True


def registries() -> Tuple[Dict[str, Any], Dict[str, Any]]:
    load()
    from primaite.simulator.system.applications.application import Application
    from primaite.simulator.system.services.service import Service
    svc = dict(Service._registry)
    if "arp" in svc:  # the registered `ARP` is abstract; hosts carry `HostARP`
        from primaite.simulator.network.hardware.nodes.host.host_node import HostARP
        svc["arp"] = HostARP
    return svc, dict(Application._registry)


def svc_types() -> List[str]:
    s, _ = registries()
    return sorted(s)


def app_types() -> List[str]:
    _, a = registries()
    return sorted(a)


# --------------------------------------------------------------------------------------------------- generation
def gen_case(rng: Rng, max_ops: int = 30, focus: Optional[str] = None) -> dict:
    """A mostly-valid operation sequence.  `focus` biases towards one flavour: lifecycle / registries / payload / power."""
    st, at = svc_types(), app_types()
    focus = focus or rng.choice(["lifecycle", "lifecycle", "registries", "payload", "power", "mixed"])
    node = {"power": rng.choice(["ON", "ON", "ON", "OFF"]), "up": rng.choice([0, 1, 2, 3]), "down": rng.choice([0, 1, 2, 3]),
            "kind": rng.choice(NODE_KINDS)}
    names = ["arp", "icmp", "dns-client", "ntp-client", "web-browser", "nmap", "user-session-manager", "user-manager", "terminal",
             "ftp-client"]
    ops: List[dict] = []
    n = rng.range(3, max_ops)
    # a few installs up front so that there is something beyond the system software
    for _ in range(rng.range(0, 4)):
        ops.append(_gen_install(rng, st, at, names))
    w = {"lifecycle": [40, 8, 6, 14, 10, 4], "registries": [12, 40, 4, 10, 6, 4], "payload": [14, 10, 40, 8, 8, 4],
         "power": [20, 6, 6, 20, 30, 4], "mixed": [20, 20, 15, 15, 12, 6]}[focus]
    tot = sum(w)
    while len(ops) < n:
        k = rng.below(tot)
        if k < w[0]:  # lifecycle request / api call
            if rng.chance(3, 5):
                nm = rng.choice(names) if not rng.chance(1, 15) else rng.choice(["no-such", "Terminal", ""])
                if rng.chance(2, 3):
                    ops.append({"op": "sreq", "name": nm, "r": rng.choice(SVC_REQS)})
                else:
                    ops.append({"op": "areq", "name": nm, "r": rng.choice(APP_REQS)})
            elif rng.chance(1, 2):
                ops.append({"op": "sapi", "pick": rng.below(64), "ev": rng.choice(SVC_EVS)})
            else:
                ops.append({"op": "aapi", "pick": rng.below(64), "ev": rng.choice(APP_EVS)})
        elif k < w[0] + w[1]:  # install / uninstall
            j = rng.below(10)
            if j < 4:
                ops.append(_gen_install(rng, st, at, names))
            elif j < 6:
                ops.append({"op": "uninst", "name": rng.choice(names) if not rng.chance(1, 10) else "no-such"})
            elif j < 8:
                ops.append({"op": "rinst", "name": rng.choice(at) if not rng.chance(1, 12) else rng.choice(["no-such", "dns-client"])})
                if ops[-1]["name"] not in names:
                    names.append(ops[-1]["name"])
            else:
                ops.append({"op": "runinst", "name": rng.choice(names) if not rng.chance(1, 10) else "no-such"})
        elif k < w[0] + w[1] + w[2]:  # payloads
            if rng.chance(1, 2):
                h = rng.choice(["tcp", "udp", "icmp"])
                ops.append({"op": "frame", "hdr": h, "port": rng.choice(PORT_POOL) if h != "icmp" else None, "scan": rng.chance(1, 4)})
            else:
                ops.append({"op": "deliver", "port": rng.choice(PORT_POOL), "proto": rng.choice(["tcp", "udp", "icmp", "none"]),
                            "scan": rng.chance(1, 5)})
        elif k < w[0] + w[1] + w[2] + w[3]:
            for _ in range(rng.range(1, 3)):
                ops.append({"op": "tick"})
        elif k < w[0] + w[1] + w[2] + w[3] + w[4]:
            ops.append({"op": rng.choice(["pon", "poff", "rstart", "rshut", "rshut", "rstart"])})
        else:
            ops.append({"op": "sdur", "pick": rng.below(64), "a": rng.choice([-1, 0, 1, 2, 3, 5]), "b": rng.choice([-1, 0, 1, 2, 3])})
    return {"node": node, "ops": ops[:max(n, 1)], "focus": focus}


def _gen_install(rng: Rng, st: List[str], at: List[str], names: List[str]) -> dict:
    if rng.chance(3, 5):
        t = rng.choice(st)
        kind = "isvc"
    else:
        t = rng.choice(at)
        kind = "iapp"
    listen = []
    if rng.chance(1, 4):
        listen = sorted({rng.choice(PORT_POOL) for _ in range(rng.range(1, 2))})
    op = {"op": kind, "type": t, "listen": listen, "health": rng.choice(HEALTHS), "fix": rng.choice([0, 1, 2, 2, 3]),
          "cfg": not rng.chance(1, 4)}  # cfg False = `install(cls)` without a software_config (class defaults)
    nm = "arp" if t == "arp" else t
    if nm not in names:
        names.append(nm)
    return op


def exhaustive_cases(depth: int, svc_type: str, durs: Tuple[int, int], kind: str = "computer") -> List[dict]:
    """bounded-exhaustive lifecycle sequences over one service type: every word of length `depth` over the alphabet below"""
    alpha = [{"op": "sreq", "name": svc_type, "r": r} for r in ("stop", "start", "pause", "resume", "restart", "disable", "enable")]
    alpha += [{"op": "tick"}, {"op": "rshut"}, {"op": "rstart"}]
    out = []
    for word in itertools.product(range(len(alpha)), repeat=depth):
        out.append({"node": {"power": "ON", "up": durs[0], "down": durs[1], "kind": kind}, "ops": [dict(alpha[i]) for i in word],
                    "focus": "exhaustive"})
    return out


def timing_cases() -> List[dict]:
    """one trace per shipped class: its timed transition (restart for a service, request-install for an application) and a fix
    interrupted by pause / stop / close, each followed by enough ticks to complete — so that a class whose `apply_timestep` override
    skips the base countdown in some state shows up whichever class it is (not only the classes the random traces happen to restart)"""
    out = []
    for t in svc_types():
        name = "arp" if t == "arp" else t
        ops = [{"op": "isvc", "type": t, "listen": [], "health": "GOOD", "fix": 2, "cfg": True},
               {"op": "sreq", "name": name, "r": "restart"}] + [{"op": "tick"}] * 7 + \
              [{"op": "sreq", "name": name, "r": "fix"}, {"op": "sreq", "name": name, "r": "pause"}] + [{"op": "tick"}] * 3 + \
              [{"op": "sreq", "name": name, "r": "resume"}, {"op": "sreq", "name": name, "r": "fix"}, {"op": "sreq", "name": name, "r": "stop"}] + \
              [{"op": "tick"}] * 3 + [{"op": "sreq", "name": name, "r": "start"}, {"op": "sreq", "name": name, "r": "restart"},
                                      {"op": "sreq", "name": name, "r": "disable"}] + [{"op": "tick"}] * 7
        out.append({"node": {"power": "ON", "up": 0, "down": 0, "kind": "computer"}, "ops": ops, "focus": "timing"})
    for t in app_types():
        ops = [{"op": "runinst", "name": t}, {"op": "rinst", "name": t}, {"op": "tick"}, {"op": "areq", "name": t, "r": "close"},
               {"op": "tick"}, {"op": "tick"}, {"op": "areq", "name": t, "r": "fix"}, {"op": "areq", "name": t, "r": "close"}] + \
              [{"op": "tick"}] * 3
        out.append({"node": {"power": "ON", "up": 0, "down": 0, "kind": "computer"}, "ops": ops, "focus": "timing"})
    return out


# --------------------------------------------------------------------------------------------------- implementation side
class Impl:
    """One real Computer plus the bookkeeping needed to print the same canonical lines as the Lean driver."""

    def __init__(self, node_cfg: dict, guards: Dict[str, bool]):
        load()
        self.kind = node_cfg.get("kind", "computer")
        self.node = make_node(self.kind, node_cfg)
        self.is_host = self.kind in ("computer", "server")
        self.sm = self.node.software_manager
        self.guards = guards          # class name -> has running-guard (Gen table)
        self.objs: List[Any] = []     # every software object ever created, creation order = model uid
        self.t = 1
        self.recv_log: List[Any] = []
        self.model_init: List[str] = [f"node {node_cfg['power']} {node_cfg['up']} {node_cfg['down']}"]
        power_on = node_cfg["power"] == "ON"
        for obj in self.sm.software.values():  # insertion order = installation order of the system software
            self._adopt(obj)
            self.model_init.append(self._install_line(obj, sorted(obj.listen_on_ports), "GOOD", 2, False))
        self.dup_install = False
        self.skipped_installs = 0
        self.refused_installs = 0
        self.replaced_installs = 0
        self.payload_hits: List[Tuple[str, str]] = []

    # -- bookkeeping
    def _adopt(self, obj):
        self.objs.append(obj)
        rec = self.recv_log
        objs = self.objs

        def fake_receive(*a, _o=obj, **k):  # record the invocation; do not run the class's payload processing
            rec.append(_o)
            return False
        object.__setattr__(obj, "receive", fake_receive)
        if hasattr(obj, "restore_backup"):
            # DatabaseService's data operations run from apply_timestep (backup at timestep 1, restore when a fix completes);
            # they send over the network and raise AttributeError when no backup server is configured or `arp` was
            # uninstalled (database / session-manager defects, C17/C14's subject).  Not lifecycle: stubbed.
            object.__setattr__(obj, "restore_backup", lambda *a, **k: False)
            object.__setattr__(obj, "backup_database", lambda *a, **k: False)

    def uid(self, obj) -> int:
        for i, o in enumerate(self.objs):
            if o is obj:
                return i
        return -1

    def _flags(self, obj) -> str:
        from primaite.simulator.system.applications.application import Application
        g = self.guards.get(type(obj).__name__)
        if g is None:
            raise RuntimeError(f"class {type(obj).__name__} missing from the Gen class table")
        ctor_runs = isinstance(obj, Application) and type(obj).__name__ in CTOR_RUNS
        return (f"{1 if ctor_runs else 0}{0 if type(obj).__name__ in NO_BASE_ROUTES else 1}"
                f"{0 if type(obj).__name__ in OWN_EXECUTE else 1}")

    def _install_line(self, obj, listen, health, fix, cfg: bool) -> str:
        from primaite.simulator.system.applications.application import Application
        k = "iapp" if isinstance(obj, Application) else "isvc"
        ls = ",".join(str(p) for p in sorted(listen)) or "-"
        return (f"{k} {type(obj).__name__} {obj.name} {obj.port} {obj.protocol} {self._flags(obj)} {1 if cfg else 0} "
                f"{ls} {health} {fix}")

    # -- canonical state line (same format as `dump` of Drivers/C13.lean)
    def dump(self) -> str:
        def oi(x):
            return "-" if x is None else str(x)

        def soft(o):
            return f"{o.health_state_actual.name}/{o.health_state_visible.name}/{oi(o._fixing_countdown)}/{o.fixing_count}"
        svc = [f"{self.uid(o)}:{o.name}:{o.operating_state.name}:{oi(o.restart_countdown)}:{soft(o)}" for o in self.node.services.values()]
        app = [f"{self.uid(o)}:{o.name}:{o.operating_state.name}:{oi(o.install_countdown)}:{soft(o)}" for o in self.node.applications.values()]
        sw = ",".join(sorted(f"{k}={self.uid(v)}" for k, v in self.sm.software.items()))
        pm = ",".join(sorted(f"{p}/{pr}={self.uid(v)}" for (p, pr), v in self.sm.port_protocol_mapping.items()))

        def routes(rm):
            out = []
            for k, rt in rm.request_types.items():
                owner = next((i for i, o in enumerate(self.objs) if o._request_manager is rt.func), -1)
                out.append(f"{k}={owner}")
            return ",".join(sorted(out))
        op = ",".join(str(p) for p in sorted(set(self.sm.get_open_ports())))
        cm = ",".join(sorted(f"{k.__name__}={v}" for k, v in self.sm._software_class_to_name_map.items()))
        return (f"{self.node.operating_state.name} S[{' '.join(svc)}] A[{' '.join(app)}] SW[{sw}] PM[{pm}] "
                f"SR[{routes(self.node._service_request_manager)}] AR[{routes(self.node._application_request_manager)}] "
                f"CM[{cm}] OPEN[{op}]")

    # -- the property's own oracles, evaluated on the implementation after every operation
    def oracle(self) -> List[Tuple[str, str]]:
        """returns (kind, detail) for every registry / port disagreement visible now"""
        bad = []
        sw = self.sm.software
        inst = list(self.node.services.values()) + list(self.node.applications.values())
        if sorted(id(o) for o in sw.values()) != sorted(id(o) for o in inst):
            bad.append(("reg:software-vs-node", f"software={sorted(sw)} node.services|applications={sorted(o.name for o in inst)}"))
        routes = sorted(list(self.node._service_request_manager.request_types) + list(self.node._application_request_manager.request_types))
        if routes != sorted(sw):
            bad.append(("reg:routes-vs-software", f"routes={routes} software={sorted(sw)}"))
        for k, v in self.sm.port_protocol_mapping.items():
            if sw.get(v.name) is not v:
                bad.append(("reg:port-table-owner-not-installed", f"{k} -> {v.name} not the installed instance"))
        try:
            ds = self.node.describe_state()
        except Exception as e:  # noqa  -- describe_state is read on every environment step: it must not raise
            bad.append(("describe_state-raises", f"{type(e).__name__}: {e}"))
            ds = None
        if ds is not None:
            listed = sorted(list(ds["services"]) + list(ds["applications"]))
            if listed != sorted(sw):
                bad.append(("reg:describe_state-vs-software", f"describe_state={listed} software={sorted(sw)}"))
        if sorted(self.sm._software_class_to_name_map.items(), key=lambda kv: kv[1]) != \
                sorted(((type(o), o.name) for o in sw.values()), key=lambda kv: kv[1]):
            bad.append(("reg:class-map-vs-software", f"class map={sorted(v for v in self.sm._software_class_to_name_map.values())} "
                                                     f"software={sorted(sw)}"))
        running_ports = set()
        for o in inst:
            if o.operating_state.name == "RUNNING":
                running_ports |= {o.port, *o.listen_on_ports}
        for p in self.sm.get_open_ports():
            if p not in running_ports:
                bad.append(("open-port-without-running-software", f"port {p}"))
        return bad

    # -- one operation; returns (impl answer, model line or None when the op is skipped)
    def do(self, op: dict) -> Tuple[Optional[str], Optional[str]]:
        from primaite.simulator.system.applications.application import Application
        from primaite.simulator.system.services.service import Service
        from primaite.simulator.system.software import SoftwareHealthState
        k = op["op"]
        node, sm = self.node, self.sm
        if k in ("isvc", "iapp"):
            reg = registries()[0 if k == "isvc" else 1]
            cls = reg[op["type"]]
            if op["type"] == "database-service" and not sm.software.get("ftp-client"):
                return None, None  # DatabaseService.install would install an FTPClient itself (nested install, not modelled)
            was_installed = any(type(o) is cls for o in list(node.services.values()) + list(node.applications.values()))
            if was_installed:
                self.dup_install = True
            cfg = op.get("cfg", True)
            conf = cls.ConfigSchema(type=op["type"], listen_on_ports=set(op["listen"]), fixing_duration=op["fix"],
                                    starting_health_state=SoftwareHealthState[op["health"]])
            before = {id(o) for o in self.objs}
            try:
                if cfg:
                    sm.install(cls, software_config=conf)
                else:
                    sm.install(cls)
            except Exception as e:  # noqa
                # DatabaseService / WebServer constructors re-create their files and the file system raises on the
                # duplicate (F-25, C15's subject).  The constructor runs before any registry write: nothing changed.
                if "already exists in folder" not in str(e):
                    raise
                self.skipped_installs += 1
                return None, None
            new = [o for o in list(node.services.values()) + list(node.applications.values()) if id(o) not in before]
            if len(new) > 1:
                raise RuntimeError(f"install of {op['type']} created {len(new)} objects")
            if not new:
                # refused ("already installed", no configuration): the model needs the class parameters all the same
                probe = next((o for o in self.objs if type(o) is cls), None) or _scratch_instance(cls)
                self.refused_installs += 1
                return "ok", self._install_line(probe, [], "GOOD", 2, cfg)
            self._adopt(new[0])
            if was_installed:
                self.replaced_installs += 1
            if hasattr(new[0], "configure_backup"):
                # without a backup server, DatabaseService.restore_backup (run when a fix completes) passes dest_ip_address=None
                # to the FTP client and AttributeError escapes apply_timestep — a database defect (C17), not a lifecycle one
                new[0].configure_backup("192.168.1.250")
            if cfg:
                return "ok", self._install_line(new[0], op["listen"], op["health"], op["fix"], True)
            return "ok", self._install_line(new[0], sorted(new[0].listen_on_ports), "GOOD", 2, False)
        if k == "uninst":
            try:
                sm.uninstall(op["name"])
                return "ok", f"uninst {_w(op['name'])}"
            except RuntimeError:
                return "raised", f"uninst {_w(op['name'])}"
        if k == "rinst":
            name = op["name"]
            cls = Application._registry.get(name)
            line = f"rinst {_w(name)} -"
            before = {id(o) for o in self.objs}
            try:
                r = node.apply_request(["software_manager", "application", "install", name])
                ans = r.status
            except (KeyError, AttributeError):
                ans = "raised"  # (before the request-layer repair an unknown name raised; now it answers failure)
            new = [o for o in list(node.services.values()) + list(node.applications.values()) if id(o) not in before]
            for o in new:
                self._adopt(o)
            if cls is not None:
                # class parameters of a fresh instance of this class (needed by the model even if nothing was installed)
                probe = new[0] if new else next((o for o in self.objs if type(o) is cls), None)
                if probe is None:
                    probe = _scratch_instance(cls)
                dl = ",".join(str(p) for p in sorted(_default_listen(cls))) or "-"
                line = f"rinst {_w(name)} {cls.__name__} {probe.name} {probe.port} {probe.protocol} {self._flags(probe)} {dl}"
            return ans, line
        if k == "runinst":
            try:
                r = node.apply_request(["software_manager", "application", "uninstall", op["name"]])
                return r.status, f"runinst {_w(op['name'])}"
            except RuntimeError:
                return "raised", f"runinst {_w(op['name'])}"
        if k == "sreq":
            if not op["name"]:
                return None, None
            r = node.apply_request(["service", op["name"], op["r"]])
            return r.status, f"sreq {_w(op['name'])} {op['r']}"
        if k == "areq":
            if not op["name"]:
                return None, None
            if op["r"] == "execute":
                rt = node._application_request_manager.request_types.get(op["name"])
                target = next((o for o in self.objs if rt is not None and o._request_manager is rt.func), None)
                if target is not None and type(target).__name__ in OWN_EXECUTE:
                    return None, None  # the class's own operation (web browsing, attacks, queries): outside the lifecycle model
            r = node.apply_request(["application", op["name"], op["r"]])
            return r.status, f"areq {_w(op['name'])} {op['r']}"
        if k in ("sapi", "aapi", "sdur"):
            want = Service if k == "sapi" else Application
            if k == "sdur":
                pool = list(self.objs)
            else:
                pool = [o for o in self.objs if isinstance(o, want)]
            if not pool:
                return None, None
            o = pool[op["pick"] % len(pool)]
            u = self.uid(o)
            if k == "sdur":
                if isinstance(o, Service):
                    o.restart_duration = op["a"]
                    o.config.fixing_duration = op["b"]
                    return "ret 1", f"sapi {u} setdur {op['a']} {op['b']}"
                o.install_duration = op["a"]
                o.config.fixing_duration = op["b"]
                return "ret 1", f"aapi {u} setdur {op['a']} {op['b']}"
            ev = op["ev"]
            if ev == "tick":  # apply_timestep called directly on the object
                self.t += 1
                try:
                    o.apply_timestep(self.t)
                    return "ret 1", f"{k} {u} tick"
                except TypeError:
                    return "raised", f"{k} {u} tick"
            if ev == "send":  # IOSoftware.send: leaves the software only if it may act (node ON, RUNNING)
                from primaite.simulator.system.software import IOSoftware
                sent = []
                sess = node.session_manager
                orig = sess.receive_payload_from_software_manager
                object.__setattr__(sess, "receive_payload_from_software_manager", lambda *a, **kw: (sent.append(1), True)[1])
                try:
                    ret = IOSoftware.send(o, payload={"junk": 1}, dest_ip_address="192.168.1.77", dest_port=o.port)
                finally:
                    object.__setattr__(sess, "receive_payload_from_software_manager", orig)
                if bool(ret) != bool(sent):
                    raise RuntimeError("send(): return value and hand-over to the session manager disagree")
                if sent and o.operating_state.name != "RUNNING":
                    self.payload_hits.append(("send:" + type(o).__name__, o.operating_state.name))
                return f"ret {1 if ret else 0}", f"{k} {u} send"
            if ev == "compromise":
                ret = o.set_health_state(SoftwareHealthState.COMPROMISED)
            else:
                ret = getattr(o, ev)()
            if ev in ("run", "install"):
                ret = None  # Application.run/install return None; subclasses (DoSBot.run) return their own loop's result
            return f"ret {0 if ret is False else 1}", f"{k} {u} {ev}"
        if k == "tick":
            self.t += 1
            try:
                node.apply_timestep(self.t)
                return "ok", "tick"
            except TypeError:
                return "raised", "tick"
        if k == "pon":
            return f"ret {1 if node.power_on() else 0}", "pon"
        if k == "poff":
            return f"ret {1 if node.power_off() else 0}", "poff"
        if k == "rstart":
            return node.apply_request(["startup"]).status, "rstart"
        if k == "rshut":
            return node.apply_request(["shutdown"]).status, "rshut"
        if k == "deliver":
            self.recv_log.clear()
            payload = self._payload(op["scan"])
            try:
                sm.receive_payload_from_session_manager(payload=payload, port=op["port"], protocol=op["proto"], session_id="s",
                                                        from_network_interface=next(iter(node.network_interface.values()), None),
                                                        frame=None)
                ans = self._recv_answer()
            except AttributeError:
                ans = "raised"
            return ans, f"deliver {op['port']} {op['proto']} {1 if op['scan'] else 0}"
        if k == "frame":
            if self.kind in ("router", "firewall"):
                # Router.check_send_frame_to_session_manager: is a frame handed to the router's own software at all?
                dst = op.get("dst") or ["iface1", "iface2", "other"][(op.get("port") or 0) % 3]
                ips = [str(ni.ip_address) for ni in node.network_interface.values() if getattr(ni, "ip_address", None)]
                dst_ip = {"iface1": ips[0], "iface2": ips[-1], "other": "8.8.8.8"}[dst]
                frame = self._frame(op["hdr"], op["port"], self._payload(op["scan"]), dst_ip=dst_ip)
                to_me = bool(node.ip_is_router_interface(frame.ip.dst_ip_address))
                ans = f"ret {1 if node.check_send_frame_to_session_manager(frame) else 0}"
                line = (f"rframe icmp {1 if to_me else 0}" if op["hdr"] == "icmp" else f"rframe {op['hdr']} {op['port']} {1 if to_me else 0}")
                return ans, line
            if not self.is_host:
                return None, None  # a switch floods frames, it hands none to software
            self.recv_log.clear()
            frame = self._frame(op["hdr"], op["port"], self._payload(op["scan"]))
            ignored = []
            orig = node.sys_log.info

            def spy(msg, *a, **kw):
                if str(msg).startswith("Ignoring frame"):
                    ignored.append(1)
                return orig(msg, *a, **kw)
            object.__setattr__(node.sys_log, "info", spy)
            try:
                node.receive_frame(frame, node.network_interface[1])
                ans = "ignored" if ignored else self._recv_answer()
            except AttributeError:
                ans = "raised"
            finally:
                object.__setattr__(node.sys_log, "info", orig)
            line = f"frame icmp {1 if op['scan'] else 0}" if op["hdr"] == "icmp" else f"frame {op['hdr']} {op['port']} {1 if op['scan'] else 0}"
            return ans, line
        raise ValueError(f"unknown op {k}")

    def _recv_answer(self) -> str:
        parts = []
        for o in self.recv_log:
            g = self.guards[type(o).__name__]
            handled = bool(o._can_perform_action()) if g else True  # g: the class's receive() starts with the guard (Gen table)
            if handled and o.operating_state.name != "RUNNING":
                self.payload_hits.append((type(o).__name__, o.operating_state.name))
            parts.append(f"{self.uid(o)}:{1 if handled else 0}")
        return "recv " + ",".join(parts)

    def _payload(self, scan: bool):
        if not scan:
            return {"junk": 1}
        from primaite.simulator.system.applications.nmap import PortScanPayload
        return PortScanPayload(ip_address="192.168.1.2", port=80, protocol="tcp", request=True)

    def _frame(self, hdr: str, port: Optional[int], payload, dst_ip: str = "192.168.1.2"):
        from primaite.simulator.network.protocols.icmp import ICMPPacket
        from primaite.simulator.network.transmission.data_link_layer import EthernetHeader, Frame
        from primaite.simulator.network.transmission.network_layer import IPPacket
        from primaite.simulator.network.transmission.transport_layer import TCPHeader, UDPHeader
        eth = EthernetHeader(src_mac_addr="aa:bb:cc:dd:ee:ff", dst_mac_addr=next(iter(self.node.network_interface.values())).mac_address)
        if hdr == "tcp":
            return Frame(ethernet=eth, ip=IPPacket(src_ip_address="192.168.1.9", dst_ip_address=dst_ip, protocol="tcp"),
                         tcp=TCPHeader(src_port=40000, dst_port=port), payload=payload)
        if hdr == "udp":
            return Frame(ethernet=eth, ip=IPPacket(src_ip_address="192.168.1.9", dst_ip_address=dst_ip, protocol="udp"),
                         udp=UDPHeader(src_port=40000, dst_port=port), payload=payload)
        return Frame(ethernet=eth, ip=IPPacket(src_ip_address="192.168.1.9", dst_ip_address=dst_ip, protocol="icmp"),
                     icmp=ICMPPacket(), payload=payload)


def make_node(kind: str, node_cfg: dict):
    """the node under test: a host (computer / server) or a network node (router / switch / firewall)"""
    d = {"hostname": node_cfg.get("hostname", "n_" + kind), "start_up_duration": node_cfg["up"], "shut_down_duration": node_cfg["down"],
         "operating_state": node_cfg["power"]}
    if kind in ("computer", "server"):
        from primaite.simulator.network.hardware.nodes.host.computer import Computer
        from primaite.simulator.network.hardware.nodes.host.server import Server
        k = Computer if kind == "computer" else Server
        return k.from_config(config={"type": kind, "ip_address": node_cfg.get("ip", "192.168.1.2"), "subnet_mask": "255.255.255.0", **d})
    if kind == "switch":
        from primaite.simulator.network.hardware.nodes.network.switch import Switch
        return Switch.from_config({"type": "switch", "num_ports": 4, **d})
    if kind == "router":
        from primaite.simulator.network.hardware.nodes.network.router import Router
        return Router.from_config({"type": "router", "num_ports": 3, "ports": {
            1: {"ip_address": "192.168.1.1", "subnet_mask": "255.255.255.0"},
            2: {"ip_address": "10.0.0.1", "subnet_mask": "255.255.255.0"}}, **d})
    if kind == "firewall":
        from primaite.simulator.network.hardware.nodes.network.firewall import Firewall
        return Firewall.from_config({"type": "firewall", "ports": {
            "external_port": {"ip_address": "10.0.0.2", "subnet_mask": "255.255.255.0"},
            "internal_port": {"ip_address": "10.0.1.1", "subnet_mask": "255.255.255.0"}}, **d})
    raise ValueError(kind)


OWN_EXECUTE: set = set()     # application classes that register their own `execute` (class-specific operation, not modelled)
NO_BASE_ROUTES: set = set()  # classes whose request manager does not start from super()'s (Gen table)
CTOR_RUNS: set = set()   # application classes whose __init__ calls self.run(); filled from the Gen table by props/c13.py


def _w(s: str) -> str:
    """one protocol word"""
    return s if s and " " not in s else "_"


_SCRATCH: Dict[Any, Any] = {}


def _scratch_instance(cls):
    """class parameters (port, protocol) of a class that is not installed on the node under test"""
    if cls not in _SCRATCH:
        from primaite.simulator.network.hardware.nodes.host.computer import Computer
        c = Computer.from_config(config={"type": "computer", "hostname": "scratch", "ip_address": "192.168.9.2",
                                         "subnet_mask": "255.255.255.0", "start_up_duration": 0})
        if cls.__name__ == "DatabaseService":
            pass
        c.software_manager.install(cls)
        _SCRATCH[cls] = next(o for o in c.software_manager.software.values() if type(o) is cls)
    return _SCRATCH[cls]


def _default_listen(cls) -> set:
    return set(_scratch_instance(cls).listen_on_ports)


def run_case(case: dict, guards: Dict[str, bool]) -> dict:
    """Run one case on the implementation.  Returns impl answers+dumps, the model lines, the oracle findings per op."""
    im = Impl(case["node"], guards)
    lines = list(im.model_init)
    impl = ["ok"] * len(lines)
    # after the init block: one dump
    lines.append("dump")
    impl.append(im.dump())
    oracle_hits: List[Tuple[int, str, str, bool]] = []
    for kind, detail in im.oracle():
        oracle_hits.append((-1, kind, detail, im.dup_install))
    op_index: List[int] = []   # model line index -> op index
    executed = []
    for i, op in enumerate(case["ops"]):
        ans, line = im.do(op)
        if line is None:
            continue
        executed.append(i)
        lines.append(line)
        impl.append(ans)
        lines.append("dump")
        if ans == "raised" and op["op"] in ("tick",):
            impl.append(None)  # state after a raise inside apply_timestep is not compared
            break
        impl.append(im.dump())
        for kind, detail in im.oracle():
            oracle_hits.append((i, kind, detail, im.dup_install))
        for cls_name, st in im.payload_hits:
            oracle_hits.append((i, "payload-handled-while-not-running", f"{cls_name} while {st}", cls_name))
        im.payload_hits.clear()
    return {"impl": impl, "lines": lines, "oracle": oracle_hits, "executed": executed, "n_objs": len(im.objs),
            "refused": im.refused_installs, "replaced": im.replaced_installs}


# --------------------------------------------------------------------------------------------------- class table cross-check
def runtime_class_table() -> List[dict]:
    """name / kind / port / protocol / discriminator of every registered class, read from live instances"""
    load()
    from primaite.simulator.system.applications.application import Application
    svc, app = registries()
    rows = []
    for disc, cls in sorted({**svc, **app}.items()):
        o = _scratch_instance(cls)
        rows.append({"cls": cls.__name__, "name": o.name, "disc": disc, "is_app": isinstance(o, Application), "port": int(o.port),
                     "proto": {"none": 0, "tcp": 1, "udp": 2, "icmp": 3}[o.protocol],
                     "restart": getattr(o, "restart_duration", None), "install": getattr(o, "install_duration", None),
                     "fix": o.config.fixing_duration})
    return rows


# --------------------------------------------------------------------------------------------------- receive() guard probe
def guard_probe(cls_name: str) -> dict:
    """Give an instance of the class in each operating state a well-typed payload through its real `receive` and report
    whether it processed it (truthy return, or something sent, or its state changed).  A FRESH node and instance per state,
    so that what a RUNNING instance did with the payload cannot hide what a not-running one does.  Independent of Lean and
    of the Gen table."""
    load()
    from primaite.simulator.system.applications.application import Application
    svc, app = registries()
    cls = next((c for c in list(svc.values()) + list(app.values()) if c.__name__ == cls_name), None)
    if cls is None:
        return {"cls": cls_name, "status": "not-registered"}
    is_app = issubclass(cls, Application)
    states = ["RUNNING", "CLOSED", "INSTALLING"] if is_app else ["RUNNING", "STOPPED", "PAUSED", "DISABLED", "RESTARTING"]
    res = {"cls": cls_name, "status": "probed", "states": {}}
    for st in states + ["RUNNING@node-OFF"]:
        r = _probe_one(cls, cls_name, st)
        if r is None:
            continue
        if "status" in r:
            return {"cls": cls_name, **r}
        res["states"][st] = r
    return res


def _probe_one(cls, cls_name: str, st: str) -> Optional[dict]:
    from primaite.simulator.network.hardware.node_operating_state import NodeOperatingState
    from primaite.simulator.network.hardware.nodes.host.computer import Computer
    node = Computer.from_config(config={"type": "computer", "hostname": "probe", "ip_address": "192.168.1.2",
                                        "subnet_mask": "255.255.255.0", "start_up_duration": 0})
    inst = next((o for o in node.software_manager.software.values() if type(o) is cls), None)
    if inst is None:
        node.software_manager.install(cls)
        inst = next(o for o in node.software_manager.software.values() if type(o) is cls)
    sent = []
    sess = node.session_manager
    object.__setattr__(sess, "receive_payload_from_software_manager", lambda *a, **k: (sent.append(1), False)[1])
    nic = node.network_interface[1]
    object.__setattr__(nic, "send_frame", lambda *a, **k: (sent.append(1), False)[1])
    try:
        payload, kwargs = _typed_payload(cls_name, node)
    except Exception as e:  # noqa
        return {"status": "no-payload", "detail": f"{type(e).__name__}: {e}"}
    enum = type(inst.operating_state)
    if st == "RUNNING@node-OFF":
        inst.operating_state = enum["RUNNING"]
        node.operating_state = NodeOperatingState.OFF
    else:
        inst.operating_state = enum[st]
    sent.clear()
    before = _snapshot(inst)
    try:
        ret = inst.receive(payload=payload, session_id="probe-session", **kwargs)
        err = None
    except Exception as e:  # noqa
        ret, err = None, f"{type(e).__name__}"
    after = _snapshot(inst)
    return {"ret": bool(ret), "sent": len(sent), "changed": before != after, "err": err}


def _snapshot(inst) -> str:
    # `_active` (FTPServiceABC): "transmitted this timestep" flag, set before the running-guard by every FTP client entry
    # point, cleared by pre_timestep and read by describe_state only while RUNNING — not payload handling (see design note)
    skip = {"sys_log", "software_manager", "file_system", "folder", "parent", "_active"}
    out = {}
    for k, v in list(inst.__dict__.items()) + list((getattr(inst, "__pydantic_private__", None) or {}).items()):
        if k in skip or k == "operating_state":
            continue
        try:
            out[k] = repr(v)[:300]
        except Exception:  # noqa
            out[k] = "?"
    return repr(sorted(out.items()))


def _typed_payload(cls_name: str, node):
    from types import SimpleNamespace
    nic = node.network_interface[1]
    frame_stub = SimpleNamespace(ip=SimpleNamespace(src_ip_address="192.168.1.9"), icmp=None)
    kw = {"from_network_interface": nic, "frame": frame_stub}
    if cls_name == "Terminal":
        from primaite.simulator.network.protocols.ssh import SSHConnectionMessage, SSHPacket, SSHTransportMessage, SSHUserCredentials
        p = SSHPacket(transport_message=SSHTransportMessage.SSH_MSG_USERAUTH_REQUEST, connection_message=SSHConnectionMessage.SSH_MSG_CHANNEL_DATA,
                      user_account=SSHUserCredentials(username="admin", password="admin"), connection_request_uuid="r1")
        return p, kw
    if cls_name == "NMAP":
        from primaite.simulator.system.applications.nmap import PortScanPayload
        return PortScanPayload(ip_address="192.168.1.2", port=22, protocol="tcp", request=True), kw
    if cls_name in ("ICMP",):
        from primaite.simulator.network.protocols.icmp import ICMPPacket
        from primaite.simulator.network.transmission.data_link_layer import EthernetHeader, Frame
        from primaite.simulator.network.transmission.network_layer import IPPacket
        f = Frame(ethernet=EthernetHeader(src_mac_addr="aa:bb:cc:dd:ee:ff", dst_mac_addr=nic.mac_address),
                  ip=IPPacket(src_ip_address="192.168.1.9", dst_ip_address="192.168.1.2", protocol="icmp"), icmp=ICMPPacket())
        # make the reply deliverable without ARP traffic
        node.software_manager.arp.add_arp_cache_entry(ip_address=f.ip.src_ip_address, mac_address="aa:bb:cc:dd:ee:ff", network_interface=nic)
        return f.payload, {"from_network_interface": nic, "frame": f}
    if cls_name in ("NTPServer", "NTPClient"):
        from datetime import datetime
        from primaite.simulator.network.protocols.ntp import NTPPacket, NTPReply
        p = NTPPacket()
        if cls_name == "NTPClient":
            p = NTPPacket(ntp_reply=NTPReply(ntp_datetime=datetime(2020, 1, 1)))
        return p, kw
    if cls_name == "DNSClient":
        from primaite.simulator.network.protocols.dns import DNSPacket, DNSReply, DNSRequest
        return DNSPacket(dns_request=DNSRequest(domain_name_request="x.test"), dns_reply=DNSReply(domain_name_ip_address="10.0.0.9")), kw
    if cls_name == "DNSServer":
        from primaite.simulator.network.protocols.dns import DNSPacket, DNSRequest
        return DNSPacket(dns_request=DNSRequest(domain_name_request="x.test")), kw
    if cls_name == "WebBrowser":
        from primaite.simulator.network.protocols.http import HttpResponsePacket, HttpStatusCode
        return HttpResponsePacket(status_code=HttpStatusCode.OK), kw
    if cls_name == "WebServer":
        from primaite.simulator.network.protocols.http import HttpRequestMethod, HttpRequestPacket
        return HttpRequestPacket(request_method=HttpRequestMethod.GET, request_url="http://x.test/"), kw
    if cls_name in ("FTPServer", "FTPClient"):
        from primaite.simulator.network.protocols.ftp import FTPCommand, FTPPacket, FTPStatusCode
        if cls_name == "FTPServer":
            return FTPPacket(ftp_command=FTPCommand.PORT, ftp_command_args=21), kw
        return FTPPacket(ftp_command=FTPCommand.PORT, ftp_command_args=21, status_code=FTPStatusCode.OK), kw
    if cls_name in ("C2Beacon", "C2Server"):
        from primaite.simulator.network.protocols.masquerade import C2Packet
        from primaite.simulator.system.applications.red_applications.c2.abstract_c2 import C2Payload
        return C2Packet(masquerade_protocol="tcp", masquerade_port=80, keep_alive_frequency=5, payload_type=C2Payload.KEEP_ALIVE), kw
    if cls_name in ("DatabaseService",):
        return {"type": "disconnect", "connection_id": "c"}, kw
    if cls_name in ("DatabaseClient", "DoSBot"):
        return {"type": "sql", "uuid": "q1", "status_code": 200}, kw
    if cls_name in ("ARP", "HostARP"):
        from primaite.simulator.network.protocols.arp import ARPPacket
        return ARPPacket(sender_mac_addr="aa:bb:cc:dd:ee:ff", sender_ip_address="192.168.1.9", target_ip_address="192.168.1.2"), kw
    return {"junk": 1}, kw
