"""R-obs, environment level (C02 and C09): real `PrimaiteGymEnv` trajectories on shipped scenarios, on generated families around them,
on generated small scenarios (harness/gen/scenario.py) and on EPISODE SCHEDULES (shipped directories and generated ones whose
episodes observe different things).

What is checked on the implementation at every reset / step (the property's own oracle):
  * the observation the API returned is a member of `env.observation_space` read through the PUBLIC property at that moment, of
    the space read right after that episode's reset, and - for a constant scenario - of the space read at construction;
  * `observation_space` / `action_space` equal the ones read at construction in every episode of a constant scenario; within one
    episode they never change (scheduled or not);
  * flattened: `flatten(space, nested)` is what was returned and has the length of `flatten_space(space)`.
The model side is driven from the SCENARIO's words: the agent's `observation_space` section of the episode's configuration is sent
as `rawcfg` (Model/ObsConfig builds the object), the states the real observation manager was updated with while the game was
constructed / reset are replayed (`ObservationManager.update` is wrapped for the duration of `reset()` only), and from then on every
step is compared leaf by leaf; `show` compares the model's object, memory included, with the tokens read back from the real one.

Every trajectory is described by a small RECIPE (family, scenario, derived seeds, sizes) from which it can be re-executed:
`replay_recipe` is what `check.py --replay` runs for environment-level violations."""
from __future__ import annotations

import copy
import shutil
import tempfile
from pathlib import Path
from typing import Any, Callable, Dict, List, Optional, Tuple

from harness.lib.core import REPO, Rng
from harness.rigs import obs as rig

QUIET_IO_YAML = ("\nio_settings:\n  save_agent_actions: false\n  save_step_metadata: false\n  save_pcap_logs: false\n  save_sys_logs: false\n"
                 "  save_agent_logs: false\n")

SCHEDULE_DIRS = [
    "src/primaite/config/_package_data/scenario_with_placeholders",
    "src/primaite/config/_package_data/mini_scenario_with_simulation_variation",
    "tests/assets/configs/scenario_with_placeholders",
]
SCHEDULE_BASES = ["src/primaite/config/_package_data/data_manipulation.yaml", "tests/assets/configs/firewall_actions_network.yaml",
                  "tests/assets/configs/test_primaite_session.yaml"]


# =============================================================================================== observation-space generation
def vocab(cfg: dict) -> dict:
    """what the scenario's simulation contains, by name (the vocabulary an observation space can point at)"""
    net = cfg.get("simulation", {}).get("network", {})
    hosts, routers, firewalls = {}, [], []
    for n in net.get("nodes", []):
        t = n.get("type")
        if t in ("computer", "server", "printer"):
            folders = {}
            for f in n.get("folders", []) or []:
                folders[f["folder_name"]] = [x["file_name"] for x in f.get("files", []) or []]
            hosts[n["hostname"]] = {"services": [s["type"] for s in n.get("services", []) or []],
                                    "applications": [a["type"] for a in n.get("applications", []) or []], "folders": folders}
        elif t == "router":
            routers.append(n["hostname"])
        elif t == "firewall":
            firewalls.append(n["hostname"])
    links = [f"{l['endpoint_a_hostname']}:eth-{l['endpoint_a_port']}<->{l['endpoint_b_hostname']}:eth-{l['endpoint_b_port']}" for l in net.get("links", [])]
    ips = [n["ip_address"] for n in net.get("nodes", []) if "ip_address" in n]
    # the addresses the agents' own ACL actions (router-acl-add-rule / firewall-acl-add-rule) can put into a rule
    rule_ips: List[str] = []
    for a in cfg.get("agents", []):
        for act in ((a.get("action_space") or {}).get("action_map") or {}).values():
            if isinstance(act, dict) and "acl-add-rule" in str(act.get("action", "")):
                for k in ("src_ip", "dst_ip"):
                    x = (act.get("options") or {}).get(k)
                    if isinstance(x, str) and x.count(".") == 3 and x not in rule_ips:
                        rule_ips.append(x)
    return {"hosts": hosts, "routers": routers, "firewalls": firewalls, "links": links, "ips": ips, "rule_ips": rule_ips}


SYSTEM_SERVICES = ["dns-client", "ntp-client", "ftp-client", "arp", "icmp"]
SYSTEM_APPS = ["web-browser", "nmap"]


def gen_osp(cfg: dict, rng: Rng, max_hosts: int = 4) -> dict:
    """A generated `observation_space` section for a scenario: non-default nodes-level options that the hosts do NOT repeat (so that a
    wrong push-down is observable), per-node overrides, explicit lists shorter / equal / longer than their counts, routers with
    explicit ports and `acl:` sub-configurations, firewalls, links, a placeholder."""
    v = vocab(cfg)
    names = rng.shuffle(list(v["hosts"]))[:rng.range(1, max_hosts)]
    mt = None
    if rng.chance(1, 2):
        mt = {"icmp": ["NONE"], "tcp": rng.choice([["HTTP"], ["HTTP", "POSTGRES_SERVER"], ["DNS"]])}
        if rng.chance(1, 2):
            mt["udp"] = ["DNS"]

    def pick(pool, extra, hi):
        pool = list(dict.fromkeys(list(pool) + extra))
        k = rng.range(0, hi)
        return rng.shuffle(pool)[:k]
    hosts = []
    for h in names:
        hv = v["hosts"][h]
        c: Dict[str, Any] = {"hostname": h}
        if rng.chance(4, 5):
            c["services"] = [{"service_name": s} for s in pick(hv["services"], SYSTEM_SERVICES + ["no-such-service"], 3)]
        if rng.chance(4, 5):
            c["applications"] = [{"application_name": a} for a in pick(hv["applications"], SYSTEM_APPS + ["no-such-app"], 3)]
        if rng.chance(3, 4):
            c["folders"] = []
            for f in pick(hv["folders"], ["root", "downloads", "verif", "nofolder"], 3):
                fc: Dict[str, Any] = {"folder_name": f}
                if rng.chance(3, 4):
                    fc["files"] = [{"file_name": x} for x in pick(hv["folders"].get(f, []), ["v1.txt", "nofile"], 3)]
                c["folders"].append(fc)
        if rng.chance(1, 3):
            c["network_interfaces"] = [{"nic_num": rng.choice([1, 2, 3])} for _ in range(rng.range(0, 2))]
            for nc in c["network_interfaces"]:
                if mt is not None and rng.chance(1, 2):
                    nc["monitored_traffic"] = mt
        # most hosts do NOT repeat the nodes-level options; a few override one
        if rng.chance(1, 4):
            k = rng.choice(["file_system_requires_scan", "services_requires_scan", "applications_requires_scan", "include_nmne", "include_num_access",
                            "include_users"])
            c[k] = rng.chance(1, 2)
        if rng.chance(1, 5):
            c[rng.choice(["num_services", "num_applications", "num_folders", "num_files", "num_nics"])] = rng.range(0, 3)
        hosts.append(c)
    o: Dict[str, Any] = {
        "hosts": hosts, "num_services": rng.range(0, 3), "num_applications": rng.range(0, 2), "num_folders": rng.range(0, 2), "num_files": rng.range(0, 2),
        "num_nics": rng.range(0, 2), "include_nmne": rng.chance(1, 2), "include_num_access": rng.chance(1, 2),
        "file_system_requires_scan": rng.chance(1, 2), "services_requires_scan": rng.chance(1, 2), "applications_requires_scan": rng.chance(1, 2),
        "include_users": rng.chance(1, 2),
    }
    if mt is not None:
        o["monitored_traffic"] = mt
    for k in ("file_system_requires_scan", "services_requires_scan", "applications_requires_scan", "include_users"):
        if rng.chance(1, 5):
            del o[k]  # the documented default then applies
    if v["routers"] or v["firewalls"]:
        ips = rng.shuffle(list(dict.fromkeys(v["ips"])))[:rng.range(0, 5)]
        if v["rule_ips"] and rng.chance(3, 4):  # list what the agents' ACL actions use, so that rules added by ACTIONS get ids >= 2
            ips = list(dict.fromkeys(ips + rng.shuffle(v["rule_ips"])[:2]))
        if ips and rng.chance(1, 2):  # a value listed twice (its last occurrence at the end): ids must still fit the declared Discrete
            ips = ips + [rng.choice([x for x in ips if x in v["rule_ips"]] or ips)]
        o.update({"ip_list": ips, "wildcard_list": ["0.0.0.1", "0.0.0.255"][:rng.range(0, 2)], "port_list": ["HTTP", "POSTGRES_SERVER", "DNS", 0][:rng.range(0, 4)] + (["HTTP"] if rng.chance(1, 3) else []),
                  "protocol_list": ["ICMP", "TCP", "UDP"][:rng.range(0, 3)] + (["TCP"] if rng.chance(1, 3) else []), "num_rules": rng.choice([1, 3, 10, 24]), "num_ports": rng.range(0, 4)})
        o["routers"] = []
        for r in rng.shuffle(v["routers"])[:2]:
            rc: Dict[str, Any] = {"hostname": r}
            if rng.chance(1, 2):
                rc["ports"] = [{"port_id": rng.range(1, 5)} for _ in range(rng.range(0, 5))]
            if rng.chance(1, 3):
                rc["num_ports"] = rng.range(0, 4)
            if rng.chance(1, 3):
                rc["acl"] = {}
                if rng.chance(1, 2):
                    rc["acl"]["num_rules"] = rng.choice([1, 2, 5])  # 0 would be a Dict without sub-spaces (F-C02-2: not flattenable)
                if rng.chance(1, 2):
                    rc["acl"]["ip_list"] = ips[:2]
                if rng.chance(1, 3):
                    rc["acl"]["port_list"] = ["HTTP"]
            if rng.chance(1, 3):
                rc["include_users"] = rng.chance(1, 2)
            o["routers"].append(rc)
        o["firewalls"] = []
        for f in v["firewalls"][:1]:
            if rng.chance(2, 3):
                fc = {"hostname": f}
                if rng.chance(1, 3):
                    fc["num_rules"] = rng.choice([1, 4])
                if rng.chance(1, 3):
                    fc["include_users"] = rng.chance(1, 2)
                o["firewalls"].append(fc)
    comps = [{"type": "nodes", "label": "NODES", "options": o}]
    if v["links"] and rng.chance(2, 3):
        comps.append({"type": "links", "label": "LINKS", "options": {"link_references": rng.shuffle(v["links"])[:rng.range(1, 4)] + (["x:eth-1<->y:eth-1"] if rng.chance(1, 4) else [])}})
    if rng.chance(1, 3):
        comps.append({"type": "none", "label": "ICS", "options": {}})
    return {"type": "custom", "options": {"components": comps}}


def rl_agents(cfg: dict) -> List[dict]:
    return [a for a in cfg.get("agents", []) if (a.get("observation_space") or {}).get("type") == "custom"]


def variant(cfg: dict, rng: Rng, mode: str) -> dict:
    """`toggle`: options of the shipped observation space switched (rig.mutate_cfg); `regen`: a generated observation space
    (gen_osp) for every agent that has a custom one, NMNE capture and thresholds re-drawn"""
    if mode == "toggle":
        return rig.mutate_cfg(cfg, rng)
    cfg = copy.deepcopy(cfg)
    sim = cfg.setdefault("simulation", {}).setdefault("network", {})
    rig.gen_nmne_config(sim, rng)
    for agent in rl_agents(cfg):
        agent["observation_space"] = gen_osp(cfg, rng)
        if "agent_settings" in agent and rng.chance(1, 2):
            agent["agent_settings"]["flatten_obs"] = rng.chance(1, 2)
    if rng.chance(1, 2):
        cfg.setdefault("game", {})["thresholds"] = {"nmne": {"low": 0, "medium": 1, "high": 2}, "file_access": {"low": 0, "medium": 1, "high": 3},
                                                   "app_executions": {"low": 0, "medium": 2, "high": 4}}
    return cfg


# =============================================================================================== episode schedules
def copy_schedule_dir(rel: str, tmp: Path) -> Path:
    """a shipped scheduled scenario, copied with file output switched off (a later `io_settings:` key overrides the shipped one)"""
    import yaml
    src = REPO / rel
    dst = tmp / ("shipped_" + rel.replace("/", "_"))
    shutil.copytree(src, dst)
    sched = yaml.safe_load((dst / "schedule.yaml").read_text())
    base = dst / sched["base_scenario"]
    base.write_text(base.read_text() + QUIET_IO_YAML)
    return dst


def write_schedule_dir(base_cfg: dict, osps: List[dict], tmp: Path, name: str) -> Path:
    """a generated schedule: episode i observes `osps[i]` (an anchor defined by the episode's file and referenced by the base scenario)"""
    import yaml
    cfg = copy.deepcopy(base_cfg)
    agent = rl_agents(cfg)[0]
    agent["observation_space"] = "__OBS_SPACE__"
    text = yaml.safe_dump(cfg, sort_keys=False, default_flow_style=False)
    if text.count("__OBS_SPACE__") != 1:
        raise ValueError("placeholder lost in the YAML dump")
    text = text.replace("__OBS_SPACE__", "*obs_space")
    d = tmp / name
    d.mkdir(parents=True)
    (d / "scenario.yaml").write_text(text)
    sched = {"base_scenario": "scenario.yaml", "schedule": {}}
    for i, osp in enumerate(osps):
        body = yaml.safe_dump(osp, sort_keys=False, default_flow_style=False)
        (d / f"obs_{i}.yaml").write_text("obs_space_def: &obs_space\n" + "".join("  " + l + "\n" for l in body.splitlines()))
        sched["schedule"][i] = [f"obs_{i}.yaml"]
    (d / "schedule.yaml").write_text(yaml.safe_dump(sched, sort_keys=False))
    return d


# =============================================================================================== recipes
def build_source(recipe: dict, tmp: Path) -> Tuple[Any, bool]:
    """(what PrimaiteGymEnv is given, scenario is constant over episodes)"""
    fam = recipe["family"]
    if fam == "shipped":
        return rig.load_cfg(recipe["rel"]), True
    if fam in ("toggle", "regen"):
        return variant(rig.load_cfg(recipe["rel"]), Rng(recipe["variant_seed"]), fam), True
    if fam == "generated":
        from harness.gen.scenario import gen_scenario
        r = Rng(recipe["variant_seed"])
        cfg = gen_scenario(r, size=recipe.get("size", 1), family=recipe.get("topology"), shadowing=False)
        return variant(cfg, r, "regen"), True
    if fam == "schedule-shipped":
        return str(copy_schedule_dir(recipe["rel"], tmp)), False
    if fam == "schedule-generated":
        r = Rng(recipe["variant_seed"])
        base = rig.load_cfg(recipe["rel"])
        osps = [gen_osp(base, r) for _ in range(recipe.get("n_episodes", 3))]
        if recipe.get("same"):
            osps = [osps[0]] * len(osps)
        for a in rl_agents(base)[:1]:
            a.setdefault("agent_settings", {})["flatten_obs"] = bool(recipe.get("flatten"))
        return str(write_schedule_dir(base, osps, tmp, f"gen_{recipe['variant_seed']}")), bool(recipe.get("same"))
    raise ValueError(f"unknown family {fam}")


TARGET_LEAVES = ("remote_sessions", "local_login", "num_executions", "num_access", "num_file_creations", "num_file_deletions")


def observed_components(game) -> Dict[str, dict]:
    """host name -> {"applications": [...], "files": [(folder, file)], "folders": [...]} as some agent's observation points at them"""
    out: Dict[str, dict] = {}
    for _n, agent in rig.agents_with_obs(game):
        for _p, o in rig.walk(agent.observation_manager.obs):
            w = getattr(o, "where", None)
            if w is None:
                continue
            w = list(w)
            if len(w) < 3 or w[:2] != ["network", "nodes"]:
                continue
            h = out.setdefault(w[2], {"applications": [], "files": [], "folders": []})
            t = type(o).__name__
            if t == "ApplicationObservation":
                h["applications"].append(w[4])
            elif t == "FileObservation":
                h["files"].append((w[5], w[7]))
            elif t == "FolderObservation":
                h["folders"].append(w[5])
    return out


def targeted(game, rng: Rng, ctx) -> None:
    """Events INSIDE the tick (after `pre_timestep` has cleared the per-step counters, before the state is described), aimed at what the
    agents observe: application executions, file accesses, file creations and deletions in the same tick, remote and local log-ins —
    so that the counted leaves are away from their default when the observation is made."""
    comps = observed_components(game)
    if not comps:
        return
    for _ in range(rng.range(1, 3)):
        host = rng.choice(sorted(comps))
        node = game.simulation.network.get_node_by_hostname(host)
        if node is None or node.operating_state.value != 1:
            continue
        c = comps[host]
        # executions and accesses need an observed application / file on this host: prefer them whenever there is one
        options = [0] * (4 if c["applications"] else 0) + [1] * (4 if c["files"] else 0) + [2, 3, 4, 4, 5, 6, 6, 7]
        k = rng.choice(options)
        try:
            if k == 0 and c["applications"]:
                name = rng.choice(c["applications"])
                app = next((a for a in node.applications.values() if a.name == name), None)
                if app is not None:
                    app.num_executions += rng.choice([1, 2, 3, 4, 5, 6, 10, 11])
                    ctx.count("targeted:application-executions")
            elif k == 1 and c["files"]:
                fo, fi = rng.choice(c["files"])
                if node.file_system.get_file(fo, fi) is None:
                    node.file_system.create_file(file_name=fi, folder_name=fo)
                for _ in range(rng.choice([1, 2, 3, 5, 6, 10, 11])):
                    node.file_system.access_file(fo, fi)
                ctx.count("targeted:file-accesses")
            elif k == 2:
                for i in range(rng.choice([1, 2, 3, 5])):
                    node.file_system.create_file(file_name=f"t{rng.below(10000)}.txt", folder_name=rng.choice(c["folders"] or ["root"]))
                ctx.count("targeted:file-creations")
            elif k == 3:
                n = rng.choice([1, 2, 4])
                for i in range(n):
                    nm = f"d{rng.below(10000)}.txt"
                    node.file_system.create_file(file_name=nm, folder_name="root")
                    node.file_system.delete_file("root", nm)
                ctx.count("targeted:file-creations-and-deletions-in-one-tick")
            elif k == 4 and hasattr(node, "user_session_manager"):
                usm = node.user_session_manager
                if rng.chance(3, 4):
                    for i in range(rng.range(1, 4)):
                        usm.remote_login("admin", "admin", f"10.9.{rng.below(200)}.{1 + rng.below(200)}")
                    ctx.count("targeted:remote-logins")
                elif usm.remote_sessions:
                    usm.remote_logout(next(iter(usm.remote_sessions)))
                    ctx.count("targeted:remote-logouts")
            elif k == 5 and hasattr(node, "user_session_manager"):
                usm = node.user_session_manager
                usm.local_login("admin", "admin") if rng.chance(2, 3) else usm.local_logout()
                ctx.count("targeted:local-login/logout")
            elif k == 6:
                links = list(game.simulation.network.links.values())
                if links:
                    link = rng.choice(links)
                    link.current_load = link.bandwidth * rng.choice([0.03, 0.12, 0.3, 0.5, 0.62, 0.77, 0.95, 1.0, 2.0])
                    ctx.count("targeted:link-load-inside-the-tick")
            elif k == 7 and node.network_interface:
                nic = rng.choice(list(node.network_interface.values()))
                sp = nic.speed
                nic.traffic = {"icmp": {"inbound": sp * rng.choice([0, 0.02, 0.3, 0.6, 1.5]), "outbound": sp * 0.25},
                               "tcp": {80: {"inbound": sp * rng.choice([0, 0.12, 0.5, 0.95, 10.0]), "outbound": 0}, 53: {"inbound": sp * 0.4, "outbound": sp * 0.7},
                                       5432: {"inbound": sp * 0.03, "outbound": sp * 0.07}},
                               "udp": {53: {"inbound": sp * rng.choice([0.2, 0.8]), "outbound": sp * 0.01}}}
                ctx.count("targeted:nic-traffic-inside-the-tick")
        except Exception as e:  # noqa: BLE001 - a refused event is not an observation concern
            ctx.count(f"targeted:refused:{type(e).__name__}")


def saturate(game, rng: Rng, ctx, inside_tick: bool) -> None:
    """Drive EVERY observed leaf of EVERY observed node away from its default in one step: malicious network events on every capturing
    interface (both directions; the counters are cumulative, so before the tick is fine), and — inside the tick, after `pre_timestep`
    cleared the per-step counters — executions, accesses, creations, deletions, log-ins, interface traffic, link load."""
    comps = observed_components(game)
    for host in sorted(comps):
        node = game.simulation.network.get_node_by_hostname(host)
        if node is None or node.operating_state.value != 1:
            continue
        c = comps[host]
        try:
            if not inside_tick:
                for nic in node.network_interface.values():
                    if nic.nmne_settings.capture_nmne:
                        for dr in ("inbound", "outbound"):
                            d = nic.nmne.setdefault("direction", {}).setdefault(dr, {}).setdefault("keywords", {})
                            d["*"] = d.get("*", 0) + rng.choice([1, 2, 6, 11])
                        ctx.count("takeaway:saturate:nmne")
                continue
            for name in c["applications"]:
                app = next((a for a in node.applications.values() if a.name == name), None)
                if app is not None:
                    app.num_executions += rng.choice([1, 6, 11])
            for fo, fi in c["files"]:
                if node.file_system.get_file(fo, fi) is None:
                    node.file_system.create_file(file_name=fi, folder_name=fo)
                for _ in range(rng.choice([1, 6, 11])):
                    node.file_system.access_file(fo, fi)
            for i in range(2):
                nm = f"s{rng.below(100000)}.txt"
                node.file_system.create_file(file_name=nm, folder_name="root")
                if i:
                    node.file_system.delete_file("root", nm)
            if hasattr(node, "user_session_manager"):
                node.user_session_manager.local_login("admin", "admin")
                node.user_session_manager.remote_login("admin", "admin", f"10.9.{rng.below(200)}.{1 + rng.below(200)}")
            for nic in node.network_interface.values():
                sp = nic.speed
                nic.traffic = {"icmp": {"inbound": sp * 0.3, "outbound": sp * 0.25}, "tcp": {80: {"inbound": sp * 0.5, "outbound": sp * 0.12},
                               53: {"inbound": sp * 0.4, "outbound": sp * 0.7}, 5432: {"inbound": sp * 0.03, "outbound": sp * 0.07}},
                               "udp": {53: {"inbound": sp * 0.8, "outbound": sp * 0.01}}}
            ctx.count("takeaway:saturate:counters-inside-the-tick")
        except Exception as e:  # noqa: BLE001 - a refused event is not an observation concern
            ctx.count(f"takeaway:refused:{type(e).__name__}")
    if inside_tick:
        for link in game.simulation.network.links.values():
            link.current_load = link.bandwidth * rng.choice([0.12, 0.5, 0.95])


def take_away(game, rng: Rng, ctx, how: str) -> None:
    """After `saturate`: take the observed components away — `power`: every observed node is switched off (its observation must read
    the default at every tick of the countdown, while OFF and while booting); `remove`: observed files / folders are deleted, observed
    software is uninstalled, interfaces disabled, ACL rules removed (each must read as its default / its own encoding)."""
    comps = observed_components(game)
    for host in sorted(comps):
        node = game.simulation.network.get_node_by_hostname(host)
        if node is None:
            continue
        c = comps[host]
        try:
            if how == "power":
                node.power_off()
                ctx.count("takeaway:power_off:" + type(node).__name__)
            elif how == "power_on":
                node.power_on()
            else:
                for fo, fi in c["files"]:
                    if rng.chance(1, 2) and node.file_system.get_file(fo, fi) is not None:
                        node.file_system.delete_file(fo, fi)
                        ctx.count("takeaway:remove:file")
                for fo in c["folders"]:
                    if rng.chance(1, 3) and fo != "root" and node.file_system.get_folder(fo) is not None:
                        node.file_system.delete_folder(fo)
                        ctx.count("takeaway:remove:folder")
                for name in list(c["applications"]):
                    if rng.chance(1, 2) and name in node.software_manager.software:
                        node.software_manager.uninstall(name)
                        ctx.count("takeaway:remove:application")
                for nic in node.network_interface.values():
                    if rng.chance(1, 3):
                        nic.disable()
        except Exception as e:  # noqa: BLE001
            ctx.count(f"takeaway:refused:{type(e).__name__}")


def install_midstep(game, rng: Rng, ctx) -> None:
    """instrumentation on THIS game object only (a new game is built at every reset): after the agents' actions, inside the tick"""
    orig = game.apply_agent_actions

    def apply_then_events():
        orig()
        if getattr(game, "_verif_saturate", False):
            game._verif_saturate = False
            saturate(game, rng, ctx, inside_tick=True)
        elif rng.chance(2, 3):
            targeted(game, rng, ctx)
    game.apply_agent_actions = apply_then_events


class Recorder:
    """records the states `ObservationManager.update` receives, per manager, while active (instrumentation removed on exit)"""

    def __init__(self):
        self.log: Dict[int, List[dict]] = {}

    def __enter__(self):
        from primaite.game.agent.observations.observation_manager import ObservationManager
        self.cls = ObservationManager
        self.orig = ObservationManager.update
        rec = self

        def update(mgr, state):
            rec.log.setdefault(id(mgr), []).append(state)
            return rec.orig(mgr, state)
        ObservationManager.update = update
        return self

    def __exit__(self, *a):
        self.cls.update = self.orig
        return False


def agent_section(ep_cfg: dict, name: str) -> Optional[dict]:
    for a in ep_cfg.get("agents", []):
        if isinstance(a, dict) and a.get("ref") == name:
            return a
    return None


def leaf_paths(v: Any, path: str = "") -> List[Tuple[str, int]]:
    if isinstance(v, dict):
        out = []
        for k, x in v.items():
            out += leaf_paths(x, f"{path}/{k}")
        return out
    return [(path, v)]


def run_recipe(ctx, recipe: dict, chaos: Optional[Callable] = None) -> dict:
    """Run the real environment as the recipe says; collect, per (episode, agent with an observation space), the model lines and the
    implementation's answers, plus every failure of the property's oracle on the implementation."""
    import gymnasium
    import numpy as np
    tmp = Path(tempfile.mkdtemp(prefix="verif_obs_"))
    override = None
    try:
        source, constant = build_source(recipe, tmp)
        override = rig.NmneOverride(recipe.get("nmne_override"))
        override.__enter__()
        ov = recipe.get("nmne_override")
        ctx.count("env:process-wide-nmne-override:" + ("none" if ov is None else "capture-on" if ov.get("capture_nmne") else "capture-off"))
        if isinstance(source, dict):
            nc = source.get("simulation", {}).get("network", {}).get("nmne_config", "<absent>")
            ctx.count("env:network-nmne_config:" + ("absent" if nc == "<absent>" else "empty" if nc == {} else
                                                      ("capture-on" if nc.get("capture_nmne") else "capture-off")
                                                      + ("+capture_by_flags" if any(k.startswith("capture_by") for k in nc) else "")))
        rng = Rng(recipe["traj_seed"])
        want_truth = bool(recipe.get("truth"))
        use_chaos = chaos if recipe.get("chaos") else None
        env = rig.make_env(source)
        tracks: Dict[str, dict] = {}
        oracle_fail: List[dict] = []
        seen_visible: Dict[tuple, int] = {}
        folder_ids: Dict[tuple, tuple] = {}   # (episode, host, folder name) -> (uuid, step last seen)
        replaced: Dict[str, List[str]] = {}   # "episode:step" -> folders that are another object than one step before
        incoherent: List[dict] = []
        ever: Dict[str, set] = {}
        label = recipe["label"]

        def fail(agent, ep, step, what, **kw):
            oracle_fail.append(dict({"scenario": label, "agent": agent, "episode": ep, "step": step, "bad": [what]}, **kw))

        # (a) the declared spaces at construction, before any reset
        sp0 = env.observation_space
        as0 = env.action_space
        ctx.count("env:space-read:at-construction")

        flat_len: Dict[int, int] = {}
        defaults0: Dict[str, list] = {}  # track -> [(path, object, canonical default_observation right after this episode's reset)]

        def snapshot(ep: int, step: int, env_obs, sp_ep, as_ep):
            game = env.game
            state = game.get_sim_state()
            toks, pairs = rig.state_tokens(state)
            fb = rig.float_boundary(pairs)
            ttoks = rig.truth_tokens(game.simulation) if want_truth else None
            if want_truth:
                diverged = {"service": 0, "application": 0, "file": 0, "folder": 0}
                for node in game.simulation.network.nodes.values():
                    for f in node.file_system.folders.values():
                        nkey = (ep, node.config.hostname, f.name)
                        was = folder_ids.get(nkey)
                        if was is not None and was[0] != f.uuid and was[1] == step - 1:
                            # another folder object under the same name, and no observation in between saw the name absent
                            replaced.setdefault(f"{ep}:{step}", []).append(f"{node.config.hostname}/{f.name}")
                            ctx.count("truth:folder-replaced-within-one-tick")
                        folder_ids[nkey] = (f.uuid, step)
                        key = (ep, node.config.hostname, f.name, f.uuid)  # the coherence condition is about ONE folder object
                        prev = seen_visible.get(key, 0)
                        cur_v = f.visible_health_status.value
                        if cur_v != prev and not f._scanned_this_step and node.operating_state.value == 1:
                            incoherent.append({"scenario": label, "episode": ep, "step": step, "folder": f"{node.config.hostname}/{f.name}", "visible": [prev, cur_v]})
                        seen_visible[key] = cur_v
                        diverged["folder"] += f.visible_health_status != f.health_status
                        diverged["file"] += sum(1 for x in f.files.values() if x.visible_health_status != x.health_status)
                    diverged["service"] += sum(1 for s in node.services.values() if s.health_state_visible != s.health_state_actual)
                    diverged["application"] += sum(1 for s in node.applications.values() if s.health_state_visible != s.health_state_actual)
                for k, n in diverged.items():
                    if n:
                        ctx.count(f"truth:steps-with-visible≠actual:{k}")
                watched = observed_components(game)
                for node in game.simulation.network.nodes.values():
                    if node.operating_state.value != 1 and node.config.hostname in watched:
                        kind = type(node).__name__
                        content = any(r is not None for an in rig.ACL_NAMES for r in (getattr(getattr(node, an, None), "acl", None) or [])) \
                            or any(getattr(s_, "health_state_actual", None) is not None and s_.health_state_actual.value > 1 for s_ in node.services.values())
                        ctx.count(f"truth:observed-node-not-ON:{kind}:{node.operating_state.name}" + (":non-default-content" if content else ""))
                dup = 0
                for node in game.simulation.network.nodes.values():
                    groups = [[x.name for x in node.services.values()], [x.name for x in node.applications.values()],
                              [f.name for f in node.file_system.folders.values()]] + [[x.name for x in f.files.values()] for f in node.file_system.folders.values()]
                    dup += sum(1 for g in groups if len(g) != len(set(g)))
                ctx.count("truth:steps-with-duplicate-live-names", 1 if dup else 0)
            # the membership / space checks are C02's; a ground-truth run (C09) repeats them at reset, at step 1 and every 10th step only
            full = (not want_truth) or step <= 1 or step % 10 == 0
            nested_of: Dict[str, Any] = {}
            for name, agent in rig.agents_with_obs(game):
                tr = tracks[f"{ep}:{name}"]
                cur = agent.observation_manager.current_observation
                ok_nested = True
                if full:
                    sp = agent.observation_manager.space
                    nested_of[name] = sp
                    ok_nested = bool(sp.contains(cur))
                # alias oracle: no observe() may write into a stored default observation (of this object or of a sibling)
                for pth0, o0, d0 in defaults0.get(f"{ep}:{name}", ()):
                    try:
                        d1 = rig.canon(o0.default_observation)
                    except Exception:  # noqa: BLE001
                        continue
                    if d1 != d0:
                        ctx.count("env:alias-oracle:default_observation-changed")
                        oracle_fail.append({"scenario": label, "agent": name, "episode": ep, "step": step, "alias": type(o0).__name__,
                                            "bad": [f"default_observation of {type(o0).__name__} at {pth0} was changed by observe(): {rig.first_diff(d0, d1)}"]})
                        defaults0[f"{ep}:{name}"] = []
                        break
                else:
                    ctx.count("env:alias-oracle:defaults-unchanged")
                tr["lines"].append(("spec " + " ".join(ttoks)) if want_truth else ("obs " + " ".join(toks)))
                ccur = rig.canon(cur)
                tr["impl"].append((ccur, ok_nested, fb))
                if tr["flatten"] and full and ok_nested:
                    # the ORDER of the flattened vector: every element against the model's gymFlatten (gymnasium's key order) of its own value
                    try:
                        vec = gymnasium.spaces.flatten(sp, cur)
                        tr["lines"].append("gflat")
                        tr["impl"].append(("gflat", "".join(str(int(b)) for b in vec), bool(fb)))
                    except Exception:  # noqa: BLE001 - reported by the API checks below
                        pass
                if tr["default"] is not None:
                    for (pth, val), (_, dv) in zip(leaf_paths(ccur), leaf_paths(tr["default"])):
                        if val != dv:
                            tr["ever"].add(pth)
                            leaf = pth.rsplit("/", 1)[-1].split(":", 1)[-1]
                            if leaf in TARGET_LEAVES:
                                ctx.count("leaf-nondefault-observations:" + leaf)
                if full:
                    ctx.count("env:nested-in-space" if ok_nested else "env:nested-NOT-in-space")
                if not ok_nested:
                    bad = rig.leaves_out_of_space(ccur, rig.canon_space(sp))
                    oracle_fail.append({"scenario": label, "agent": name, "episode": ep, "step": step, "bad": bad[:4]})
            if not full:
                return sp_ep, as_ep
            # what the gymnasium API handed to the RL agent, against the space declared NOW, after this episode's reset, at construction
            a = env.agent
            sp_now = env.observation_space
            as_now = env.action_space
            ctx.count("env:space-read:" + ("after-reset" if step == 0 else "mid-episode"))
            kind = "env:flat" if a.flatten_obs else "env:nested-api"
            inside = bool(sp_now.contains(env_obs))
            ctx.count(kind + ("-in-space" if inside else "-NOT-in-space"))
            if not inside:
                fail("<api>", ep, step, "returned observation not in observation_space (read at this moment)", flatten=bool(a.flatten_obs))
            if sp_ep is not None:
                if not sp_ep.contains(env_obs):
                    fail("<api>", ep, step, "returned observation not in the observation_space read after this episode's reset")
                if sp_now != sp_ep:
                    fail("<api>", ep, step, "observation_space changed within the episode")
                if as_now != as_ep:
                    fail("<api>", ep, step, "action_space changed within the episode")
            if constant:
                if not sp0.contains(env_obs):
                    fail("<api>", ep, step, "returned observation not in the observation_space read at construction (constant scenario)")
                if step == 0 and sp_now != sp0:
                    fail("<api>", ep, step, "observation_space differs from the one read at construction (constant scenario)")
                if step == 0 and as_now != as0:
                    fail("<api>", ep, step, "action_space differs from the one read at construction (constant scenario)")
            if a.flatten_obs:
                nested_sp = nested_of.get(env._agent_name) or a.observation_manager.space
                again = gymnasium.spaces.flatten(nested_sp, a.observation_manager.current_observation)
                if not np.array_equal(again, env_obs):
                    fail("<api>", ep, step, "flatten(obs) differs from returned array")
                if step == 0:
                    flat_len[ep] = int(gymnasium.spaces.flatten_space(nested_sp).shape[0])
                want_len = flat_len.get(ep, len(env_obs))
                if len(env_obs) != want_len or tuple(sp_now.shape) != (want_len,):
                    fail("<api>", ep, step, f"flattened observation has {len(env_obs)} entries, flatten_space(nested space of this episode) {want_len}, "
                                            f"env.observation_space declares shape {tuple(sp_now.shape)}")
                tr0 = tracks.get(f"{ep}:{env._agent_name}")
                if tr0 is not None:
                    tr0["flat"].append((len(tr0["lines"]) - 1, int(len(env_obs)), int(np.sum(env_obs))))
            return sp_now, as_now

        episodes, steps = recipe["episodes"], recipe["steps"]
        for ep in range(episodes):
            with Recorder() as recd:
                obs, _ = env.reset()
            ep_cfg = env.episode_scheduler(env.episode_counter)
            th = (ep_cfg.get("game") or {}).get("thresholds")
            for name, agent in rig.agents_with_obs(env.game):
                mgr = agent.observation_manager
                pre = recd.log.get(id(mgr), [])
                sec = agent_section(ep_cfg, name)
                lines = ["reset"]
                mode = "scenario"
                try:
                    if sec is None or len(pre) == 0:
                        raise rig.Unsupported("no agent section / no recorded update")
                    lines.append(rig.rawcfg_line(sec.get("observation_space"), th))
                except rig.Unsupported as e:
                    mode = "readback"
                    ctx.notes.append(f"{label} {name}: model object read back from the implementation ({e})") if len(ctx.notes) < 40 else None
                    lines.append("cfg " + " ".join(rig.obj_tokens(mgr.obs)))
                    pre = pre[-1:]
                ctx.count("env:model-object-from-" + mode)
                lines.append("space")
                impl: List[Any] = ["ok", "ok", rig.canon_space(mgr.space)]
                for st in pre[:-1]:
                    lines.append("obs " + " ".join(rig.state_tokens(st)[0]))
                    impl.append(None)
                try:
                    dflt = rig.canon(mgr.obs.default_observation)
                except Exception:  # noqa: BLE001
                    dflt = None
                try:
                    walked = rig.walk(mgr.obs)
                    # innermost objects first: a write into a child's default shows in every ancestor that embeds it
                    defaults0[f"{ep}:{name}"] = [(p_, o_, rig.canon(o_.default_observation)) for p_, o_ in sorted(walked, key=lambda x: -x[0].count("/"))
                                                 if hasattr(o_, "default_observation")]
                except Exception:  # noqa: BLE001
                    defaults0[f"{ep}:{name}"] = []
                tracks[f"{ep}:{name}"] = {"lines": lines, "impl": impl, "first": len(lines), "mode": mode, "show_at": None, "default": dflt,
                                          "ever": set(), "flat": [], "flatten": bool(agent.flatten_obs), "leaves": len(leaf_paths(dflt)) if dflt is not None else 0}
            sp_ep, as_ep = snapshot(ep, 0, obs, None, None)
            for name, agent in rig.agents_with_obs(env.game):
                tr = tracks[f"{ep}:{name}"]
                if tr["mode"] == "scenario":
                    tr["show_at"] = len(tr["lines"])
                    tr["lines"].append("show")
                    tr["impl"].append(" ".join(rig.obj_tokens(agent.observation_manager.obs)))
                if tr["flatten"]:
                    tr["lines"].append("flatdim")
                    tr["impl"].append(("flatdim", int(gymnasium.spaces.flatten_space(agent.observation_manager.space).shape[0])))
            if recipe.get("targeted"):
                install_midstep(env.game, rng, ctx)
            n = int(env.action_space.n)
            try:  # the agent's own ACL-editing actions: chosen more often, so that observed ACL positions receive rules through ACTIONS
                acl_actions = [int(i) for i, a in env.agent.action_manager.action_map.items() if "acl-add-rule" in str(a[0])]
            except Exception:  # noqa: BLE001
                acl_actions = []
            burst = 0
            script = None
            if recipe.get("takeaway"):
                t0 = 2 + rng.below(4)
                script = {"sat": t0, "away": t0 + 1, "on": t0 + 1 + rng.choice([1, 2, 4, 6]), "how": rng.choice(["power", "power", "remove"])}
            for t in range(steps):
                if script is not None:
                    if t == script["sat"]:
                        saturate(env.game, rng, ctx, inside_tick=False)
                        env.game._verif_saturate = True
                    elif t == script["away"]:
                        take_away(env.game, rng, ctx, script["how"])
                    elif t == script["on"] and script["how"] == "power":
                        take_away(env.game, rng, ctx, "power_on")
                    elif t == script["on"] + 8 and t + 4 < steps:  # once more in the same episode, the other way
                        t0 = t + 1
                        script = {"sat": t0, "away": t0 + 1, "on": t0 + 1 + rng.choice([1, 2, 4, 6]), "how": "remove" if script["how"] == "power" else "power"}
                if t % 7 == 0:
                    burst = rng.below(n)
                act = burst if rng.chance(1, 2) else rng.below(n)
                if acl_actions and rng.chance(1, 4):
                    act = rng.choice(acl_actions)
                    ctx.count("env:acl-add-rule-actions-chosen")
                if use_chaos is not None and not (script is not None and script["sat"] <= t <= script["on"]):
                    use_chaos(env.game, rng)
                obs, _r, _te, trunc, _info = env.step(act)
                ctx.count("env:steps")
                snapshot(ep, t + 1, obs, sp_ep, as_ep)
                if trunc:
                    break
        env.close()
        return {"tracks": tracks, "oracle_fail": oracle_fail, "incoherent": incoherent, "recipe": recipe, "constant": constant, "replaced": replaced}
    finally:
        if override is not None:
            override.__exit__()
        shutil.rmtree(tmp, ignore_errors=True)


# =============================================================================================== comparison with the model
CFG_AT, SPACE_AT = 1, 2  # track lines: reset, rawcfg | cfg, space, [pre-states…], snapshots…
def model_lines(res: dict) -> List[Tuple[str, List[str]]]:
    return [(key, tr["lines"]) for key, tr in res["tracks"].items()]


def parse_report(line: str) -> Tuple[Any, Optional[bool]]:
    head, _, rest = line.partition(" ")
    if head == "raised":
        return "raised", False
    return rig.parse_val(rest.split()), head == "1"


def token_diff(a: str, b: str) -> str:
    x, y = a.split(), b.split()
    for i, (p, q) in enumerate(zip(x, y)):
        if p != q:
            return f"token {i}: impl …{' '.join(x[max(0, i - 8):i + 3])} | model …{' '.join(y[max(0, i - 8):i + 3])}"
    return f"lengths {len(x)} vs {len(y)}"


def check_env(ctx, rname: str, res: dict, model_by_track: Dict[str, List[str]], spec_mode: bool = False) -> bool:
    """C02's part: the property oracle's failures, the declared space, the constructed object, flatten lengths, and (unless the
    ground-truth comparison does it) every observed value against the model."""
    agree = True
    recipe = res["recipe"]
    for f in res["oracle_fail"]:
        what = f["bad"][0] if f["bad"] else "?"
        if f.get("alias"):
            sig = {"kind": "default-observation-mutated", "class": f["alias"], "property_oracle": "observe() leaves every default_observation as constructed"}
        elif f["agent"] == "<api>":
            import re
            sig = {"kind": "env-api", "what": re.sub(r"\d+", "N", what.split(" (")[0])[:110], "property_oracle": "observation_space.contains(obs)"}
        else:
            leaf = what.rsplit("/", 1)[-1]
            sig = {"kind": "env-not-in-space", "leaf": leaf.split(":", 1)[-1].split(":keys")[0].rstrip("0123456789"), "property_oracle": "observation_space.contains(obs)"}
        ctx.violation(sig, f"{rname}: episode {f['episode']} step {f['step']} agent {f['agent']}: {f['bad']}", {"recipe": recipe, "failure": f})
    for key, tr in res["tracks"].items():
        model = model_by_track[key]
        if model[CFG_AT] != "ok":
            agree = False
            ctx.violation({"kind": "model-vs-impl", "what": "construction accepted/rejected", "class": "env"},
                          f"{rname} {key}: the implementation built the observation space of this agent, the model answers {model[CFG_AT]!r}",
                          {"recipe": recipe, "track": key})
            continue
        mspace = rig.parse_val(model[SPACE_AT].split())
        if mspace != tr["impl"][SPACE_AT]:
            agree = False
            ctx.violation({"kind": "model-vs-impl", "what": "space", "class": "env"}, f"{rname} {key}: space differs: {rig.first_diff(tr['impl'][SPACE_AT], mspace)}",
                          {"recipe": recipe, "track": key})
        if tr["show_at"] is not None and model[tr["show_at"]] != tr["impl"][tr["show_at"]]:
            agree = False
            d = token_diff(tr["impl"][tr["show_at"]], model[tr["show_at"]])
            ctx.violation({"kind": "construction-vs-scenario", "what": "constructed object differs from from_config(model) of the scenario", "class": "env"},
                          f"{rname} {key}: the agent's observation objects are not what the scenario's observation_space section says: {d}",
                          {"recipe": recipe, "track": key, "diff": d})
        flat_dim = None
        for idx in range(tr["first"], len(tr["impl"])):
            cell = tr["impl"][idx]
            if isinstance(cell, str):
                continue
            if cell[0] == "gflat":
                ctx.count("env:flattened-vector-compared-element-by-element")
                if model[idx] != cell[1]:
                    if cell[2]:
                        ctx.count("env:float-boundary-step (flattened vector excluded)")
                        continue
                    agree = False
                    at = next((i for i, (a_, b_) in enumerate(zip(cell[1], model[idx])) if a_ != b_), min(len(cell[1]), len(model[idx])))
                    detail = (f"{rname} {key}: flatten(space, obs) differs from the model's gymFlatten at position {at} "
                              f"(lengths {len(cell[1])} / {len(model[idx])}, ones {cell[1].count('1')} / {model[idx].count('1')})")
                    if len(cell[1]) != len(model[idx]) or cell[1].count("1") != model[idx].count("1"):
                        ctx.violation({"kind": "model-vs-impl", "what": "flattened vector (length / number of ones)", "class": "env"}, detail,
                                      {"recipe": recipe, "track": key, "position": at})
                    else:
                        # the same leaves in another ORDER: no clause of C02 / C09 fixes the order, so this is a broken tie (the model of
                        # gymnasium's key order no longer describes how the classes build their spaces), not a violation of the property
                        ctx.oblige(f"rig:flattened vector in the model's order:{rname}:{key}", "correspondence", False, detail)
                    break
                continue
            if cell[0] == "flatdim":
                flat_dim = int(model[idx].split()[0])
                if flat_dim != cell[1]:
                    agree = False
                    ctx.violation({"kind": "model-vs-impl", "what": "flatten_space length", "class": "env"},
                                  f"{rname} {key}: flatten_space has length {cell[1]}, the model's flatDim(space) is {flat_dim}", {"recipe": recipe, "track": key})
                continue
            if spec_mode:
                continue
            o, contained, fb = cell
            mv, mcontained = parse_report(model[idx])
            if fb and o != mv and rig.strip_bins(o) == rig.strip_bins(mv) and contained == mcontained:
                ctx.count("env:float-boundary-step (excluded)")
                continue
            if o != mv or contained != mcontained:
                agree = False
                ctx.violation({"kind": "model-vs-impl", "what": "observe", "class": "env"},
                              f"{rname} {key} step {idx - tr['first']}: implementation and model disagree: {rig.first_diff(o, mv) if o != mv else 'contains'}",
                              {"recipe": recipe, "track": key, "step": idx - tr["first"], "diff": rig.first_diff(o, mv)})
                break
        # flattened observations: every one has the model's flatDim(space) entries, one `1` per Discrete leaf
        for (_, ln, ones) in tr["flat"]:
            ctx.count("env:flatten-length-checked")
            if flat_dim is not None and (ln != flat_dim or ones != tr["leaves"]):
                agree = False
                ctx.violation({"kind": "model-vs-impl", "what": "flatten(obs) length / one-hot count", "class": "env"},
                              f"{rname} {key}: a flattened observation has {ln} entries with {ones} ones; model: {flat_dim} entries, {tr['leaves']} leaves",
                              {"recipe": recipe, "track": key})
                break
        # evidence: which leaves were ever seen away from their default value
        for pth in tr["ever"]:
            ctx.count("leaf-ever-nondefault:" + pth.rsplit("/", 1)[-1].split(":", 1)[-1])
        ctx.count("leaves:total", tr["leaves"])
        ctx.count("leaves:ever-nondefault", len(tr["ever"]))
    return agree


def run_model(exe: str, runs: List[Tuple[str, dict]]) -> Dict[str, Dict[str, List[str]]]:
    """ONE driver call for all tracks of all runs"""
    from harness.lib.core import run_driver
    lines_all: List[str] = []
    index = {}
    for rname, res in runs:
        for key, tr in res["tracks"].items():
            index[(rname, key)] = (len(lines_all), len(tr["lines"]))
            lines_all += tr["lines"]
    model_all = run_driver(exe, lines_all) if lines_all else []
    if any(m == "bad-op" for m in model_all):
        i = model_all.index("bad-op")
        raise RuntimeError(f"driver rejected line {lines_all[i][:300]!r}")
    out: Dict[str, Dict[str, List[str]]] = {rname: {} for rname, _ in runs}
    for (rname, key), (st, ln) in index.items():
        out.setdefault(rname, {})[key] = model_all[st:st + ln]
    return out
