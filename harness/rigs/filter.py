"""R-filter: one real element (Computer / Switch / Router / Firewall) with real interfaces and links, arbitrary
power state, interface flags and rule lists, fed frames at its interfaces — against Model/Filter.lean via
Drivers/C06.lean.  The software above the filtering layer is replaced by the same recording stubs on both sides
(ARP learning, session manager, process_frame, the DMZ look-up, the switch's forwarding), so that the diff is
about the modelled layer only: interface gate, power guard, ACL exemption, which list is asked on which branch,
where the verdict sits relative to learning / delivery / forwarding, and the interface-send guard."""
from __future__ import annotations

from contextlib import ExitStack
from ipaddress import IPv4Address
from typing import Dict, List, Optional, Tuple
from unittest import mock

from harness.lib.core import Rng
from harness.rigs import acl as acl_rig

BCAST = 0xFFFFFFFFFFFF
FW_ACLS = {"internal_inbound_acl": "intIn", "internal_outbound_acl": "intOut", "dmz_inbound_acl": "dmzIn",
           "dmz_outbound_acl": "dmzOut", "external_inbound_acl": "extIn", "external_outbound_acl": "extOut"}


def mac_str(n: int) -> str:
    return ":".join(f"{(n >> (8 * i)) & 0xFF:02x}" for i in range(5, -1, -1))


def mac_int(s: str) -> int:
    return int(s.replace(":", ""), 16)


def o(x) -> str:
    return "-" if x is None else str(x)


# ------------------------------------------------------------------------------------------ generation
def gen_case(rng: Rng, max_frames: int = 12) -> dict:
    kind = rng.choice(["host", "switch", "router", "router", "firewall", "firewall"])
    nports = {"host": 1, "switch": rng.range(2, 4), "router": rng.range(2, 4), "firewall": 3}[kind]
    ports = []
    for p in range(nports):
        ports.append({"ip": f"10.0.{p + 1}.1", "mask": "255.255.255.0", "enabled": not rng.chance(1, 7),
                      "peer_ip": f"10.0.{p + 1}.2", "linked": True})
    case = {"kind": kind, "on": not rng.chance(1, 4), "ports": ports, "acls": {}, "ops": []}
    ids = {"router": ["router"], "firewall": list(FW_ACLS.values()) + ["router"]}.get(kind, [])
    addrs = [q["ip"] for q in ports] + [q["peer_ip"] for q in ports] + ["10.0.9.9", "255.255.255.255", "10.0.1.255"]
    for a in ids:
        shape = rng.below(6)
        rules = []
        if shape == 0:
            rules.append((0, dict(action="DENY", proto=None, src_ip=None, src_wc=None, dst_ip=None, dst_wc=None, src_port=None, dst_port=None)))
        elif shape == 1:
            rules.append((rng.choice([0, 1, 5]), dict(action="PERMIT", proto=None, src_ip=None, src_wc=None, dst_ip=None, dst_wc=None, src_port=None, dst_port=None)))
        else:
            for _ in range(rng.range(0, 4)):
                r = acl_rig.gen_rule(rng)
                for k in ("src_ip", "dst_ip"):
                    if r[k] is not None:
                        r[k] = rng.choice(addrs)
                rules.append((rng.choice([0, 1, 2, 3, 7, 22, 23]), r))
            if shape >= 4:
                # destination-specific pair: PERMIT dst=X above DENY dst=Y (or the reverse), nothing else specified
                x, y = rng.choice(addrs[:-2]), rng.choice(addrs[:-2])
                blank = dict(proto=None, src_ip=None, src_wc=None, dst_wc=None, src_port=None, dst_port=None)
                acts = ("PERMIT", "DENY") if rng.chance(1, 2) else ("DENY", "PERMIT")
                rules.append((4, dict(blank, action=acts[0], dst_ip=x)))
                rules.append((5, dict(blank, action=acts[1], dst_ip=y)))
        case["acls"][a] = {"implicit": rng.choice(["PERMIT", "DENY"]), "rules": rules}
    n = rng.range(3, max_frames)
    for _ in range(n):
        k = rng.below(12)
        if k == 0:
            case["ops"].append({"op": "set", "port": rng.below(nports), "enabled": rng.chance(1, 2)})
        elif k == 1:
            case["ops"].append({"op": "power", "on": rng.chance(1, 2)})
        else:
            fr = gen_frame(rng, case, addrs)
            case["ops"].append(fr)
            if fr["proto"] in ("tcp", "udp") and rng.chance(1, 3):
                # history family: the same frame again with ONLY the destination address changed (same protocol, source, ports, arrival
                # port) — the verdict must not depend on what was judged before
                twin = dict(fr, dst_ip=rng.choice([a for a in addrs if a != fr["dst_ip"]]))
                case["ops"].append(twin)
                if rng.chance(1, 2):
                    case["ops"].append(dict(fr))
    return case


def gen_frame(rng: Rng, case: dict, addrs: List[str]) -> dict:
    nports = len(case["ports"])
    p = rng.below(nports)
    proto = rng.choice(["tcp", "udp", "udp", "icmp", "none"])
    sport = dport = None
    if proto in ("tcp", "udp"):
        dport = rng.choice([219, 219, 22, 80, 5432, 21, 53, 0])
        sport = dport if rng.chance(3, 4) else rng.choice([219, 80, 1234])
    dst_mac = rng.choice(["own", "own", "own", "bcast", "other"])
    dst_ip = rng.choice(addrs) if not rng.chance(1, 3) else rng.choice([q["ip"] for q in case["ports"]])
    return {"op": "frame", "port": p, "src_mac": 0xAA0000000000 + rng.below(5), "dst_mac": dst_mac, "proto": proto,
            "src_ip": rng.choice(addrs[:-2]), "dst_ip": dst_ip, "sport": sport, "dport": dport,
            "ttl": rng.choice([64, 64, 64, 64, 64, 3, 2, 1, 0]), "arp": proto == "udp" and dport == 219 and rng.chance(1, 2),
            "fwd": rng.choice([None] + list(range(nports))), "nic": rng.choice([None, 0, 1, 2]), "reply": rng.chance(1, 2)}


# ------------------------------------------------------------------------------------------ implementation side
def build(case: dict):
    from primaite.simulator.network.container import Network
    from primaite.simulator.network.hardware.nodes.host.computer import Computer
    from primaite.simulator.network.hardware.nodes.network.firewall import Firewall
    from primaite.simulator.network.hardware.nodes.network.router import ACLAction, Router
    from primaite.simulator.network.hardware.nodes.network.switch import Switch
    net = Network()
    kind, ports = case["kind"], case["ports"]
    if kind == "host":
        x = Computer.from_config({"type": "computer", "hostname": "X", "ip_address": ports[0]["ip"], "subnet_mask": ports[0]["mask"],
                                  "start_up_duration": 0, "shut_down_duration": 0})
    elif kind == "switch":
        x = Switch.from_config({"type": "switch", "hostname": "X", "num_ports": len(ports), "start_up_duration": 0})
    elif kind == "router":
        x = Router.from_config({"type": "router", "hostname": "X", "num_ports": len(ports), "start_up_duration": 0})
    else:
        x = Firewall.from_config({"type": "firewall", "hostname": "X", "start_up_duration": 0})
    x.power_on()
    net.add_node(x)
    if kind in ("router", "firewall"):
        for p, q in enumerate(ports):
            x.configure_port(p + 1, q["ip"], q["mask"])
    peers = []
    for p, q in enumerate(ports):
        peer = Computer.from_config({"type": "computer", "hostname": f"P{p}", "ip_address": q["peer_ip"], "subnet_mask": q["mask"],
                                     "start_up_duration": 0})
        peer.power_on()
        net.add_node(peer)
        net.connect(x.network_interface[p + 1], peer.network_interface[1])
        peers.append(peer)
    for p in range(len(ports)):
        x.network_interface[p + 1].enable()
    # rule lists
    acl_objs: Dict[int, str] = {}
    if kind in ("router", "firewall"):
        named = {"router": x.acl}
        if kind == "firewall":
            for attr, name in FW_ACLS.items():
                named[name] = getattr(x, attr)
        for name, a in named.items():
            acl_objs[id(a)] = name
            spec = case["acls"].get(name)
            if spec is None:
                continue
            for i in range(len(a.acl)):
                a._acl[i] = None
            a.implicit_action = ACLAction[spec["implicit"]]
            a.implicit_rule.action = ACLAction[spec["implicit"]]
            for pos, r in spec["rules"]:
                a.add_rule(action=ACLAction[r["action"]], protocol=r["proto"], src_ip_address=r["src_ip"],
                           src_wildcard_mask=r["src_wc"], dst_ip_address=r["dst_ip"], dst_wildcard_mask=r["dst_wc"],
                           src_port=r["src_port"], dst_port=r["dst_port"], position=pos)
    return net, x, peers, acl_objs


def make_frame(x, op: dict):
    from primaite.simulator.network.protocols.arp import ARPPacket
    from primaite.simulator.network.protocols.icmp import ICMPPacket
    from primaite.simulator.network.transmission.data_link_layer import EthernetHeader, Frame
    from primaite.simulator.network.transmission.network_layer import IPPacket
    from primaite.simulator.network.transmission.transport_layer import TCPHeader, UDPHeader
    iface = x.network_interface[op["port"] + 1]
    dmac = {"own": iface.mac_address, "bcast": "ff:ff:ff:ff:ff:ff", "other": "aa:aa:aa:aa:aa:ff"}[op["dst_mac"]]
    kw = {}
    if op["proto"] == "tcp":
        kw["tcp"] = TCPHeader(src_port=op["sport"], dst_port=op["dport"])
    elif op["proto"] == "udp":
        kw["udp"] = UDPHeader(src_port=op["sport"], dst_port=op["dport"])
    elif op["proto"] == "icmp":
        kw["icmp"] = ICMPPacket()
    payload = "data"
    if op["arp"]:
        payload = ARPPacket(sender_mac_addr=mac_str(op["src_mac"]), sender_ip_address=IPv4Address(op["src_ip"]),
                            target_ip_address=IPv4Address(op["dst_ip"]))
    return Frame(ethernet=EthernetHeader(src_mac_addr=mac_str(op["src_mac"]), dst_mac_addr=dmac),
                 ip=IPPacket(src_ip_address=IPv4Address(op["src_ip"]), dst_ip_address=IPv4Address(op["dst_ip"]),
                             protocol=op["proto"], ttl=op["ttl"]), payload=payload, **kw), mac_int(dmac)


def run_impl(case: dict) -> Tuple[List[str], List[str]]:
    """Returns (implementation answers, model protocol lines), aligned."""
    from primaite.simulator.network.hardware.base import Link, NetworkInterface
    from primaite.simulator.network.hardware.node_operating_state import NodeOperatingState
    from primaite.simulator.network.hardware.nodes.network.router import AccessControlList, Router, RouterARP
    from primaite.simulator.network.hardware.nodes.network.switch import Switch
    from primaite.simulator.system.core.session_manager import SessionManager
    from primaite.simulator.system.services.arp.arp import ARP
    net, x, peers, acl_objs = build(case)
    kind = case["kind"]
    lines = ["reset", f"node {kind} {1 if case['on'] else 0}"]
    out = ["ok", "ok"]
    for p, q in enumerate(case["ports"]):
        i = x.network_interface[p + 1]
        ip = str(i.ip_address) if hasattr(i, "ip_address") else "0.0.0.0"
        mask = str(i.subnet_mask) if hasattr(i, "subnet_mask") else "0.0.0.0"
        lines.append(f"iface {1 if q['enabled'] else 0} {mac_int(i.mac_address)} {ip} {mask}")
        out.append("ok")
    for name, spec in case["acls"].items():
        lines.append(f"acl {name} {spec['implicit']}")
        out.append("ok")
        for pos, r in spec["rules"]:
            lines.append(f"rule {name} " + acl_rig.rule_line(pos, r)[len("add "):])
            out.append("ok")
    open_ports = sorted(set(int(p) for p in x.software_manager.get_open_ports())) if kind != "switch" else []
    lines.append("open " + (",".join(map(str, open_ports)) if open_ports else "-"))
    out.append("ok")
    # inject the power state and interface flags directly: the model quantifies over every state
    for p, q in enumerate(case["ports"]):
        x.network_interface[p + 1].enabled = q["enabled"]
    if not case["on"]:
        x.operating_state = NodeOperatingState.OFF

    rec = {"n": 0, "acls": [], "events": [], "sent": [], "cur": None, "looked": False}

    real_isp = AccessControlList.is_permitted

    def isp(self, frame):
        permitted, rule = real_isp(self, frame)
        if id(self) in acl_objs:
            who = "implicit" if rule is self.implicit_rule else str([i for i, r in enumerate(self.acl) if r is rule][0])
            rec["acls"].append(f"{acl_objs[id(self)]}:{1 if permitted else 0}:{who}")
            rec["n"] += 1
        return permitted, rule

    def ev(name):
        rec["events"].append(f"{name}@{rec['n']}")

    def learn(self, ip_address, mac_address, network_interface, override=False):
        if self.software_manager.node is x:
            ev("learn")

    def sess_rx(self, frame, from_network_interface):
        if self.node is x:
            ev("session")
            if rec["cur"]["reply"]:
                from_network_interface.send_frame(frame)

    def proc(self, frame, from_network_interface):
        ev("process")
        fwd = rec["cur"]["fwd"]
        if fwd is not None:
            self.network_interface[fwd + 1].send_frame(frame)

    def lookup(self, ip_address):
        if not rec["looked"]:
            ev("lookup")
            rec["looked"] = True
        nic = rec["cur"]["nic"]
        return None if nic is None or nic + 1 not in x.network_interface else x.network_interface[nic + 1]

    def sw_rx(self, frame, from_network_interface):
        ev("switch")
        fwd = rec["cur"]["fwd"]
        if fwd is not None:
            self.network_interface[fwd + 1].send_frame(frame)

    def transmit(self, sender_nic, frame):
        if sender_nic._connected_node is x:
            rec["sent"].append(sender_nic.port_num - 1)
        return True

    real_cap = NetworkInterface._capture_traffic

    def cap(self, frame, inbound=True):
        if inbound and self._connected_node is x:
            ev("capture")

    with ExitStack() as st:
        st.enter_context(mock.patch.object(AccessControlList, "is_permitted", isp))
        st.enter_context(mock.patch.object(ARP, "add_arp_cache_entry", learn))
        st.enter_context(mock.patch.object(SessionManager, "receive_frame", sess_rx))
        st.enter_context(mock.patch.object(Router, "process_frame", proc))
        st.enter_context(mock.patch.object(RouterARP, "get_arp_cache_network_interface", lookup))
        st.enter_context(mock.patch.object(Switch, "receive_frame", sw_rx))
        st.enter_context(mock.patch.object(Link, "transmit_frame", transmit))
        st.enter_context(mock.patch.object(NetworkInterface, "_capture_traffic", cap))
        st.enter_context(mock.patch.object(NetworkInterface, "_capture_nmne", lambda self, frame, inbound=True: None))
        for op in case["ops"]:
            if op["op"] == "set":
                if op["port"] + 1 in x.network_interface:
                    x.network_interface[op["port"] + 1].enabled = op["enabled"]
                lines.append(f"set {op['port']} {1 if op['enabled'] else 0}")
                out.append("ok")
                continue
            if op["op"] == "power":
                x.operating_state = NodeOperatingState.ON if op["on"] else NodeOperatingState.OFF
                lines.append(f"power {1 if op['on'] else 0}")
                out.append("ok")
                continue
            frame, dmac = make_frame(x, op)
            iface = x.network_interface[op["port"] + 1]
            rec.update(n=0, acls=[], events=[], sent=[], cur=op, looked=False)
            # gate classification from the real interface: what it returned and whether the node was reached
            reached = {"v": False}
            real_node_rx = type(x).receive_frame

            def node_rx(self, frame, from_network_interface, _real=real_node_rx):
                if self is x:
                    reached["v"] = True
                return _real(self, frame=frame, from_network_interface=from_network_interface)

            raised = False
            raised_other = None
            ttl_before = frame.ip.ttl
            with mock.patch.object(type(x), "receive_frame", node_rx):
                try:
                    ret = iface.receive_frame(frame)
                except AttributeError:
                    raised = True
                    ret = None
                except Exception as e:  # any OTHER exception out of the element's frame processing: recorded in the answer (the model
                    # never answers so: the trace disagrees and is reported with the frame as replay), the trace goes on
                    raised = True
                    ret = None
                    raised_other = type(e).__name__
            if reached["v"]:
                gate = "up"
            elif not iface.enabled:
                gate = "disabled"
            elif frame.ip.ttl < 1 and frame.ip.ttl == ttl_before - 1:
                gate = "ttl"
            else:
                gate = "notaddressed"
            if ret not in (None, reached["v"]) and not raised:
                gate += f"?ret={ret}"
            order = ["router", "extIn", "extOut", "intIn", "intOut", "dmzIn", "dmzOut"]
            acls = sorted(rec["acls"], key=lambda s: order.index(s.split(":")[0]))
            out.append(f"gate={gate} acls={','.join(acls)} events={','.join(rec['events'])} "
                       f"sent={','.join(map(str, rec['sent']))}" + (f" raised:{raised_other}" if raised_other else " raised" if raised else ""))
            lines.append(f"frame {op['port']} {op['src_mac']} {dmac} {op['proto']} {op['src_ip']} {op['dst_ip']} {o(op['sport'])} "
                         f"{o(op['dport'])} {op['ttl']} {1 if op['arp'] else 0} fwd={o(op['fwd'])} nic={o(op['nic'])} "
                         f"reply={1 if op['reply'] else 0}")
    return out, lines


def per_frame_oracle(answer: str) -> Optional[str]:
    """The property's second sentence on one implementation answer: a frame that some list denied is never handed
    to software and never sent on — the last verdict is DENY ⇒ no event after it, nothing sent."""
    parts = dict(kv.split("=", 1) for kv in answer.split(" ") if "=" in kv)
    acls = [a for a in parts.get("acls", "").split(",") if a]
    if not acls:
        return None
    denied = [a for a in acls if a.split(":")[1] == "0"]
    if not denied:
        return None
    n_deny = len(acls)  # a DENY is always the last verdict taken
    late = [e for e in parts.get("events", "").split(",") if e and int(e.split("@")[1]) >= n_deny]
    if late or parts.get("sent", ""):
        return f"frame denied by {denied[0]} but events {late} / sent on {parts.get('sent')}"
    return None
