"""R-link: run real Link / AirSpace / interface objects in small generated networks, record the tree of send_frame calls
(who sent on which link, the size seen by the admission check, the size loaded, what the far interface answered, what was
sent while it was answering), and replay the same tree through the Lean model (Drivers/C18.lean).

Everything that is compared is an exact integer: `Frame.size` is an integer number of bytes, `size_Mbits = bytes*8/2**20`
is an exact dyadic float and so is every sum of them below 2**53, so `Fraction(load) * 131072` is the integer number of
bytes carried; the bandwidth of the model is `floor(Fraction(bandwidth) * 131072)` (for integers L, s and a real b,
L + s <= b  iff  L + s <= floor(b)).  No float is compared inexactly; a non-integer byte count raises.
"""
from __future__ import annotations

import contextlib
import io
from fractions import Fraction
from typing import Any, Dict, List, Optional, Tuple

from harness.lib.core import Rng

UNIT = 131072  # bytes per "Mbit" of convert_bytes_to_megabits: B * 8 / 1024**2


def exact_bytes(x: float) -> int:
    f = Fraction(x) * UNIT
    if f.denominator != 1:
        raise InexactLoad(f"load/size {x!r} is not a whole number of bytes ({f})")
    return int(f)


def floor_bytes(x: float) -> int:
    f = Fraction(x) * UNIT
    return f.numerator // f.denominator


class InexactLoad(Exception):
    pass


# ------------------------------------------------------------------------------------------------- worlds
class World:
    def __init__(self):
        self.net = None
        self.nodes: Dict[str, Any] = {}
        self.hosts: List[str] = []
        self.links: List[Any] = []          # Link objects, creation order = model index
        self.chans: List[Tuple[int, List[Any]]] = []  # (hz, [wireless interfaces on that hz]) = model index; capacity per interface
        self.conns: Dict[Tuple[str, str], Any] = {}   # (source host, target node) -> RemoteTerminalConnection
        self.ifaces: Dict[str, Any] = {}    # "node:port" -> interface (for nic ops)
        self.ip: Dict[str, str] = {}
        self.ftp: Optional[Tuple[str, str]] = None
        self.c2: Optional[Tuple[str, str]] = None       # (host with the C2 server, host with the beacon)
        self.rec = None
        self.env = None

    def link_of(self, iface) -> Optional[Tuple[int, bool]]:
        for k, l in enumerate(self.links):
            if l.endpoint_a is iface:
                return k, True
            if l.endpoint_b is iface:
                return k, False
        return None

    def icap(self, iface) -> int:
        """Capacity (bytes, floor) the airspace admits this interface against: looked up by the *name* of its frequency."""
        return floor_bytes(self.net.airspace.get_frequency_max_capacity_mbps(iface.frequency.name))

    def set_channels(self, aps: List[Any]):
        """One model channel per hz known to the airspace's registry (or used by an access point), each listing EVERY access point
        (position = model index): an access point that is re-configured onto another frequency in mid-episode simply becomes
        disabled / absent on the old channel and enabled / present on the new one."""
        hzs = {int(f.frequency_hz) for f in self.net.airspace.frequencies.values()} | {int(a.frequency.frequency_hz) for a in aps}
        self.chans = [(hz, list(aps)) for hz in sorted(hzs)] if aps else []

    def chan_of(self, iface) -> Optional[Tuple[int, int]]:
        """(channel of the interface's CURRENT frequency, its index)"""
        hz = int(iface.frequency.frequency_hz) if hasattr(iface, "frequency") else None
        for c, (h, ifs) in enumerate(self.chans):
            if h == hz:
                for i, w in enumerate(ifs):
                    if w is iface:
                        return c, i
        return None

    def on_chan(self, c: int, iface) -> bool:
        return int(iface.frequency.frequency_hz) == self.chans[c][0]

    def member(self, c: int, iface) -> bool:
        """Is the interface in the list the loop of AirSpace.transmit walks for this hz?"""
        for k, lst_ in self.net.airspace.wireless_interfaces_by_frequency.items():
            if int(k) == self.chans[c][0]:
                return any(x is iface for x in lst_)
        return False

    def en_bits(self, c: int) -> str:
        return "".join("1" if (i.enabled and self.on_chan(c, i)) else "0" for i in self.chans[c][1])

    def mem_bits(self, c: int) -> str:
        return "".join("1" if self.member(c, i) else "0" for i in self.chans[c][1])


def _quiet():
    return contextlib.redirect_stdout(io.StringIO())


def build(topo: dict) -> World:
    from primaite.simulator.network.container import Network
    from primaite.simulator.network.hardware.nodes.host.computer import Computer
    from primaite.simulator.network.hardware.nodes.network.router import ACLAction, Router
    from primaite.simulator.network.hardware.nodes.network.switch import Switch
    from primaite.simulator.network.hardware.nodes.network.wireless_router import WirelessRouter

    w = World()
    net = w.net = Network()
    bws = list(topo["bw"])

    def host(name, ip, gw=None):
        up_d, down_d = topo.get("dur", {}).get(name, [0, 0])   # boot / shutdown countdowns (ticks) of this host
        cfg = {"type": "computer", "hostname": name, "ip_address": ip, "subnet_mask": "255.255.255.0", "start_up_duration": 0,
               "shut_down_duration": 0}
        if gw:
            cfg["default_gateway"] = gw
        c = Computer.from_config(config=cfg)
        c.power_on()
        c.config.start_up_duration, c.config.shut_down_duration = up_d, down_d     # built ON at once; later transitions take ticks
        net.add_node(c)
        w.nodes[name] = c
        w.hosts.append(name)
        w.ip[name] = ip
        w.ifaces[f"{name}:1"] = c.network_interface[1]
        return c

    def connect(a, b):
        bw = bws[len(w.links)]
        link = net.connect(a, b, bandwidth=bw)
        if link is None:  # older signature returns nothing
            link = a._connected_link
        w.links.append(link)

    def switch(name, ports):
        s = Switch.from_config(config={"type": "switch", "hostname": name, "num_ports": ports, "start_up_duration": 0})
        s.power_on()
        net.add_node(s)
        w.nodes[name] = s
        for p in range(1, ports + 1):
            w.ifaces[f"{name}:{p}"] = s.network_interface[p]
        return s

    kind = topo["kind"]
    n = topo.get("hosts", 2)
    if kind == "p2p":
        a = host("h0", "192.168.0.2")
        b = host("h1", "192.168.0.3")
        connect(a.network_interface[1], b.network_interface[1])
    elif kind == "switch":
        hs = [host(f"h{j}", f"192.168.0.{j + 2}") for j in range(n)]
        sw = switch("sw", n)
        for j, h in enumerate(hs):
            connect(h.network_interface[1], sw.network_interface[j + 1])
    elif kind == "two_switch":
        hs = [host(f"h{j}", f"192.168.0.{j + 2}") for j in range(n)]
        s1 = switch("sw1", n + 1)
        s2 = switch("sw2", n + 1)
        for j, h in enumerate(hs):
            s = s1 if j % 2 == 0 else s2
            connect(h.network_interface[1], s.network_interface[j + 1])
        connect(s1.network_interface[n + 1], s2.network_interface[n + 1])
    elif kind == "router":
        r = Router.from_config(config={"type": "router", "hostname": "r", "num_ports": 3, "start_up_duration": 0})
        r.power_on()
        net.add_node(r)
        w.nodes["r"] = r
        r.acl.add_rule(action=ACLAction.PERMIT, position=1)
        for j in range(n):
            r.configure_port(port=j + 1, ip_address=f"192.168.{j}.1", subnet_mask="255.255.255.0")
            w.ifaces[f"r:{j + 1}"] = r.network_interface[j + 1]
        for j in range(n):
            h = host(f"h{j}", f"192.168.{j}.2", gw=f"192.168.{j}.1")
            connect(h.network_interface[1], r.network_interface[j + 1])
    elif kind == "wireless":
        nr = topo.get("routers", 2)
        freqs = topo.get("freqs", ["WIFI_2_4"] * nr)
        if any(f == ALT_NAME for f in freqs):
            register_alt_frequency(net.airspace)
        with _quiet():
            net.airspace.set_frequency_max_capacity_mbps({k: v for k, v in topo["cap"] if k in net.airspace.frequencies})
        rs = []
        for j in range(nr):
            r = WirelessRouter.from_config(config={"type": "wireless-router", "hostname": f"wr{j}", "start_up_duration": 0},
                                           airspace=net.airspace)
            r.power_on()
            net.add_node(r)
            w.nodes[f"wr{j}"] = r
            r.acl.add_rule(action=ACLAction.PERMIT, position=1)
            r.configure_router_interface(f"192.168.{j}.1", "255.255.255.0")
            w.ifaces[f"wr{j}:2"] = r.network_interface[2]
            rs.append(r)
        for j in range(nr):
            h = host(f"h{j}", f"192.168.{j}.2", gw=f"192.168.{j}.1")
            connect(h.network_interface[1], rs[j].network_interface[2])
        from primaite.simulator.network.airspace import AirSpaceFrequency
        for j, r in enumerate(rs):
            with _quiet():
                r.configure_wireless_access_point(f"10.0.0.{j + 1}", "255.255.255.0", frequency=net.airspace.frequencies[freqs[j]])
            w.ifaces[f"wr{j}:1"] = r.network_interface[1]
        for j, r in enumerate(rs):
            for i in range(nr):
                if i != j:
                    r.route_table.add_route(address=f"192.168.{i}.0", subnet_mask="255.255.255.0", next_hop_ip_address=f"10.0.0.{i + 1}")
        w.set_channels([r.network_interface[1] for r in rs])
    else:
        raise ValueError(kind)
    if topo.get("ftp") and len(w.hosts) >= 2:
        from primaite.simulator.system.services.ftp.ftp_client import FTPClient
        from primaite.simulator.system.services.ftp.ftp_server import FTPServer
        c, s = w.hosts[0], w.hosts[-1]
        w.nodes[c].software_manager.install(FTPClient)
        w.nodes[c].software_manager.software["ftp-client"].start()
        w.nodes[s].software_manager.install(FTPServer)
        w.nodes[s].software_manager.software["ftp-server"].start()
        w.ftp = (c, s)
    if topo.get("tripwire"):
        _install_tripwire(w, topo["tripwire"])
    if topo.get("c2") and len(w.hosts) >= 2:
        from primaite.simulator.system.applications.red_applications.c2.c2_beacon import C2Beacon
        from primaite.simulator.system.applications.red_applications.c2.c2_server import C2Server
        a, b = topo["c2"]
        w.nodes[a].software_manager.install(C2Server)
        w.nodes[b].software_manager.install(C2Beacon)
        beacon = w.nodes[b].software_manager.software["c2-beacon"]
        # the handshake needs a few frames: give it room, then put the configured bandwidths back (before recording starts)
        saved = [l.bandwidth for l in w.links]
        for l in w.links:
            l.bandwidth = 100.0
        with _quiet():
            beacon.configure(c2_server_ip_address=w.ip[a], keep_alive_frequency=5)
            w.nodes[a].software_manager.software["c2-server"].run()
            beacon.establish()
        for l, b0 in zip(w.links, saved):
            l.bandwidth = b0
        w.c2 = (a, b)
    return w


ALT_NAME = "C18_ALT_2_4"   # a second frequency *name* on the hz of WIFI_2_4 ("they will share a bandwidth"), with its own capacity


def register_alt_frequency(airspace):
    """The registry of frequency names is one class-level dict shared by every AirSpace and a name cannot be registered twice,
    so the alternative name is registered once per process (its capacity is set per case like that of the shipped names)."""
    if ALT_NAME not in airspace.frequencies:
        hz = airspace.frequencies["WIFI_2_4"].frequency_hz
        airspace.register_frequency(ALT_NAME, hz, 100_000_000.0)


def _install_tripwire(w: World, spec: dict):
    """A test double: a service on `spec['host']` (UDP port 9999... actually the FTP_DATA port number 20) that, when a payload arrives,
    disables (or re-enables) an interface *while the frame that carried the payload is still being delivered*."""
    from pydantic import Field
    from primaite.simulator.system.services.service import Service
    from primaite.utils.validation.ip_protocol import PROTOCOL_LOOKUP
    from primaite.utils.validation.port import PORT_LOOKUP

    global _Tripwire
    if "_Tripwire" not in globals() or _Tripwire is None:
        class _TW(Service, discriminator="c18-tripwire"):
            class ConfigSchema(Service.ConfigSchema):
                type: str = "c18-tripwire"
            config: "ConfigSchema" = Field(default_factory=lambda: _TW.ConfigSchema())
            world: Any = None
            target: str = ""

            def __init__(self, **kwargs):
                kwargs["name"] = "c18-tripwire"
                kwargs["port"] = PORT_LOOKUP["FTP_DATA"]
                kwargs["protocol"] = PROTOCOL_LOOKUP["UDP"]
                super().__init__(**kwargs)

            def describe_state(self) -> Dict:
                return super().describe_state()

            def receive(self, payload: Any, session_id: str, **kwargs) -> bool:
                iface = _TRIP["world"].ifaces[_TRIP["target"]]
                if payload == "trip-off":
                    iface.disable()
                elif payload == "trip-on":
                    iface.enable()
                elif payload == "trip-flap":
                    iface.disable()
                    iface.enable()
                elif payload == "trip-raise":
                    # an exception in the middle of a delivery: it unwinds through every transmit_frame below
                    raise RuntimeError("c18-tripwire: raised inside a delivery")
                elif isinstance(payload, str) and payload.startswith("trip-relay:"):
                    # ... and one that is caught half-way up: this node sends a raising payload on and swallows the exception
                    # (what FTPServer._retrieve_data does around _send_data), so the sends below are cut short, those above complete
                    w_ = _TRIP["world"]
                    try:
                        self.software_manager.send_payload_to_session_manager(
                            payload="trip-raise", dest_ip_address=_ip(w_.ip[payload.split(":", 1)[1]]), dest_port=_port("FTP_DATA"),
                            ip_protocol=_proto("UDP"))
                    except RuntimeError:
                        pass
                return True
        _Tripwire = _TW
    _TRIP["world"] = w
    _TRIP["target"] = spec["target"]
    for h in ([spec["host"]] + [x for x in spec.get("also", []) if x != spec["host"]]):
        node = w.nodes[h]
        node.software_manager.install(_Tripwire)
        node.software_manager.software["c18-tripwire"].start()


_Tripwire = None
_TRIP: Dict[str, Any] = {}


def reset_reach(w: World) -> List[str]:
    """What `Network.pre_timestep` cannot reach: a wireless interface of a node of the network whose AirSpace is not the network's,
    a connected link that is not registered in `Network.links`."""
    out = []
    nodes = w.net.nodes.values() if isinstance(w.net.nodes, dict) else []
    registered = {id(l) for l in w.net.links.values()}
    for node in nodes:
        for ni in node.network_interfaces.values():
            if hasattr(ni, "airspace") and ni.airspace is not w.net.airspace:
                out.append(f"wireless interface {node.config.hostname}:{ni.port_num} is on an AirSpace that is not its network's")
            l = getattr(ni, "_connected_link", None)
            if l is not None and id(l) not in registered:
                out.append(f"link of {node.config.hostname}:{ni.port_num} is not registered in Network.links")
    return out


def from_config_probe() -> dict:
    """The public construction path: every wireless scenario file of the repository's test assets through `PrimaiteGame.from_config`
    (the shipped scenarios have no wireless node): every wireless interface must sit on its network's AirSpace and every link must be
    registered, traffic must load the channel, and one `pre_timestep` through the GAME must zero every load."""
    import logging
    import yaml
    from harness.lib.core import REPO
    from primaite.game.game import PrimaiteGame
    out = {"files": 0, "wireless_interfaces": 0, "links": 0, "problems": [], "channel_load_before_reset": []}
    for f in sorted((REPO / "tests" / "assets" / "configs").glob("wireless*.yaml")):
        cfg = yaml.safe_load(f.read_text())
        logging.disable(logging.CRITICAL)
        try:
            with _quiet():
                game = PrimaiteGame.from_config(cfg)
                net = game.simulation.network
                w = World()
                w.net = net
                out["files"] += 1
                out["problems"] += [f"{f.name}: {x}" for x in reset_reach(w)]
                aps = [ni for n in net.nodes.values() for ni in n.network_interfaces.values() if hasattr(ni, "airspace")]
                out["wireless_interfaces"] += len(aps)
                out["links"] += len(net.links)
                hosts = [n for n in net.nodes.values() if type(n).__name__ in ("Computer", "Server")]
                if len(hosts) >= 2:
                    hosts[0].ping(hosts[-1].network_interface[1].ip_address, pings=1)
                out["channel_load_before_reset"].append(round(sum(net.airspace.bandwidth_load.values()), 6))
                for ap in aps[:1]:
                    ap.disable()            # a frequency member down at the boundary
                game.pre_timestep()
                if any(v != 0.0 for v in net.airspace.bandwidth_load.values()) or any(l.current_load != 0.0 for l in net.links.values()):
                    out["problems"].append(f"{f.name}: a load is not zero after PrimaiteGame.pre_timestep")
        finally:
            logging.disable(logging.NOTSET)
    return out


# The rig's OWN account of what was put on the air, per airspace and per PHYSICAL channel (hz): bytes handed to `AirSpace.transmit`
# since the last `reset_bandwidth_load` (maintained by the recorder's wrappers; never read from the implementation's dict).
_OWN_AIR: Dict[int, Dict[int, int]] = {}
# What the rig could not read of the implementation's bookkeeping (a container keyed / shaped differently from what the model and
# the rig assume): a broken correspondence obligation, never an internal error.  Reset by `run_impl`.
READ_PROBLEMS: List[str] = []


def own_air_bytes(airspace, hz: int) -> int:
    return _OWN_AIR.get(id(airspace), {}).get(int(hz), 0)


def _read_problem(msg: str):
    if msg not in READ_PROBLEMS and len(READ_PROBLEMS) < 20:
        READ_PROBLEMS.append(msg)


def air_counter_of(airspace, hz: int):
    """The implementation's own counter for the physical channel `hz` (Mbit), or None when `bandwidth_load` is not a mapping from
    a frequency in hertz to a number (then the problem is noted)."""
    try:
        items = list(airspace.bandwidth_load.items())
        hit = None
        for k, v in items:   # keys are whatever `frequency_hz` is (2.4e9 as float for the shipped names)
            if isinstance(k, bool) or not isinstance(k, (int, float)) or isinstance(v, bool) or not isinstance(v, (int, float)):
                _read_problem(f"AirSpace.bandwidth_load has an entry {k!r}: {v!r} that is not <frequency in hz>: <load>")
                return None
            if int(k) == hz:
                hit = float(v)
        return 0.0 if hit is None else hit
    except Exception as e:
        _read_problem(f"AirSpace.bandwidth_load cannot be read per hz: {type(e).__name__}: {e}")
        return None


def _air_load_of(airspace, hz: int) -> float:
    """Load of the physical channel `hz`: the implementation's counter when it has one per hz; otherwise what the rig itself saw
    go out on that hz since the last reset (so the run goes on, the model is asked the same questions, and the oracles decide)."""
    v = air_counter_of(airspace, hz)
    if v is None:
        return own_air_bytes(airspace, hz) / UNIT
    return v


# ------------------------------------------------------------------------------------------------- recorder
_INVENTORY = None
_DEAD_MODULES: Dict[str, str] = {}
_RUNTIME = None


def default_inventory():
    """(class, file, method, steps) for every class of the NetworkInterface hierarchy that defines send_frame / enable / disable,
    as the extractor reads it from the source (pure `ast`)."""
    global _INVENTORY
    if _INVENTORY is None:
        from harness.extract import link as x_link
        try:
            _INVENTORY = x_link.iface_methods()
        except Exception:
            # the extractor does not recognise some method any more (reported by `extract:Link`): the search stage still has to
            # run, so the classes to wrap are read from the imported classes instead
            _INVENTORY = runtime_fallback_inventory()
    return _INVENTORY


def runtime_fallback_inventory():
    import inspect
    runtime, classes = runtime_iface_methods()
    by_name = {(c.__name__, c.__module__.split(".")[-1] + ".py"): c for c in classes}
    out = []
    for cname, fname, method in sorted(runtime):
        try:
            src = inspect.getsource(by_name[(cname, fname)].__dict__[method])
        except Exception:
            src = ""
        if method == "send_frame":
            steps = ["enabled", "?"] if ("transmit" in src) else ["stub"]
        elif method == "enable":
            steps = ["set"] if "self.enabled = True" in src else ["super"]
        else:
            steps = ["clear"] if "self.enabled = False" in src else ["super"]
        out.append((cname, fname, method, steps))
    return out


def runtime_iface_methods():
    """The same inventory read from the imported classes (cross-check of the extractor): every loaded class deriving from
    NetworkInterface that has send_frame / enable / disable in its own __dict__."""
    global _RUNTIME
    if _RUNTIME is not None:
        return _RUNTIME
    import importlib
    import pkgutil
    import primaite.simulator.network as pkg
    for m in pkgutil.walk_packages(pkg.__path__, pkg.__name__ + "."):
        try:
            importlib.import_module(m.name)
        except Exception as e:      # a module that cannot be imported at all is dead code (its classes cannot be instantiated)
            _DEAD_MODULES[m.name.split(".")[-1] + ".py"] = f"{type(e).__name__}: {str(e).split(' from ')[0][:80]}"
    from primaite.simulator.network.hardware.base import NetworkInterface
    seen, todo, out = set(), [NetworkInterface], set()
    while todo:
        c = todo.pop()
        if c in seen:
            continue
        seen.add(c)
        todo += c.__subclasses__()
        if not c.__module__.startswith("primaite."):
            continue            # the rig's own test doubles
        for m in ("send_frame", "enable", "disable"):
            if m in c.__dict__:
                out.add((c.__name__, c.__module__.split(".")[-1] + ".py", m))
    _RUNTIME = (out, seen)
    return _RUNTIME


class Recorder:
    """Class-level wrappers (installed for the duration of one case) around every `send_frame` of the NetworkInterface hierarchy that
    transmits, every `enable` / `disable` that writes the flag (which classes: the regenerated inventory), the two admission tests,
    the two transmit functions, the wireless receive, `Network.pre_timestep` and `AirSpace.set_frequency_max_capacity_mbps`."""

    def __init__(self, w: World, inventory=None):
        self.w = w
        self.top: List[dict] = []
        self.stack: List[List[dict]] = [self.top]
        self.open: List[dict] = []
        self.problems: List[dict] = []
        self._undo: List[Tuple[Any, str, Any]] = []
        self.inventory = inventory if inventory is not None else default_inventory()
        self.wrapped: List[str] = []
        self.frames: Dict[int, list] = {}
        self.broken = False     # an unwinding exception made a load unreadable: the trace stops being comparable

    # -- helpers
    def see(self, frame, where):
        """Frames are shared mutable objects that GROW while they travel (every stamp adds bytes): per frame object the smallest and
        the largest size seen at any send attempt / admission test / crossing, and the links it was offered to."""
        try:
            n = int(frame.size)
        except Exception:
            return
        e = self.frames.get(id(frame))
        if e is None or e[0] is not frame:
            e = self.frames[id(frame)] = [frame, n, n, set()]
        e[1], e[2] = min(e[1], n), max(e[2], n)
        if where is not None:
            e[3].add(where[0])

    def _wired_load(self, k: int) -> int:
        return exact_bytes(self.w.links[k].current_load)

    def _air_load(self, c: int) -> int:
        hz = self.w.chans[c][0]
        return exact_bytes(_air_load_of(self.w.net.airspace, hz))

    def take(self) -> List[dict]:
        out = self.top
        self.top = []
        self.stack = [self.top]
        return out

    def set_bandwidth(self, k: int, v: float):
        """`links[k].bandwidth = v` (a plain attribute: nothing to wrap, so the rig's operation goes through here)."""
        before = dump(self.w)
        self.w.links[k].bandwidth = v
        self.stack[-1].append({"t": "B", "k": k, "v": floor_bytes(self.w.links[k].bandwidth), "nested": len(self.stack) > 1,
                               "before": before, "after": dump(self.w)})

    def _patch(self, cls, name, make):
        orig = cls.__dict__[name]
        setattr(cls, name, make(orig))
        self._undo.append((cls, name, orig))

    def __enter__(self):
        from primaite.simulator.network.airspace import AirSpace, WirelessNetworkInterface
        from primaite.simulator.network.hardware.base import Link
        from primaite.simulator.network.hardware.nodes.network.wireless_router import WirelessAccessPoint
        rec = self

        def mk_send(wireless):
            def make(orig):
                def send_frame(iface, frame, *xa, **xk):
                    # whatever else the caller hands over (an optional parameter the rig does not know) is passed on untouched
                    where = rec.w.chan_of(iface) if wireless else rec.w.link_of(iface)
                    if where is None:
                        return orig(iface, frame, *xa, **xk)
                    rec.see(frame, where if not wireless else None)
                    att = {"t": "W" if wireless else "S", "k": where[0], "end": where[1], "size0": int(frame.size), "sc": None, "can": None,
                           "sa": None, "acc": None, "tx": False, "children": [], "rcv": [], "enS0": bool(iface.enabled)}
                    if not wireless:
                        l = rec.w.links[where[0]]
                        other = l.endpoint_b if where[1] else l.endpoint_a
                        att["enR0"] = bool(other.enabled)
                        try:    # power state of the two end nodes at the moment of the attempt (coverage of transitional states)
                            att["nodeS"] = iface._connected_node.operating_state.name
                            att["nodeR"] = other._connected_node.operating_state.name
                        except Exception:
                            pass
                        att["load0"] = rec._wired_load(where[0])
                    else:
                        att["load0"] = rec._air_load(where[0])
                        att["capS"] = rec.w.icap(iface)
                    parent = rec.stack[-1]
                    rec.open.append(att)
                    rec.stack.append(att["children"])
                    try:
                        r = orig(iface, frame, *xa, **xk)
                    except BaseException:
                        # an exception is unwinding through this send: it never returns. Whatever completed inside it is kept.
                        rec.stack.pop()
                        rec.open.pop()
                        att["aborted"] = True
                        att["ret"] = None
                        try:
                            att["load1"] = rec._air_load(where[0]) if wireless else rec._wired_load(where[0])
                        except BaseException:
                            att["load1"] = None
                            rec.broken = True
                        parent.append(att)
                        raise
                    rec.stack.pop()
                    rec.open.pop()
                    att["ret"] = bool(r) if r is not None else None
                    att["load1"] = rec._air_load(where[0]) if wireless else rec._wired_load(where[0])
                    parent.append(att)
                    return r
                return send_frame
            return make

        def mk_en(wireless, v):
            def make(orig):
                def toggle(iface):
                    before = bool(iface.enabled)
                    where = rec.w.chan_of(iface) if wireless else rec.w.link_of(iface)
                    # the flag flips inside orig before any frame is sent (enable: default_gateway_hello comes later, in the
                    # IP subclass; disable: endpoint_down sends nothing), so the event is placed first
                    holder = rec.stack[-1]
                    pos = len(holder)
                    try:
                        return orig(iface)
                    finally:
                        after = bool(iface.enabled)
                        if where is not None and before != after:
                            holder.insert(pos, {"t": "F" if wireless else "E", "k": where[0], "end": where[1], "v": after})
                return toggle
            return make

        # which classes to wrap: the regenerated inventory (a class that transmits / writes the flag and is not listed there makes
        # `C18_gen_iface_inventory` fail; a listed class that cannot be found at run time is a broken tie)
        runtime, classes = runtime_iface_methods()
        self.runtime_inventory = runtime
        by_name = {(c.__name__, c.__module__.split(".")[-1] + ".py"): c for c in classes}
        for cname, fname, method, steps in self.inventory:
            cls = by_name.get((cname, fname))
            if cls is None:
                if fname in _DEAD_MODULES:
                    self.dead = getattr(self, "dead", set()) | {f"{fname}:{cname} ({_DEAD_MODULES[fname]})"}
                else:
                    self.problems.append({"kind": "inventory-class-not-found-at-run-time", "class": cname, "file": fname})
                continue
            wireless = issubclass(cls, WirelessNetworkInterface)
            if method == "send_frame" and steps and steps[0] == "enabled":
                self._patch(cls, "send_frame", mk_send(wireless))
                self.wrapped.append(f"{cname}.send_frame")
            elif method == "enable" and "set" in steps:
                self._patch(cls, "enable", mk_en(wireless, True))
                self.wrapped.append(f"{cname}.enable")
            elif method == "disable" and "clear" in steps:
                self._patch(cls, "disable", mk_en(wireless, False))
                self.wrapped.append(f"{cname}.disable")

        def mk_can(orig):
            def can_transmit_frame(link, frame, *xa, **xk):
                exact = None
                try:
                    exact = bool(link.endpoint_a.enabled and link.endpoint_b.enabled) and (
                        Fraction(link.current_load) + Fraction(frame.size_Mbits) <= Fraction(link.bandwidth))
                except Exception:
                    pass
                r = orig(link, frame, *xa, **xk)
                rec.see(frame, None)
                if rec.open and rec.open[-1]["t"] == "S" and rec.open[-1]["sc"] is None:
                    att = rec.open[-1]
                    att["sc"] = int(frame.size)
                    if xa or xk:
                        att["handed"] = [repr(v)[:24] for v in list(xa) + list(xk.values())]
                    att["can"] = bool(r)
                    att["up"] = bool(link.endpoint_a.enabled and link.endpoint_b.enabled)
                    att["cap0"] = floor_bytes(link.bandwidth)
                    att["exact"] = exact
                    if frame.size != int(frame.size):
                        att["fractional_size"] = frame.size
                return r
            return can_transmit_frame
        self._patch(Link, "can_transmit_frame", mk_can)

        def mk_tx(orig):
            def transmit_frame(link, sender_nic, frame, *xa, **xk):
                rec.see(frame, None)
                att = rec.open[-1] if rec.open and rec.open[-1]["t"] == "S" else None
                if att is not None:
                    other = link.endpoint_b if link.endpoint_a is sender_nic else link.endpoint_a
                    att["tx"] = True
                    att["sa"] = int(frame.size)
                    att["enS"] = bool(sender_nic.enabled)
                    att["enR"] = bool(other.enabled)
                    att["far"] = far_query(other, frame)   # before the delivery: receive_frame decrements the TTL in place
                r = orig(link, sender_nic, frame, *xa, **xk)
                if att is not None:
                    att["acc"] = bool(r)
                return r
            return transmit_frame
        self._patch(Link, "transmit_frame", mk_tx)

        def mk_acan(orig):
            def can_transmit_frame(air, frame, sender_network_interface, *xa, **xk):
                exact = None
                try:
                    hz = sender_network_interface.frequency.frequency_hz
                    exact = (Fraction(_air_load_of(air, int(hz))) + Fraction(frame.size_Mbits)
                             <= Fraction(air.get_frequency_max_capacity_mbps(sender_network_interface.frequency.name)))
                except Exception:
                    pass
                r = orig(air, frame, sender_network_interface, *xa, **xk)
                if rec.open and rec.open[-1]["t"] == "W" and rec.open[-1]["sc"] is None:
                    att = rec.open[-1]
                    att["sc"] = int(frame.size)
                    att["can"] = bool(r)
                    att["cap0"] = rec.w.icap(sender_network_interface)
                    att["exact"] = exact
                return r
            return can_transmit_frame
        self._patch(AirSpace, "can_transmit_frame", mk_acan)

        def mk_atx(orig):
            def transmit(air, frame, sender_network_interface, *xa, **xk):
                try:    # the rig's own account of the physical channel, before the implementation does anything
                    own = _OWN_AIR.setdefault(id(air), {})
                    hz0 = int(sender_network_interface.frequency.frequency_hz)
                    own[hz0] = own.get(hz0, 0) + int(frame.size)
                except Exception as e:
                    _read_problem(f"AirSpace.transmit: the sender's frequency cannot be read: {type(e).__name__}: {e}")
                att = rec.open[-1] if rec.open and rec.open[-1]["t"] == "W" else None
                if att is not None:
                    att["tx"] = True
                    att["sa"] = int(frame.size)
                    att["enS"] = bool(sender_network_interface.enabled)
                    att["acc"] = True
                return orig(air, frame, sender_network_interface, *xa, **xk)
            return transmit
        self._patch(AirSpace, "transmit", mk_atx)

        def mk_areset(orig):
            def reset_bandwidth_load(air, *a, **kw):
                _OWN_AIR.pop(id(air), None)
                return orig(air, *a, **kw)
            return reset_bandwidth_load
        self._patch(AirSpace, "reset_bandwidth_load", mk_areset)
        # start the rig's own account from what the implementation's counters say now (zero after the rig's initial reset)
        try:
            air0 = rec.w.net.airspace
            _OWN_AIR[id(air0)] = {}
            for hz0, _ifs in rec.w.chans:
                v0 = air_counter_of(air0, hz0)
                if v0:
                    _OWN_AIR[id(air0)][int(hz0)] = exact_bytes(v0)
        except InexactLoad:
            raise
        except Exception as e:
            _read_problem(f"initial airspace loads cannot be read: {type(e).__name__}: {e}")

        def mk_setcap(orig):
            def set_frequency_max_capacity_mbps(air, cfg):
                if air is not rec.w.net.airspace:
                    return orig(air, cfg)
                before = dump(rec.w)
                r = orig(air, cfg)
                rec.stack[-1].append({"t": "C", "caps": [[rec.w.icap(i) for i in ifs] for _, ifs in rec.w.chans],
                                      "nested": len(rec.stack) > 1, "before": before, "after": dump(rec.w)})
                return r
            return set_frequency_max_capacity_mbps
        self._patch(AirSpace, "set_frequency_max_capacity_mbps", mk_setcap)

        def members(air):
            return {(c, i) for c, (_, ifs) in enumerate(rec.w.chans) for i, x in enumerate(ifs) if rec.w.member(c, x)}

        def mk_member(orig):
            # add_wireless_interface / remove_wireless_interface / clear: which (channel, interface) entered or left a list
            def wrapped(air, *a, **kw):
                if air is not rec.w.net.airspace:
                    return orig(air, *a, **kw)
                before = members(air)
                holder = rec.stack[-1]
                try:
                    return orig(air, *a, **kw)
                finally:
                    after = members(air)
                    for (c, i) in sorted(before - after):
                        holder.append({"t": "Q", "k": c, "end": i})
                    for (c, i) in sorted(after - before):
                        holder.append({"t": "J", "k": c, "end": i})
            return wrapped
        for name in ("add_wireless_interface", "remove_wireless_interface", "clear"):
            self._patch(AirSpace, name, mk_member)

        def mk_wrecv(orig):
            def receive_frame(iface, frame):
                where = rec.w.chan_of(iface)
                att = rec.open[-1] if rec.open and rec.open[-1]["t"] == "W" else None
                if where is not None and att is not None and att["k"] == where[0]:
                    # one turn of the loop of AirSpace.transmit: the frame in the air is handed to this interface NOW; what its
                    # node does follows in the same list
                    att["rcv"].append(where[1])
                    att.setdefault("rcv_en", []).append(bool(iface.enabled))
                    mark = {"t": "R", "k": where[0], "i": att["end"], "j": where[1], "en": bool(iface.enabled),
                            "far": far_query(iface, frame)}   # before the call: receive_frame decrements the TTL in place
                    rec.stack[-1].append(mark)
                    r = orig(iface, frame)
                    mark["acc"] = bool(r)
                    return r
                return orig(iface, frame)
            return receive_frame
        self._patch(WirelessAccessPoint, "receive_frame", mk_wrecv)

        from primaite.simulator.network.container import Network

        def mk_pre(orig):
            def pre_timestep(net, timestep):
                if net is not rec.w.net:
                    return orig(net, timestep)
                marker = {"t": "T", "before": dump(rec.w), "nested": len(rec.stack) > 1}
                marker["down_with_load"] = sum(1 for l in rec.w.links if l.current_load > 0.0 and not (
                    getattr(l.endpoint_a, "enabled", False) and getattr(l.endpoint_b, "enabled", False)))
                marker["empty_with_load"] = sum(1 for c, (hz, ifs) in enumerate(rec.w.chans)
                                                if _air_load_of(net.airspace, hz) > 0.0 and "1" not in rec.w.mem_bits(c))
                r = orig(net, timestep)
                marker["foreign"] = reset_reach(rec.w)
                marker["after"] = dump(rec.w)
                try:
                    air_zero = all(v == 0.0 for v in net.airspace.bandwidth_load.values())
                except Exception as e:
                    _read_problem(f"AirSpace.bandwidth_load values cannot be read: {type(e).__name__}: {e}")
                    air_zero = True
                marker["zero"] = all(l.current_load == 0.0 for l in rec.w.links) and air_zero
                rec.stack[-1].append(marker)
                return r
            return pre_timestep
        self._patch(Network, "pre_timestep", mk_pre)
        return self

    def __exit__(self, *exc):
        for cls, name, orig in reversed(self._undo):
            setattr(cls, name, orig)
        self._undo = []
        return False


def _mac_int(m) -> int:
    return int(str(m).replace(":", ""), 16) if m else 0   # None (written by route_frame when ARP failed) -> C08's `noMac`


def far_query(iface, frame) -> Optional[str]:
    """What C08's acceptance model needs to know to predict the answer of `iface.receive_frame(frame)`: the `far` line of the driver
    (without the leading word). None when the frame has no IP layer or the interface is of a kind C08 does not model."""
    kind = {"NIC": "h", "RouterInterface": "r", "SwitchPort": "s", "WirelessAccessPoint": "w"}.get(type(iface).__name__)
    if kind is None or frame.ip is None:
        return None
    node = iface._connected_node
    own = [int(ni.ip_address) for ni in node.network_interfaces.values() if getattr(ni, "ip_address", None) is not None] if node else []
    ip = int(iface.ip_address) if getattr(iface, "ip_address", None) is not None else 0
    plen = iface.ip_network.prefixlen if getattr(iface, "ip_address", None) is not None else 0
    return (f"{kind} {int(bool(iface.enabled))} {_mac_int(iface.mac_address)} {ip} {plen} {_mac_int(frame.ethernet.dst_mac_addr)} "
            f"{int(frame.ip.dst_ip_address)} {int(frame.ip.ttl)} {','.join(str(x) for x in own) or '-'}")


# ------------------------------------------------------------------------------------------------- canonical forms
def verdict_of(att: dict) -> str:
    if att.get("aborted"):
        # an exception unwound through this send_frame: after the hand-over (the reservation stays) or before it (nothing happened)
        return "lost" if att["tx"] else "aborted-before-transmit"
    if att["sc"] is None:
        return "disabled" if not att["enS0"] else "not-asked"
    if not att["can"]:
        if att["t"] == "S":
            return "full" if att.get("up") else "down"
        return "full"
    if not att["tx"]:
        return "admitted-not-transmitted"
    return "carried" if att["acc"] else "rejected"


def tokens(forest: List[dict]) -> List[str]:
    out: List[str] = []
    for e in forest:
        if e["t"] in ("S", "W") and e.get("aborted") and not e["tx"]:
            out += tokens(e["children"])      # raised before anything was reserved: the send itself left no trace (children: none)
        elif e["t"] == "S":
            s = e["sc"] if e["sc"] is not None else e["size0"]
            if e.get("aborted"):
                out += ["L", str(e["k"]), "1" if e["end"] else "0", str(s), "["]
            else:
                out += ["S", str(e["k"]), "1" if e["end"] else "0", str(s), "1" if e["acc"] else "0", "["]
            out += tokens(e["children"])
            out.append("]")
        elif e["t"] == "W":
            s = e["sc"] if e["sc"] is not None else e["size0"]
            out += ["M" if e.get("aborted") else "W", str(e["k"]), str(e["end"]), str(s), "["]
            out += tokens(e["children"])
            out.append("]")
        elif e["t"] == "E":
            out += ["E", str(e["k"]), "1" if e["end"] else "0", "1" if e["v"] else "0"]
        elif e["t"] == "F":
            out += ["F", str(e["k"]), str(e["end"]), "1" if e["v"] else "0"]
        elif e["t"] == "R":
            out += ["R", str(e["k"]), str(e["i"]), str(e["j"])]
        elif e["t"] in ("J", "Q"):
            out += [e["t"], str(e["k"]), str(e["end"])]
        else:
            raise ValueError("tick / capacity marker inside an action")
    return out


def recs(forest: List[dict]) -> List[str]:
    """Records in the order the send_frame calls returned or were unwound (children before their parent), in the driver's format."""
    out: List[str] = []
    for e in forest:
        if e["t"] == "R":
            out.append(f"H{e['k']}:{e['j']}:heard")      # the implementation did hand the frame to interface j
            continue
        if e["t"] not in ("S", "W"):
            continue
        v = verdict_of(e)
        if v == "aborted-before-transmit":
            out += recs(e["children"])
            continue
        crossed = v in ("carried", "rejected", "lost")
        if v in ("carried", "lost"):
            out += recs(e["children"])
        b = lambda x: "1" if x else "0"  # noqa: E731
        if e["t"] == "S":
            enS = e["enS"] if crossed else e["enS0"]
            enR = e["enR"] if crossed else e["enR0"]
            out.append(f"S{e['k']}:{v}:{b(enS)}{b(enR)}:{e['load1']}")
        else:
            enS = e["enS"] if crossed else e["enS0"]
            out.append(f"W{e['k']}:{v}:{b(enS)}:{e['load1']}")
    return out


def walk(forest: List[dict]):
    for e in forest:
        yield e
        if e["t"] in ("S", "W"):
            yield from walk(e["children"])


def depth(forest: List[dict]) -> int:
    d = 0
    for e in forest:
        if e["t"] in ("S", "W"):
            d = max(d, 1 + depth(e["children"]))
    return d


def dump(w: World, caps=None) -> str:
    """`caps`: print these per-interface capacities instead of the live ones (the capacities the model has been told so far)"""
    b = lambda x: "1" if x else "0"  # noqa: E731
    ls = [f"L:{floor_bytes(l.bandwidth)}:{exact_bytes(l.current_load)}:{b(l.endpoint_a.enabled)}{b(l.endpoint_b.enabled)}" for l in w.links]
    cs = []
    for c, (hz, ifs) in enumerate(w.chans):
        load = exact_bytes(_air_load_of(w.net.airspace, hz))
        cs.append(f"C:{','.join(str(x) for x in (caps[c] if caps is not None else [w.icap(i) for i in ifs]))}:{load}:"
                  f"{w.en_bits(c)}:{w.mem_bits(c)}")
    return " ".join(ls) + " / " + " ".join(cs)


# ------------------------------------------------------------------------------------------------- running a case
def apply_op(w: World, op: list, t: List[int]):
    from primaite.simulator.network.hardware.base import Node  # noqa: F401
    kind = op[0]
    if kind == "tick":
        w.net.pre_timestep(t[0])
        w.net.apply_timestep(t[0])
        t[0] += 1
    elif kind == "step":
        w.env.step(op[1] % w.env.action_space.n)
    elif kind == "gstep":
        # the scripted-agents loop `PrimaiteGame.step()` (the proxy agent replays the action stored last)
        try:
            if w.env.agent.most_recent_action is None:
                w.env.agent.store_action(0)     # a first step through the game loop: the proxy agent has nothing stored yet
        except Exception:
            pass
        w.env.game.step()
    elif kind == "ping":
        w.nodes[op[1]].ping(w.ip[op[2]], pings=op[3] if len(op) > 3 else 1)
    elif kind == "arp":
        w.nodes[op[1]].software_manager.arp.send_arp_request(_ip(op[2]))
    elif kind == "burst":
        _burst(w, op[1], op[2], op[3], op[4])
    elif kind == "ftp":
        _ftp(w, op[1], op[2])
    elif kind == "wburst":
        _wburst(w, op[1], op[2], op[3])
    elif kind == "nic":
        iface = w.ifaces[op[1]]
        (iface.enable if op[2] == "enable" else iface.disable)()
    elif kind == "nicreq":
        # the same through the request interface of the node (what an agent's action does): ["network_interface", n, "enable"|"disable"]
        host_name, num = op[1].split(":")
        w.nodes[host_name].apply_request(["network_interface", int(num), op[2]])
    elif kind == "trip":
        # payload to the tripwire service on the target host: it toggles an interface during the delivery
        w.nodes[op[1]].software_manager.send_payload_to_session_manager(
            payload=op[3], dest_ip_address=_ip(w.ip[op[2]]), dest_port=_port("FTP_DATA"), ip_protocol=_proto("UDP"))
    elif kind == "rcmd":
        # real software toggling an interface while a frame is being delivered: the Terminal of the target node executes a request
        # received over SSH (`Terminal.receive` -> `Node.apply_request`) before `receive_frame` of the carrying frame has returned
        _rcmd(w, op[1], op[2], op[3])
    elif kind == "power":
        n = w.nodes[op[1]]
        (n.power_on if op[2] == "on" else n.power_off)()
    elif kind == "setbw":
        # a user's script reassigns a link's bandwidth between two actions (in mid-tick or not)
        w.rec.set_bandwidth(op[1] % len(w.links), float(op[2]))
    elif kind == "setcap":
        # ... or overrides a frequency's capacity (the call PrimaiteGame.from_config makes, but in mid-episode)
        if op[1] in w.net.airspace.frequencies:
            w.net.airspace.set_frequency_max_capacity_mbps({op[1]: float(op[2])})
    elif kind == "bfill":
        _bfill(w, op[1], op[2], op[3], op[4], op[5], op[6])
    elif kind == "wbfill":
        _wbfill(w, op[1], op[2], op[3], op[4], op[5])
    elif kind == "c2":
        _c2(w, op[1])
    elif kind == "wleave":
        # remove_wireless_interface called on its own (public API): the access point stays enabled but leaves the frequency's list
        w.net.airspace.remove_wireless_interface(w.ifaces[f"{op[1]}:1"])
    elif kind == "wjoin":
        w.net.airspace.add_wireless_interface(w.ifaces[f"{op[1]}:1"])
    elif kind == "wclear":
        w.net.airspace.clear()
    elif kind == "wflap":
        # the wireless twin of F-40: EVERY access point is disabled (each frequency's list becomes empty) and the listed ones
        # are enabled again, all inside one tick
        aps = [x for _, ifs in w.chans[:1] for x in ifs]
        for x in aps:
            x.disable()
        for j in op[1]:
            if j < len(aps):
                aps[j].enable()
    elif kind == "whop":
        # an access point is re-configured onto another frequency in mid-episode (disable, new frequency, enable)
        r = w.nodes[op[1]]
        ap = w.ifaces[f"{op[1]}:1"]
        if op[2] in w.net.airspace.frequencies:
            from primaite.simulator.network.airspace import AirSpaceFrequency
            r.configure_wireless_access_point(str(ap.ip_address), str(ap.subnet_mask), frequency=AirSpaceFrequency._registry[op[2]])
    else:
        raise ValueError(f"unknown op {op}")


def _ip(s):
    from ipaddress import IPv4Address
    return IPv4Address(s)


def _port(name):
    from primaite.utils.validation.port import PORT_LOOKUP
    return PORT_LOOKUP[name]


def _proto(name):
    from primaite.utils.validation.ip_protocol import PROTOCOL_LOOKUP
    return PROTOCOL_LOOKUP[name]


def node_ip(w: World, src: str, dst: str) -> str:
    """Address under which host `src` reaches node `dst`: a host's own address; a router's address on `src`'s subnet."""
    if dst in w.ip:
        return w.ip[dst]
    gw = w.nodes[src].config.default_gateway
    return str(gw)


def _rcmd(w: World, src: str, dst: str, request: list):
    term = w.nodes[src].software_manager.software.get("terminal")
    if term is None:
        return
    key = (src, dst)
    conn = w.conns.get(key)
    if conn is None or not getattr(conn, "is_active", True):
        conn = term.login(username="admin", password="admin", ip_address=_ip(node_ip(w, src, dst)))
        if not conn:
            return
        w.conns[key] = conn
    conn.execute(list(request))


def _burst(w: World, src: str, dst: str, length: int, count: int):
    """`count` hand-made UDP frames with a payload of `length` characters, pushed straight into the source NIC (what a
    denial-of-service tool does); destination = a host's MAC, or broadcast."""
    from primaite.simulator.network.transmission.data_link_layer import EthernetHeader, Frame
    from primaite.simulator.network.transmission.network_layer import IPPacket
    from primaite.simulator.network.transmission.transport_layer import UDPHeader
    nic = w.nodes[src].network_interface[1]
    if dst == "bcast":
        mac, ip = "ff:ff:ff:ff:ff:ff", str(nic.ip_network.broadcast_address)
    else:
        mac, ip = w.nodes[dst].network_interface[1].mac_address, w.ip[dst]
    for _ in range(count):
        f = Frame(ethernet=EthernetHeader(src_mac_addr=nic.mac_address, dst_mac_addr=mac),
                  ip=IPPacket(src_ip_address=nic.ip_address, dst_ip_address=ip, protocol=_proto("UDP")),
                  udp=UDPHeader(src_port=_port("NTP"), dst_port=_port("NTP")), payload="x" * length)
        nic.send_frame(f)


def _wburst(w: World, router: str, length: int, count: int):
    """`count` hand-made broadcast UDP frames pushed straight into a wireless access point (enabled or not)."""
    from primaite.simulator.network.transmission.data_link_layer import EthernetHeader, Frame
    from primaite.simulator.network.transmission.network_layer import IPPacket
    from primaite.simulator.network.transmission.transport_layer import UDPHeader
    ap = w.ifaces[f"{router}:1"]
    for _ in range(count):
        f = Frame(ethernet=EthernetHeader(src_mac_addr=ap.mac_address, dst_mac_addr="ff:ff:ff:ff:ff:ff"),
                  ip=IPPacket(src_ip_address=ap.ip_address, dst_ip_address=str(ap.ip_network.broadcast_address), protocol=_proto("UDP")),
                  udp=UDPHeader(src_port=_port("NTP"), dst_port=_port("NTP")), payload="x" * length)
        ap.send_frame(f)


def _nudge(x: float, mode: str) -> float:
    import math
    if mode == "below":
        return math.nextafter(x, 0.0)
    if mode == "above":
        return math.nextafter(x, math.inf)
    return x


def _bfill(w: World, src: str, dst: str, length: int, count: int, k: int, mode: str):
    """Float boundary: `count` hand-made frames, stamped beforehand so that their sizes are fixed; the bandwidth of the sender's link
    is then set to EXACTLY the load so far plus the first `k` of them (mode "exact"), to the float just below that ("below") or
    just above ("above"); then all frames are sent.  In exact arithmetic the k-th frame fits iff mode != "below"."""
    from primaite.simulator.network.transmission.data_link_layer import EthernetHeader, Frame
    from primaite.simulator.network.transmission.network_layer import IPPacket
    from primaite.simulator.network.transmission.transport_layer import UDPHeader
    nic = w.nodes[src].network_interface[1]
    where = w.link_of(nic)
    if where is None:
        return
    mac, ip = w.nodes[dst].network_interface[1].mac_address, w.ip[dst]
    frames = []
    for _ in range(count):
        f = Frame(ethernet=EthernetHeader(src_mac_addr=nic.mac_address, dst_mac_addr=mac),
                  ip=IPPacket(src_ip_address=nic.ip_address, dst_ip_address=ip, protocol=_proto("UDP")),
                  udp=UDPHeader(src_port=_port("NTP"), dst_port=_port("NTP")), payload="x" * length)
        f.set_sent_timestamp()
        frames.append(f)
    link = w.links[where[0]]
    total = exact_bytes(link.current_load) + sum(int(f.size) for f in frames[:max(1, min(k, count))])
    w.rec.set_bandwidth(where[0], _nudge(total / UNIT, mode))
    for f in frames:
        nic.send_frame(f)


def _wbfill(w: World, router: str, length: int, count: int, k: int, mode: str):
    """The same boundary on the airspace: the capacity of the access point's frequency name := load so far + the first k frames."""
    from primaite.simulator.network.transmission.data_link_layer import EthernetHeader, Frame
    from primaite.simulator.network.transmission.network_layer import IPPacket
    from primaite.simulator.network.transmission.transport_layer import UDPHeader
    ap = w.ifaces[f"{router}:1"]
    where = w.chan_of(ap)
    if where is None:
        return
    frames = []
    for _ in range(count):
        f = Frame(ethernet=EthernetHeader(src_mac_addr=ap.mac_address, dst_mac_addr="ff:ff:ff:ff:ff:ff"),
                  ip=IPPacket(src_ip_address=ap.ip_address, dst_ip_address=str(ap.ip_network.broadcast_address), protocol=_proto("UDP")),
                  udp=UDPHeader(src_port=_port("NTP"), dst_port=_port("NTP")), payload="x" * length)
        f.set_sent_timestamp()
        frames.append(f)
    hz = w.chans[where[0]][0]
    total = exact_bytes(_air_load_of(w.net.airspace, hz)) + sum(int(f.size) for f in frames[:max(1, min(k, count))])
    w.net.airspace.set_frequency_max_capacity_mbps({ap.frequency.name: _nudge(total / UNIT, mode)})
    for f in frames:
        ap.send_frame(f)


def _c2(w: World, request: list):
    """Real software toggling an interface inside a delivery, second instance: the C2 server tells the beacon to run a terminal
    command; `C2Beacon._command_terminal` -> `Terminal.execute` -> `Node.apply_request` runs on the beacon's host while the frame
    that carried the command is still being delivered (and the beacon then tries to answer over the interface it has just disabled)."""
    from primaite.simulator.system.applications.red_applications.c2.abstract_c2 import C2Command
    if not w.c2:
        return
    a, b = w.c2
    server = w.nodes[a].software_manager.software.get("c2-server")
    beacon = w.nodes[b].software_manager.software.get("c2-beacon")
    if server is None or beacon is None:
        return
    if not beacon.c2_connection_active:
        beacon.establish()
    server.send_command(C2Command.TERMINAL, command_options={"commands": [list(request)], "username": "admin", "password": "admin",
                                                              "ip_address": None})


_FTP_N = [0]


def _ftp(w: World, size: int, _unused=None):
    from primaite.simulator.file_system.file_type import FileType
    if not w.ftp:
        return
    c, s = w.ftp
    _FTP_N[0] += 1
    name = f"blob{_FTP_N[0]}"
    node = w.nodes[c]
    node.file_system.create_file(file_name=name, size=size, file_type=FileType.MP3, folder_name="music")
    node.software_manager.software["ftp-client"].send_file(
        src_file_name=f"{name}.mp3", src_folder_name="music", dest_ip_address=_ip(w.ip[s]), dest_file_name=f"{name}.mp3",
        dest_folder_name="music")


def build_scenario(sc: dict) -> World:
    """A shipped scenario file as a whole environment; link bandwidths optionally overridden (the YAML `bandwidth` key)."""
    import logging
    import yaml
    from primaite.session.environment import PrimaiteGymEnv
    from harness.lib.core import SRC
    cfg = yaml.safe_load((SRC / "config" / "_package_data" / sc["file"]).read_text())
    cfg["io_settings"] = {"save_agent_actions": False, "save_step_metadata": False, "save_pcap_logs": False, "save_sys_logs": False,
                          "save_agent_logs": False}
    if sc.get("bw"):
        links = cfg["simulation"]["network"].get("links", [])
        for i, l in enumerate(links):
            l["bandwidth"] = sc["bw"][i % len(sc["bw"])]
    cfg.setdefault("game", {})["seed"] = sc.get("seed", 1)
    logging.disable(logging.CRITICAL)
    try:
        with _quiet():
            env = PrimaiteGymEnv(env_config=cfg)
            env.reset()
    finally:
        logging.disable(logging.NOTSET)
    w = World()
    w.env = env
    w.net = env.game.simulation.network
    w.links = list(w.net.links.values())
    w.nodes = dict(w.net.nodes) if isinstance(w.net.nodes, dict) else {}
    aps = []
    for node in w.net.nodes.values():
        for ni in node.network_interfaces.values():
            if hasattr(ni, "airspace") and hasattr(ni, "frequency") and type(ni).__name__ == "WirelessAccessPoint" \
                    and type(ni).__module__.endswith("wireless_router"):
                aps.append(ni)
    w.set_channels(aps)
    return w


def _caps(w: World):
    """Wired: bandwidth per link. Wireless: per channel (hz) the capacity of every interface's frequency name."""
    return ([floor_bytes(l.bandwidth) for l in w.links], [[w.icap(i) for i in ifs] for _, ifs in w.chans])


def run_impl(case: dict, inventory=None) -> dict:
    """Run one case on the implementation. Returns the protocol lines for the model, the implementation's answers in the
    same format, the raw forests, and what the implementation-side oracle saw."""
    import logging
    _FTP_N[0] = 0
    del READ_PROBLEMS[:]
    w = build_scenario(case["scenario"]) if "scenario" in case else build(case["topo"])
    info: Dict[str, int] = {}
    lines: List[str] = []
    if "scenario" in case:
        # a whole environment: what `reset()` / construction sent stays on the links — the first step must clear it itself (the
        # model starts from that state: the theorems hold from any start state); the airspace (no shipped scenario has one) is cleared
        w.net.airspace.reset_bandwidth_load()
        left = [exact_bytes(l.current_load) for l in w.links]
        info["scenario:links-with-a-load-left-by-construction"] = sum(1 for v in left if v)
        for l, v in zip(w.links, left):
            lines.append(f"link {floor_bytes(l.bandwidth)} {int(bool(l.endpoint_a.enabled))} {int(bool(l.endpoint_b.enabled))} {v}")
    else:
        w.net.pre_timestep(0)  # construction sends traffic of its own; start from a tick boundary
        for l in w.links:
            lines.append(f"link {floor_bytes(l.bandwidth)} {int(bool(l.endpoint_a.enabled))} {int(bool(l.endpoint_b.enabled))}")
    for c, (hz, ifs) in enumerate(w.chans):
        lines.append(f"chan {','.join(str(w.icap(i)) for i in ifs)} en {w.en_bits(c)} mem {w.mem_bits(c)}")
    impl = ["ok"] * len(lines)
    forests: List[List[dict]] = []
    oracle: List[dict] = []
    lcap, ccap = _caps(w)            # capacities in force now
    lpeak = list(lcap)               # largest bandwidth in force since the tick began, per link
    def oncaps(c: int) -> List[int]:
        """capacities of the access points that are on channel c now (an access point parked on another hz does not count)"""
        return [ccap[c][i] for i, x in enumerate(w.chans[c][1]) if w.on_chan(c, x)]

    cpeak = [max(oncaps(c), default=0) for c in range(len(ccap))]
    lvals = [{b} for b in lcap]      # every bandwidth / capacity value in force since the tick began
    cvals = [set(oncaps(c)) for c in range(len(ccap))]
    carried = {}      # (medium, k) -> bytes carried since the last tick boundary
    under = {}        # (medium, k, C) -> bytes carried since the last tick boundary by frames admitted against a capacity <= C
    t = [1]

    forest_ops: List[int] = []
    far_seen = set()

    def bump(k, n=1):
        info[k] = info.get(k, 0) + n

    def segment(oi: int, seg: List[dict], after: str):
        forests.append(seg)
        forest_ops.append(oi)
        lines.append(("act " + " ".join(tokens(seg))).strip())
        impl.append(" ".join(recs(seg)) + " | " + after)
        # the far interface's answer against C08's acceptance model, once per distinct question
        for e in walk(seg):
            if (e["t"] == "S" and e["tx"] and e["acc"] is not None) or (e["t"] == "R" and e.get("acc") is not None):
                if e.get("far") is None:
                    bump("far-answer-not-modelled")
                elif (e["far"], e["acc"]) not in far_seen:
                    far_seen.add((e["far"], e["acc"]))
                    lines.append("far " + e["far"])
                    impl.append("1" if e["acc"] else "0")
                    bump("far-answer:" + e["far"][0] + (":taken" if e["acc"] else ":refused"))
        # implementation-side oracle, independent of the model
        for e in walk(seg):
            if e["t"] not in ("S", "W"):
                continue
            medium = "wired" if e["t"] == "S" else "wireless"
            # the load is bounded by the largest capacity in force since the tick began (wireless: over the frequency names on the hz)
            cap = lpeak[e["k"]] if e["t"] == "S" else cpeak[e["k"]]
            if e["load1"] is not None and e["load1"] > cap:
                oracle.append({"kind": "load-exceeds-bandwidth", "op": oi, "medium": medium, "k": e["k"], "load": e["load1"], "cap": cap,
                               "nested": bool(e["children"])})
            if e["tx"] and e["sc"] is None:
                oracle.append({"kind": "frame-transmitted-without-an-admission-test", "op": oi, "medium": medium, "k": e["k"], "size": e["sa"]})
            elif e["tx"] and e["sc"] != e["sa"]:
                oracle.append({"kind": "admitted-size-differs-from-loaded-size", "op": oi, "medium": medium, "sc": e["sc"], "sa": e["sa"]})
            if e["tx"] and e["t"] == "S" and not (e["enS"] and e["enR"]):
                oracle.append({"kind": "frame-crossed-a-down-link", "op": oi, "medium": medium, "k": e["k"]})
            if e["tx"] and e["t"] == "W" and not (e["enS"] and all(e.get("rcv_en", []))):
                oracle.append({"kind": "frame-crossed-a-down-link", "op": oi, "medium": medium, "k": e["k"]})
            if e["t"] == "S" and e["tx"] and e["acc"] is False and e["children"]:
                oracle.append({"kind": "sends-nested-under-a-rejected-frame", "op": oi, "medium": medium, "k": e["k"]})
            if e["sc"] is not None and not e["can"] and (e["children"] or e["tx"]):
                oracle.append({"kind": "refused-frame-was-transmitted", "op": oi, "medium": medium, "k": e["k"]})
            # a frame crosses only if it fits: load before + size <= the capacity in force at the admission test (exact integers)
            if e["tx"] and e.get("cap0") is not None and e["load0"] + e["sa"] > e["cap0"]:
                oracle.append({"kind": "frame-crossed-without-fitting", "op": oi, "medium": medium, "k": e["k"], "load": e["load0"],
                               "size": e["sa"], "cap": e["cap0"]})
            # floats: the verdict of the real (float) admission test against the same comparison in exact rational arithmetic
            if e["sc"] is not None and e.get("exact") is not None:
                bump("float-admission-tests-checked-against-exact-arithmetic")
                if bool(e["can"]) != bool(e["exact"]):
                    oracle.append({"kind": "float-admission-differs-from-exact", "op": oi, "medium": medium, "k": e["k"],
                                   "float": bool(e["can"]), "exact": bool(e["exact"]), "load": e["load0"], "size": e["sc"]})
                if e.get("cap0") is not None and e["load0"] + e["sc"] == e["cap0"] and (e["t"] == "W" or e.get("up")):
                    bump("admission-at-the-exact-boundary:" + ("admitted" if e["can"] else "refused"))
                if e.get("cap0") is not None and e["load0"] + e["sc"] == e["cap0"] + 1 and (e["t"] == "W" or e.get("up")):
                    bump("admission-one-byte-over:" + ("admitted" if e["can"] else "refused"))
            if e.get("fractional_size") is not None:
                oracle.append({"kind": "frame-size-is-not-a-whole-number-of-bytes", "op": oi, "medium": medium, "size": e["fractional_size"]})
        # the property read literally: bytes carried since the tick began, counted by the rig itself (post-order = completion order)
        # against the largest capacity in force since the tick began; and, for every capacity value C in force since the tick began,
        # the bytes of the frames that were admitted against a capacity <= C stay within C
        def count(forest):
            for e in forest:
                if e["t"] not in ("S", "W"):
                    continue
                if e["tx"] and (e["acc"] or e.get("aborted")):
                    count(e["children"])
                    medium = "wired" if e["t"] == "S" else "wireless"
                    key = (medium, e["k"])
                    carried[key] = carried.get(key, 0) + e["sa"]
                    cap = lpeak[e["k"]] if e["t"] == "S" else cpeak[e["k"]]
                    if carried[key] > cap:
                        oracle.append({"kind": "carried-data-exceeds-bandwidth", "op": oi, "medium": key[0], "k": e["k"],
                                       "carried": carried[key], "cap": cap})
                    own = e["cap0"] if e.get("cap0") is not None else (e.get("capS") if e["t"] == "W" else lcap[e["k"]])
                    for C in sorted(lvals[e["k"]] if e["t"] == "S" else cvals[e["k"]]):
                        if own <= C:
                            under[(medium, e["k"], C)] = under.get((medium, e["k"], C), 0) + e["sa"]
                            if under[(medium, e["k"], C)] > C:
                                oracle.append({"kind": ("data-sent-under-a-frequency-name-exceeds-its-capacity" if e["t"] == "W"
                                                        else "data-admitted-under-a-bandwidth-exceeds-it"), "op": oi,
                                               "medium": medium, "k": e["k"], "sent": under[(medium, e["k"], C)], "cap": C})
                elif e.get("aborted"):
                    count(e["children"])
        count(seg)
        end_of_op_checks(oi, "end-of-op")

    def end_of_op_checks(oi: int, at: str):
        for k, l in enumerate(w.links):
            if exact_bytes(l.current_load) > lpeak[k]:
                oracle.append({"kind": "load-exceeds-bandwidth", "op": oi, "medium": "wired", "k": k, "load": exact_bytes(l.current_load),
                               "cap": lpeak[k], "at": at})
        for c, (hz, ifs) in enumerate(w.chans):
            cnt = air_counter_of(w.net.airspace, hz)
            if cnt is not None:
                bump("airspace-counter-compared-with-the-rig's-own-sum-per-hz")
                if exact_bytes(cnt) != own_air_bytes(w.net.airspace, hz):
                    oracle.append({"kind": "airspace-counter-is-not-what-was-sent-on-the-hz", "op": oi, "medium": "wireless", "k": c,
                                   "counter": exact_bytes(cnt), "sent": own_air_bytes(w.net.airspace, hz), "at": at})
            load = exact_bytes(_air_load_of(w.net.airspace, hz))
            if load > cpeak[c]:
                oracle.append({"kind": "load-exceeds-bandwidth", "op": oi, "medium": "wireless", "k": hz, "at": at})
            elif oncaps(c) and load > min(oncaps(c)):
                # not a violation (see C18_air_two_names_counterexample): the hz is above the capacity of its smaller name
                bump("hz-load-above-the-smaller-of-two-name-capacities")

    def step_checks(oi: int, forest: List[dict], err=None):
        """The tick of the property is the STEP of the environment (`PrimaiteGymEnv.step` / `PrimaiteGame.step`): looked at as a
        whole and WITHOUT relying on where the recorder saw `Network.pre_timestep` — (1) the first thing a step does to the network
        is the reset, once: no frame is sent and no interface toggled before it, and it is not repeated in mid-step; (2) the first
        send of the step on each link / channel finds load 0; (3) the bytes carried in the whole step (agents' actions and
        `apply_timestep` together, summed by the rig from the transmissions) stay within the capacity."""
        bump("steps-checked")
        resets = [i for i, e in enumerate(forest) if e["t"] == "T"]
        traffic_before = [e["t"] for e in forest[:resets[0]]] if resets else [e["t"] for e in forest]
        if len(resets) != 1 or resets[0] != 0:
            what = ("no-reset" if not resets else "reset-not-first" if resets[0] != 0 else "reset-repeated")
            if err and not resets:
                # the step raised before it got to a reset (e.g. the agents' actions ran first and one of them raised)
                what = "no-reset-before-the-step-raised: " + str(err)[:80]
            oracle.append({"kind": "step-does-not-start-with-the-tick-reset", "op": oi, "medium": "any", "what": what,
                           "resets": len(resets), "events_before_the_reset": traffic_before[:6]})
        first = {}
        total = {}

        def visit(fr):
            for e in fr:
                if e["t"] in ("S", "W"):
                    key = ("wired" if e["t"] == "S" else "wireless", e["k"])
                    if key not in first:
                        first[key] = e.get("load0")
                    if e["tx"] and (e["acc"] or e.get("aborted")) or (e["t"] == "W" and e["tx"]):
                        total[key] = total.get(key, 0) + (e["sa"] or 0)
                    visit(e["children"])
                elif e.get("children"):
                    visit(e["children"])
        visit(forest)
        for key, l0 in sorted(first.items()):
            bump("steps:first-send-on-a-link-or-channel")
            if l0:
                oracle.append({"kind": "load-not-zero-at-start-of-step", "op": oi, "medium": key[0], "k": key[1], "load": l0})
        for key, v in sorted(total.items()):
            cap = lcap[key[1]] if key[0] == "wired" else max(oncaps(key[1]), default=0)
            if v > cap:
                oracle.append({"kind": "carried-in-a-step-exceeds-bandwidth", "op": oi, "medium": key[0], "k": key[1], "carried": v,
                               "cap": cap})
            if v:
                bump("steps:links-or-channels-that-carried-data")

    prev_load = {}

    def monotone(oi: int):
        """Inside a tick no load may go down from one operation to the next (a refused frame's reservation is released inside the
        send that made it; nothing else lowers a load but the tick): the counter-side view of F-40 and of its wireless twin."""
        cur = {("wired", k): exact_bytes(l.current_load) for k, l in enumerate(w.links)}
        cur.update({("wireless", c): exact_bytes(_air_load_of(w.net.airspace, hz)) for c, (hz, _) in enumerate(w.chans)})
        for key, v in cur.items():
            if key in prev_load and v < prev_load[key]:
                oracle.append({"kind": "load-decreased-within-a-tick", "op": oi, "medium": key[0], "k": key[1], "from": prev_load[key], "to": v})
        prev_load.clear()
        prev_load.update(cur)

    def sync_caps():
        """An access point re-configured onto another frequency name is admitted against that name's capacity from now on: the
        per-interface capacities of the model follow (top-level `setcap` steps, like any other capacity change)."""
        changed = False
        for c, (_, ifs) in enumerate(w.chans):
            for i, x in enumerate(ifs):
                v = w.icap(x)
                if v != ccap[c][i]:
                    bump("capacity-change:wireless:interface-moved-to-another-frequency-name")
                    ccap[c][i] = v
                    lines.append(f"setcap {c} {i} {v}")
                    impl.append("ok")
                    changed = True
            cpeak[c] = max([cpeak[c]] + oncaps(c))
            cvals[c] |= set(oncaps(c))
        if changed:
            lines.append("dump")
            impl.append(dump(w))

    def new_tick():
        carried.clear()
        under.clear()
        prev_load.clear()
        for k in range(len(lcap)):
            lpeak[k] = lcap[k]
            lvals[k] = {lcap[k]}
        for c in range(len(ccap)):
            cpeak[c] = max(oncaps(c), default=0)
            cvals[c] = set(oncaps(c))

    with Recorder(w, inventory) as rec:
        w.rec = rec
        for pr in rec.problems:
            oracle.append(dict(pr, op=-1))
        for oi, op in enumerate(case["ops"]):
            err = None
            if "scenario" in case:
                logging.disable(logging.CRITICAL)
            try:
                with _quiet():
                    apply_op(w, op, t)
            except InexactLoad:
                raise
            except Exception as e:  # an exception out of the simulator is not C18's business, but it is reported
                err = f"{type(e).__name__}: {e}"
            finally:
                logging.disable(logging.NOTSET)
            forest = rec.take()
            if err:
                # an exception unwound through the middle of a delivery (RecursionError in a broadcast storm; the rig's raising test
                # double): the sends it passed through never returned and are recorded as `lost` (reservation in place, whatever had
                # completed inside them kept); the trace stays comparable and the case goes on
                oracle.append({"kind": "exception", "op": oi, "detail": err})
                bump("ops-that-raised")
                if rec.broken:
                    end_of_op_checks(oi, "after-exception")
                    break
            if op[0] in ("step", "gstep"):
                step_checks(oi, forest, err)
            seg: List[dict] = []
            for e in forest:
                if e["t"] not in ("T", "B", "C"):
                    seg.append(e)
                    continue
                if e["nested"]:
                    oracle.append({"kind": "tick-or-capacity-change-inside-a-delivery", "op": oi})
                if seg:
                    segment(oi, seg, e["before"])
                    seg = []
                if e["t"] == "T":
                    lines.append("tick")
                    impl.append(e["after"])
                    if not e["zero"]:
                        oracle.append({"kind": "load-not-zero-after-tick", "op": oi, "medium": "any"})
                    for x in e.get("foreign", []):
                        oracle.append({"kind": "load-out-of-reach-of-the-tick-reset", "op": oi, "medium": "any", "detail": x})
                    bump("tick-boundaries")
                    if e.get("down_with_load"):
                        bump("tick-boundary:links-down-with-a-load-to-reset", e["down_with_load"])
                    if e.get("empty_with_load"):
                        bump("tick-boundary:frequencies-with-no-member-and-a-load-to-reset", e["empty_with_load"])
                    new_tick()
                elif e["t"] == "B":
                    bump("capacity-change:wired:" + ("raise" if e["v"] > lcap[e["k"]] else "lower" if e["v"] < lcap[e["k"]] else "same"))
                    if e["v"] < exact_bytes(w.links[e["k"]].current_load):
                        bump("capacity-change:wired:lowered-below-the-load")
                    lcap[e["k"]] = e["v"]
                    lpeak[e["k"]] = max(lpeak[e["k"]], e["v"])
                    lvals[e["k"]].add(e["v"])
                    lines.append(f"setbw {e['k']} {e['v']}")
                    impl.append("ok")
                    lines.append("dump")
                    impl.append(e["after"])
                else:
                    for c, caps in enumerate(e["caps"]):
                        for i, v in enumerate(caps):
                            if v != ccap[c][i]:
                                bump("capacity-change:wireless:" + ("raise" if v > ccap[c][i] else "lower"))
                                ccap[c][i] = v
                                lines.append(f"setcap {c} {i} {v}")
                                impl.append("ok")
                        cpeak[c] = max([cpeak[c]] + oncaps(c))
                        cvals[c] |= set(oncaps(c))
                    lines.append("dump")
                    impl.append(e["after"])
            if seg or op[0] not in ("tick", "step", "gstep", "setbw", "setcap"):
                segment(oi, seg, dump(w, ccap))
            sync_caps()
            monotone(oi)
        else:
            lines.append("dump")
            impl.append(dump(w))
        wrapped = list(rec.wrapped)
        runtime_inv = sorted(rec.runtime_inventory)
        frame_windows = sorted({(k, e[1], e[2]) for e in rec.frames.values() for k in e[3]})
        rec.frames.clear()
    if getattr(w, "env", None) is not None:
        try:
            w.env.close()
        except Exception:
            pass
    return {"lines": lines, "impl": impl, "forests": forests, "forest_ops": forest_ops, "oracle": oracle, "info": info,
            "wrapped": wrapped, "runtime_inventory": runtime_inv, "read_problems": list(READ_PROBLEMS),
            "frame_windows": frame_windows}


# ------------------------------------------------------------------------------------------------- generation
FRAME_BYTES = [300, 430, 447, 448, 500, 755, 756, 757, 787, 788, 789, 900, 1204, 1205, 1544, 1600, 2300, 3100, 5000, 20000]


def gen_bw(rng: Rng, tight: bool) -> float:
    if not tight and rng.chance(1, 2):
        return rng.choice([100.0, 1.0, 10.0, 0.5])
    b = rng.choice(FRAME_BYTES) + (rng.range(-3, 3) if rng.chance(1, 3) else 0)
    if rng.chance(1, 5):
        return round(b / UNIT, 6)   # a decimal bandwidth like 0.006: not a whole number of bytes
    return b / UNIT                 # exactly b bytes


def gen_case(rng: Rng, max_ops: int = 14) -> dict:
    kind = rng.choice(["p2p", "p2p", "switch", "switch", "switch", "two_switch", "router", "wireless", "wireless"])
    tight = not rng.chance(1, 5)
    topo: dict = {"kind": kind}
    if kind == "p2p":
        nl = 1
    elif kind == "switch":
        topo["hosts"] = rng.range(2, 4)
        nl = topo["hosts"]
    elif kind == "two_switch":
        topo["hosts"] = rng.range(2, 4)
        nl = topo["hosts"] + 1
    elif kind == "router":
        topo["hosts"] = rng.range(2, 3)
        nl = topo["hosts"]
    else:
        topo["routers"] = rng.range(2, 3)
        nl = topo["routers"]
        topo["freqs"] = [("WIFI_5" if rng.chance(1, 5) else "WIFI_2_4") for _ in range(nl)]
        cap = gen_bw(rng, True) * rng.choice([1, 1, 2, 3])
        topo["cap"] = [["WIFI_2_4", cap], ["WIFI_5", gen_bw(rng, True)]]
        if rng.chance(1, 2):
            # two frequency names on one hz: some access points use the alternative name, which has its own capacity
            # (smaller, larger, or equal) while the load is shared
            for j in range(nl):
                if topo["freqs"][j] == "WIFI_2_4" and (j == nl - 1 or rng.chance(1, 2)):
                    topo["freqs"][j] = ALT_NAME
            topo["cap"].append([ALT_NAME, rng.choice([cap, cap * 2, cap / 2, gen_bw(rng, True), gen_bw(rng, True) * 3])])
    topo["bw"] = [gen_bw(rng, tight if kind != "wireless" else rng.chance(1, 2)) for _ in range(nl)]
    topo["ftp"] = rng.chance(1, 3)
    hosts = [f"h{j}" for j in range(topo.get("hosts", topo.get("routers", 2)))]
    ifaces = [f"{h}:1" for h in hosts]
    if kind == "switch":
        ifaces += [f"sw:{p}" for p in range(1, len(hosts) + 1)]
    elif kind == "two_switch":
        ifaces += [f"sw1:{len(hosts) + 1}", f"sw2:{len(hosts) + 1}", "sw1:1"]
    elif kind == "router":
        ifaces += [f"r:{p}" for p in range(1, len(hosts) + 1)]
    elif kind == "wireless":
        ifaces += [f"wr{j}:1" for j in range(len(hosts))] + [f"wr{j}:2" for j in range(len(hosts))]
    if rng.chance(1, 3):
        tgt_host = rng.choice(hosts)
        topo["tripwire"] = {"host": tgt_host, "target": rng.choice(ifaces), "also": list(hosts)}
        if kind == "wireless" and rng.chance(1, 2):
            # an access point: toggled while a frame is in the air, i.e. inside the loop of AirSpace.transmit
            topo["tripwire"]["target"] = "wr%d:1" % rng.below(len(hosts))
    if rng.chance(1, 5):
        # a C2 server and a beacon: the second piece of real software that executes requests it receives over the network
        a0 = rng.choice(hosts)
        topo["c2"] = [a0, rng.choice([h for h in hosts if h != a0])]
    boundary_down = rng.chance(1, 3)    # links / frequencies that are down or empty at a tick boundary
    membership = rng.chance(1, 2)       # (wireless) access points leave / join the airspace, hop frequency, all inside ticks
    capchange = rng.chance(1, 4)        # this case reassigns bandwidths / frequency capacities in mid-episode
    boundary = rng.chance(1, 4)         # this case sets a capacity to the exact sum of k frames (or one ulp beside it)
    ops: List[list] = []
    n = rng.range(3, max_ops)
    # targets of remote terminal commands: the other hosts, and the router(s) with all their ports
    rtargets: List[Tuple[str, int]] = [(h, 1) for h in hosts]
    if kind == "router":
        rtargets += [("r", p) for p in range(1, len(hosts) + 1)] * 2
    elif kind == "wireless":
        rtargets += [(f"wr{j}", p) for j in range(len(hosts)) for p in (1, 2)]
    terminal = rng.chance(1, 3)
    for _ in range(n):
        r = rng.below(100)
        a = rng.choice(hosts)
        b = rng.choice([h for h in hosts if h != a])
        if terminal and r >= 20 and r < 34:
            tgt, port = rng.choice([t for t in rtargets if t[0] != a])
            if kind == "wireless" and tgt.startswith("wr"):
                tgt = "wr" + a[1:]          # a host reaches its own wireless router by the gateway address
            if rng.chance(1, 7):
                # the remote command powers the node off: with shut_down_duration 0 every interface of the node is disabled
                # while the frame that carried the command is still being delivered
                ops.append(["rcmd", a, tgt, ["shutdown"]])
            else:
                ops.append(["rcmd", a, tgt, ["network_interface", port, rng.choice(["disable", "disable", "enable"])]])
        elif topo.get("c2") and r >= 34 and r < 42:
            ops.append(["c2", ["network_interface", 1, rng.choice(["disable", "disable", "enable"])]])
        elif capchange and r >= 42 and r < 50:
            if kind == "wireless" and rng.chance(1, 2):
                name = rng.choice([f for f, _ in topo["cap"]])
                ops.append(["setcap", name, rng.choice([gen_bw(rng, True), gen_bw(rng, True) * 3, 0.0, 1.0])])
            else:
                ops.append(["setbw", rng.below(nl), rng.choice([gen_bw(rng, True), gen_bw(rng, True) * 2, gen_bw(rng, False), 0.0])])
        elif boundary and r >= 50 and r < 58:
            if kind == "wireless" and rng.chance(1, 2):
                ops.append(["wbfill", "wr%d" % rng.below(len(hosts)), rng.choice([0, 10, 100, 1000]), rng.range(2, 5), rng.range(1, 4),
                            rng.choice(["exact", "exact", "below", "above"])])
            else:
                ops.append(["bfill", a, b, rng.choice([0, 10, 100, 1000]), rng.range(2, 5), rng.range(1, 4),
                            rng.choice(["exact", "exact", "below", "above"])])
        elif topo.get("tripwire") and r >= 58 and r < 66:
            ops += trip_ops(rng, topo, hosts)
        elif boundary_down and r >= 80 and r < 90:
            # down at the tick boundary: traffic, then an end interface (or a whole frequency) goes down, THEN the tick; the load
            # must read 0 while down and the link / channel must have its whole capacity when it comes back
            if kind == "wireless" and rng.chance(1, 2):
                ops += [["ping", a, b, 1], ["wflap", []], ["tick"], ["wflap", list(range(len(hosts)))], ["ping", a, b, 1]]
            else:
                x = rng.choice(ifaces)
                ops += [["burst", a, rng.choice([b, "bcast"]), rng.choice([0, 100, 1000]), rng.choice([1, 2, 3])],
                        ["nic", x, "disable"], ["tick"]]
                if rng.chance(1, 2):
                    ops.append(["tick"])
                ops += [["nic", x, "enable"], ["burst", a, b, rng.choice([0, 100, 1000]), rng.choice([1, 2])]]
        elif kind == "wireless" and membership and r >= 66 and r < 80:
            q = rng.below(10)
            nr = len(hosts)
            if q < 4:
                # empty every frequency and repopulate it inside the tick (all access points back, or only some), half of the
                # time with the channel partly filled just before
                if rng.chance(1, 2):
                    ops.append(["wburst", "wr%d" % rng.below(nr), rng.choice([0, 100, 1000]), rng.choice([1, 2, 3])])
                ops.append(["wflap", rng.choice([list(range(nr)), list(range(nr)), [rng.below(nr)], []])])
            elif q < 6:
                j = rng.below(nr)
                if rng.chance(1, 3):
                    # a disabled access point put back into the frequency's list by hand: in the list, but must stay deaf
                    ops.append(["nic", "wr%d:1" % j, "disable"])
                    ops.append(["wjoin", "wr%d" % j])
                else:
                    ops.append([rng.choice(["wleave", "wleave", "wjoin"]), "wr%d" % j])
            elif q < 7:
                ops.append(["wclear"])
            else:
                ops.append(["whop", "wr%d" % rng.below(nr), rng.choice([f for f, _ in topo["cap"]])])
            if rng.chance(2, 3):    # traffic right after it, in the same tick
                ops.append(rng.choice([["ping", a, b, 1], ["wburst", "wr%d" % rng.below(nr), rng.choice([0, 100, 1000]), rng.choice([1, 2, 3])]]))
        elif r < 30:
            ops.append(["ping", a, b, rng.choice([1, 1, 2, 4])])
        elif r < 38:
            ip = rng.choice(["192.168.0.77", "192.168.0.99"]) if rng.chance(1, 2) else None
            ops.append(["arp", a, ip or "192.168.0.%d" % rng.range(2, 5)])
        elif r < 44 and kind == "wireless":
            ops.append(["wburst", "wr%d" % rng.below(len(hosts)), rng.choice([0, 10, 100, 300, 1000]), rng.choice([1, 2, 3, 6])])
        elif r < 58:
            ops.append(["burst", a, rng.choice([b, b, "bcast"]), rng.choice([0, 10, 100, 300, 1000, 5000]), rng.choice([1, 2, 3, 6, 12])])
        elif r < 70:
            ops.append(["tick"])
        elif r < 72:
            ops.append(["power", a, rng.choice(["off", "on"])])
        elif r < 86:
            ops.append(["nic", rng.choice(ifaces), rng.choice(["disable", "enable", "disable"])])
        elif r < 93 and topo["ftp"]:
            ops.append(["ftp", rng.choice([100, 1000, 5000, 100000, 10 * 10 ** 6]), None])
        elif topo.get("tripwire"):
            ops += trip_ops(rng, topo, hosts)
        else:
            ops.append(["ping", a, b, 1])
    if kind != "wireless" and rng.chance(1, 6):
        # family "power transitions": a host with boot / shutdown countdowns is powered off and on again; in EVERY tick of the
        # countdowns traffic is sent to it and from it, its interface is asked to come up (method and request: refused while the
        # node is not ON), and once it is back an interface is disabled by request in the same tick as the traffic that follows
        a = rng.choice(hosts)
        b = rng.choice([h for h in hosts if h != a])
        topo["dur"] = {a: [rng.range(0, 3), rng.range(0, 3)]}
        fam: List[list] = [["tick"], ["ping", a, b, 1], ["power", a, "off"], ["ping", b, a, 1]]
        for _ in range(topo["dur"][a][1] + 1):
            fam += [["tick"], ["ping", b, a, 1], rng.choice([["nic", f"{a}:1", "enable"], ["nicreq", f"{a}:1", "enable"]]),
                    ["ping", a, b, 1], ["burst", b, a, rng.choice([0, 100]), 1], ["burst", a, b, 0, 1]]
        fam += [["power", a, "on"], ["ping", b, a, 1]]
        for _ in range(topo["dur"][a][0] + 1):
            fam += [["tick"], ["ping", a, b, 1], ["nicreq", f"{a}:1", "enable"], ["ping", b, a, 1], ["burst", a, b, 0, 1]]
        fam += [["tick"], ["ping", a, b, 1], ["nicreq", f"{rng.choice([a, b])}:1", "disable"], ["ping", a, b, 1], ["ping", b, a, 1]]
        at = rng.below(len(ops) + 1)
        ops[at:at] = fam
        topo["power_family"] = True
    if kind == "wireless" and ALT_NAME in topo["freqs"] and "WIFI_2_4" in topo["freqs"] and rng.chance(3, 4):
        # family "aliased channel": ONE physical channel (hz) used under two frequency names by different access points; in one tick
        # first the access points of one name, then those of the other, each burst well within the capacity of its own name and
        # together beyond it (a budget kept per name instead of per hz lets the hz carry a multiple of its capacity)
        caps = dict(topo["cap"])
        per = max(1, int(min(caps["WIFI_2_4"], caps[ALT_NAME]) * UNIT))
        length = rng.choice([0, 100, 300])
        count = max(1, min(8, (per * rng.choice([6, 8, 9]) // 10) // (700 + length)))
        first = rng.choice(["WIFI_2_4", ALT_NAME])
        order = ([j for j, f in enumerate(topo["freqs"]) if f == first]
                 + [j for j, f in enumerate(topo["freqs"]) if f not in (first, "WIFI_5")])
        fam = [["tick"]] + [["wburst", "wr%d" % j, length, count] for j in order]
        at = rng.below(len(ops) + 1)
        ops[at:at] = fam
        topo["aliased_channel_family"] = True
    return {"topo": topo, "ops": ops}


def trip_ops(rng: Rng, topo: dict, hosts: List[str]) -> List[list]:
    out: List[list] = []
    src = rng.choice([h for h in hosts if h != topo["tripwire"]["host"]])
    if rng.chance(1, 2):  # warm the ARP cache so that the payload really travels
        out.append(["ping", src, topo["tripwire"]["host"], 1])
    others = [h for h in hosts if h not in (src, topo["tripwire"]["host"])]
    out.append(["trip", src, topo["tripwire"]["host"],
                rng.choice(["trip-off", "trip-on", "trip-flap", "trip-off", "trip-raise", "trip-raise",
                            "trip-relay:" + rng.choice(others or [src])])])
    return out


SCENARIOS = ["data_manipulation.yaml", "data_manipulation.yaml", "uc7_config.yaml"]


def gen_scenario_case(rng: Rng, max_steps: int = 30) -> dict:
    """A shipped scenario (agents, services, database traffic, the red kill chain) with its link bandwidths replaced by a short
    cycle of values, stepped with random actions."""
    nbw = rng.range(1, 4)
    bw = [rng.choice([100.0, 100.0, 10.0, 1.0, 0.05, 0.01, gen_bw(rng, True), 40.0]) for _ in range(nbw)]
    return {"scenario": {"file": rng.choice(SCENARIOS), "seed": rng.range(1, 10 ** 6), "bw": bw},
            "ops": [(["gstep"] if rng.chance(1, 4) else ["step", rng.below(10 ** 6) if rng.chance(2, 3) else 0])
                    for _ in range(rng.range(8, max_steps))]}


def f9_probe() -> dict:
    """F-9 (recorded under C03): `Frame.size` is the length of the frame's JSON, which contains the timestamps as text. Not a C18
    violation once the frame is stamped before the admission test (the model is parametric in the sizes), but it is why sizes are
    inputs of the model and not predicted: the same frame weighs differently depending on the clock."""
    from datetime import datetime
    from primaite.simulator.network.transmission.data_link_layer import EthernetHeader, Frame
    from primaite.simulator.network.transmission.network_layer import IPPacket
    from primaite.simulator.network.transmission.transport_layer import UDPHeader
    f = Frame(ethernet=EthernetHeader(src_mac_addr="aa:bb:cc:dd:ee:ff", dst_mac_addr="11:22:33:44:55:66"),
              ip=IPPacket(src_ip_address="192.168.0.10", dst_ip_address="192.168.0.20", protocol=_proto("UDP")),
              udp=UDPHeader(src_port=_port("NTP"), dst_port=_port("NTP")), payload="x")
    out = {"unstamped": int(f.size)}
    f.sent_timestamp = datetime(2026, 1, 1, 0, 0, 0, 123456)
    out["stamped_with_microseconds"] = int(f.size)
    f.sent_timestamp = datetime(2026, 1, 1, 0, 0, 0, 0)
    out["stamped_on_a_whole_second"] = int(f.size)
    return out


# ------------------------------------------------------------------------------------------------- family "tight-bandwidth flood"
def flood_family_cases(rng: Rng, thorough: bool = False, inventory=None) -> List[Tuple[str, dict]]:
    """'The value tested is the value stored': frames are shared mutable objects that GROW while a switch offers them to one port
    after another (the first NIC that sees a flooded frame stamps `received_timestamp` on it: +24 bytes), so the admission test and
    the load accounting must both use the size the frame has AT THAT PORT.  For every ordered pair (sender, target) of 3 (thorough:
    also 4) hosts on one switch — i.e. every choice of which port is first in the flood and whether the accepting NIC is first — and
    every first exchange (ping = ARP request flooded + ARP reply + ICMP echo and reply; a unicast burst to an unknown MAC; a
    broadcast burst), a reference run with ample bandwidth MEASURES, per frame object, the smallest and the largest size it had
    at any send attempt / admission / crossing and the links it was offered to; then each such link in turn gets every bandwidth in
    [smallest - 2, largest + 2] bytes (quick: every third value from a seeded offset, plus the six values around both ends; frames
    that did not grow: size - 1, size, size + 1), all other links ample.  The oracles are the rig's own: bytes that crossed (measured
    at crossing time) against the bandwidth, load after every send, load0 + size-at-crossing <= bandwidth."""
    out: List[Tuple[str, dict]] = []
    off = rng.below(3)
    for nh in ((3, 4) if thorough else (3,)):
        hosts = [f"h{j}" for j in range(nh)]
        pairs = [(a, b) for a in hosts for b in hosts if a != b]
        for pi, (a, b) in enumerate(pairs):
            exchanges = [("ping", [["tick"], ["ping", a, b, 1]])]
            if thorough or pi % 3 == off:
                exchanges.append(("unknown-unicast", [["tick"], ["burst", a, b, 0, 1]]))
            if thorough or pi % 3 == (off + 1) % 3:
                exchanges.append(("broadcast", [["tick"], ["burst", a, "bcast", 0, 1]]))
            for xname, ops in exchanges:
                topo = {"kind": "switch", "hosts": nh, "bw": [100.0] * nh, "ftp": False, "flood_family": xname}
                ref = run_impl({"topo": topo, "ops": ops}, inventory)
                for k in range(nh):
                    vals = set()
                    for kk, lo, hi in ref["frame_windows"]:
                        if kk != k:
                            continue
                        if hi > lo:
                            full = range(lo - 2, hi + 3)
                            vals |= set(full) if thorough else ({v for v in full if (v - lo) % 3 == off}
                                                                | {lo - 1, lo, lo + 1, hi - 1, hi, hi + 1})
                        else:
                            vals |= {lo - 1, lo, lo + 1}
                    for v in sorted(vals):
                        bw = [100.0] * nh
                        bw[k] = v / UNIT
                        out.append((f"flood:{nh}:{a}>{b}:{xname}:link{k}={v}", {"topo": dict(topo, bw=bw), "ops": ops}))
    return out
