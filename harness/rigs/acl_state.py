"""R-acl, round 3: the STATE a list carries besides its rules, the seven lists of a firewall, and real frames.

Three families, all against Drivers/C07.lean (Model/AclObj.lean):

  obj   one list object — bare `AccessControlList(implicit_action=?, max_acl_rules=?)`, a router's list, or one of a
        firewall's seven — driven by the operation alphabet the code offers: add / remove (Python API, request through
        the owner's request manager, request formed by the router-/firewall-acl-* agent actions), `implicit_action = …`,
        `max_acl_rules = …`, verdicts on frames, `describe_state()`, `show()`, `num_rules`; on devices the edits address
        every (port, direction) pair and all seven lists are compared at the end.
  dev   a real network (hosts — router|firewall — hosts): edits and `implicit_action` assignments on the device's lists
        interleaved with REAL traffic: pings between the hosts and frames injected at the device's interfaces.  Every
        `is_permitted` call the device makes (and, on a router, every frame it receives: ARP exemption) is recorded with the
        projection of the real frame and replayed on the model in the same order; verdict, decider and all counters must
        agree, and a ping succeeds iff no list denied one of its frames.
  wf    `Frame.__init__` accepts exactly the header combinations `Frame.wf` says (bounded-exhaustive, 32 combinations).
"""
from __future__ import annotations

import contextlib
import io
from ipaddress import IPv4Address
from typing import Dict, List, Optional, Tuple
from unittest import mock

from harness.lib.core import Rng
from harness.rigs import acl as base

LISTS = ["router", "intIn", "intOut", "dmzIn", "dmzOut", "extIn", "extOut"]
FW_ATTR = {"intIn": "internal_inbound_acl", "intOut": "internal_outbound_acl", "dmzIn": "dmz_inbound_acl",
           "dmzOut": "dmz_outbound_acl", "extIn": "external_inbound_acl", "extOut": "external_outbound_acl"}
FW_PORTDIR = {"intIn": ("internal", "inbound"), "intOut": ("internal", "outbound"), "dmzIn": ("dmz", "inbound"),
              "dmzOut": ("dmz", "outbound"), "extIn": ("external", "inbound"), "extOut": ("external", "outbound")}
o = base.o


# ------------------------------------------------------------------------------------------ generation
def _positions(rng: Rng, mx: int) -> int:
    """positions around the bound `max_acl_rules - 1` and well inside / outside it"""
    slots = max(mx - 1, 0)
    inside = [p for p in (0, 1, 2, 3, 5, slots - 2, slots - 1) if 0 <= p < slots] or [0]
    if rng.chance(1, 6):
        return rng.choice([-1, slots, slots + 1, slots + 5, 100])
    return rng.choice(inside)


def _gen_rule(rng: Rng) -> dict:
    r = base.gen_rule(rng)
    if rng.chance(1, 12):  # wildcard without base address on the destination side as well (ignored by the code)
        r["dst_ip"], r["dst_wc"] = None, rng.choice(base.MASKS)
    return r


def _gen_edit(rng: Rng, lst: str, mx: int, host: str, added: List[dict]) -> dict:
    surf = rng.choice(["api", "request", "action"])
    if rng.chance(3, 4):
        r = _gen_rule(rng)
        added.append(r)
        return {"op": "add", "list": lst, "surface": surf, "pos": _positions(rng, mx), "rule": r}
    return {"op": "remove", "list": lst, "surface": surf, "pos": _positions(rng, mx)}


def _gen_check(rng: Rng, lst: str, added: List[dict]) -> dict:
    if added and rng.chance(1, 2):
        return {"op": "check", "list": lst, "pkt": base.packet_for(rng, rng.choice(added))}
    return {"op": "check", "list": lst, "pkt": base.gen_packet(rng)}


def gen_obj_case(rng: Rng, max_ops: int = 30) -> dict:
    host = rng.choice(["bare", "bare", "router", "firewall", "firewall", "wireless"])
    ctor = None
    mx = 25
    lists = ["router"]
    if host == "bare":
        ctor = {"implicit": rng.choice([None, "PERMIT", "DENY", "absent"]), "max": rng.choice([None, None, 25, 10, 5, 2, 1, 0])}
        mx = 25 if ctor["max"] is None else ctor["max"]
    elif host == "firewall":
        lists = list(LISTS)
    ops: List[dict] = []
    added: Dict[str, List[dict]] = {l: [] for l in lists}
    cur_max = {l: mx for l in lists}
    preload = None
    if host != "bare" and rng.chance(1, 2):
        # rules written in the scenario file: `Router.from_config` / the six loops of `Firewall.from_config`
        preload = {}
        for lst in (["router"] if host in ("router", "wireless") else [l for l in LISTS if l != "router"]):
            rules = []
            for pos in rng.shuffle(list(range(0, 24)))[:rng.range(0, 3)]:
                r = _gen_rule(rng)
                if base._config_entry(r) is None:
                    continue
                rules.append({"pos": pos, "rule": r, "spelling": rng.choice(["code", "code", "documented", "both"])})
                added[lst].append(r)
            preload[lst] = rules
    n = rng.range(4, max_ops)
    for _ in range(n):
        lst = rng.choice(lists)
        k = rng.below(20)
        if k < 7:
            ops.append(_gen_edit(rng, lst, cur_max[lst], host, added[lst]))
        elif k < 9:
            ops.append({"op": "setimp", "list": lst, "value": rng.choice(["PERMIT", "DENY"])})
            # the point of the assignment: packets nothing matches, right after it
            for _ in range(rng.range(1, 2)):
                ops.append({"op": "check", "list": lst, "pkt": base.gen_packet(rng)})
        elif k < 10:
            v = rng.choice([cur_max[lst] + 3, cur_max[lst] - 2, 30, 10, 3, 25, 0])
            cur_max[lst] = v
            ops.append({"op": "setmax", "list": lst, "value": v})
            ops.append(_gen_edit(rng, lst, v, host, added[lst]))
        elif k < 11:
            if rng.chance(1, 2):
                # malformed stream: a request the handler must refuse (failure status) without touching the list
                ops.append({"op": "bad", "list": lst, "pos": _positions(rng, cur_max[lst]),
                            "what": rng.choice(["ip", "wildcard", "port-name", "port-range", "protocol", "position"])})
            ops.append({"op": "describe", "list": lst})
        elif k < 12:
            ops.append({"op": "show", "list": lst})
        else:
            ops.append(_gen_check(rng, lst, added[lst]))
    return {"family": "obj", "host": host, "ctor": ctor, "preload": preload, "ops": ops}


def gen_inject(rng: Rng, nports: int) -> dict:
    """a frame handed to the device's receive path: sources are addresses no host owns (no ARP poisoning of the hosts)"""
    proto = rng.choice(["tcp", "udp", "udp", "icmp", "none"])
    hdr = {"tcp": "tcp", "udp": "udp", "icmp": None, "none": rng.choice([None, "tcp", "udp"])}[proto]
    if proto == "icmp" and rng.chance(1, 5):
        hdr = rng.choice(["tcp", "udp"])
    sport = dport = None
    if hdr:
        dport = rng.choice([219, 219, 80, 22, 5432, 0, 53])
        sport = dport if rng.chance(1, 2) else rng.choice([219, 80, 1234, 0])
    srcs = ["10.0.9.9", "172.16.0.5", "10.0.1.77", "10.0.2.77", "192.168.1.10"]
    dsts = ["10.0.1.2", "10.0.2.2", "10.0.3.2", "10.0.1.1", "10.0.2.1", "10.0.9.1", "192.168.1.23"]
    return {"op": "inject", "port": rng.below(nports), "proto": proto, "hdr": hdr, "sport": sport, "dport": dport,
            "src": rng.choice(srcs), "dst": rng.choice(dsts), "arp": bool(hdr == "udp" and rng.chance(1, 2))}


def gen_dev_case(rng: Rng, max_ops: int = 14) -> dict:
    kind = rng.choice(["router", "firewall", "firewall", "router", "firewall", "firewall", "wireless"])
    lists = ["router"] if kind in ("router", "wireless") else list(LISTS)
    nports = 3 if kind == "firewall" else 2
    addrs = [f"10.0.{p + 1}.2" for p in range(nports)] + [f"10.0.{p + 1}.1" for p in range(nports)] + ["10.0.1.77", "10.0.9.9"]
    ops: List[dict] = []
    inject = rng.chance(1, 2) or kind == "wireless"  # no hosts on the wireless router: injected frames only
    if kind == "firewall" and rng.chance(1, 2):
        # open the four default-deny lists first (by assignment or by an explicit permit-all rule), so that pings get
        # through unless a later rule or assignment stops them
        for lst in ("intIn", "intOut", "dmzIn", "dmzOut"):
            if rng.chance(2, 3):
                ops.append({"op": "setimp", "list": lst, "value": "PERMIT"})
            else:
                ops.append({"op": "add", "list": lst, "surface": rng.choice(["api", "request", "action"]), "pos": 20,
                            "rule": {"action": "PERMIT", "proto": None, "src_ip": None, "src_wc": None, "dst_ip": None, "dst_wc": None,
                                     "src_port": None, "dst_port": None}})
    for _ in range(rng.range(4, max_ops)):
        k = rng.below(10)
        lst = rng.choice(lists)
        if k < 3:
            r = _gen_rule(rng)
            for f in ("src_ip", "dst_ip"):
                if r[f] is not None:
                    r[f] = rng.choice(addrs)
            if rng.chance(1, 2):
                r["proto"] = rng.choice([None, "icmp", "udp"])
            ops.append({"op": "add", "list": lst, "surface": rng.choice(["api", "request", "action"]),
                        "pos": rng.choice([0, 1, 2, 5, 21, 22, 23, 24]), "rule": r})
        elif k < 4:
            ops.append({"op": "remove", "list": lst, "surface": rng.choice(["api", "request", "action"]), "pos": rng.choice([0, 1, 22, 23, 24, -1])})
        elif k < 6:
            ops.append({"op": "setimp", "list": lst, "value": rng.choice(["PERMIT", "PERMIT", "DENY"])})
        elif (k < 8 or not inject) and kind != "wireless":
            s = rng.below(nports)
            d = rng.choice([q for q in range(nports) if q != s])
            ops.append({"op": "ping", "src": s, "dst": d})
        else:
            ops.append(gen_inject(rng, nports))
    return {"family": "dev", "kind": kind, "inject": inject, "ops": ops}


# ------------------------------------------------------------------------------------------ near-duplicate overwrites
FIELDS = ["action", "proto", "src_ip", "src_wc", "dst_ip", "dst_wc", "src_port", "dst_port", "position"]
_DOMAIN = {"proto": ["tcp", "udp", "icmp", "none"], "src_ip": base.ADDRS, "dst_ip": base.ADDRS, "src_wc": base.MASKS, "dst_wc": base.MASKS,
           "src_port": base.PORTS, "dst_port": base.PORTS}


def _ip(s: str) -> int:
    return int(IPv4Address(s))


def py_matches(r: dict, p: dict) -> bool:
    """reference matcher used ONLY to aim packets (generation, never an oracle)"""
    def addr(ip, wc, x):
        if ip is None:
            return True
        if wc is None:
            return _ip(ip) == _ip(x)
        return (_ip(ip) & ~_ip(wc)) == (_ip(x) & ~_ip(wc))
    if r["proto"] is not None and r["proto"] != p["proto"]:
        return False
    if not addr(r["src_ip"], r["src_wc"], p["src"]) or not addr(r["dst_ip"], r["dst_wc"], p["dst"]):
        return False
    if r["src_port"] is not None and r["src_port"] != p["sport"]:
        return False
    if r["dst_port"] is not None and r["dst_port"] != p["dport"]:
        return False
    return True


def vary(rng: Rng, r: dict, field: str, mode: int) -> dict:
    """a copy of r differing in exactly ONE field: mode 0 = None <-> value, mode 1/2 = another value"""
    n = dict(r)
    if field == "action":
        n["action"] = "PERMIT" if r["action"] == "DENY" else "DENY"
        return n
    dom = [v for v in _DOMAIN[field] if v != r[field]]
    if r[field] is None or mode != 0:
        n[field] = dom[(mode * 3 + rng.below(len(dom))) % len(dom)]
    else:
        n[field] = None
    return n


def distinguishing_packets(rng: Rng, old: dict, new: dict, k: int = 3) -> List[dict]:
    """packets one of the two rules matches and the other does not (as many as found, at most k), plus one both match"""
    cands = []
    for r in (old, new):
        for _ in range(6):
            cands.append(base.packet_for(rng, r))
        # inside a masked range but not the base address itself
        for f, pf in (("src_ip", "src"), ("dst_ip", "dst")):
            if r[f] is not None:
                for a in base.ADDRS + ["192.168.1.77", "192.168.200.10", "10.0.0.200"]:
                    q = base.packet_for(rng, r)
                    q[pf] = a
                    cands.append(q)
    diff = [q for q in cands if py_matches(old, q) != py_matches(new, q)]
    both = [q for q in cands if py_matches(old, q) and py_matches(new, q)]
    out = rng.shuffle(diff)[:k]
    if both:
        out.append(rng.choice(both))
    return out or [base.gen_packet(rng)]


def _rich_rule(rng: Rng) -> dict:
    r = base.gen_rule(rng)
    r["proto"] = rng.choice(["tcp", "udp", "tcp", None])
    for f in ("src_ip", "dst_ip"):
        if r[f] is None and rng.chance(3, 4):
            r[f] = rng.choice(base.ADDRS)
    for f, w in (("src_ip", "src_wc"), ("dst_ip", "dst_wc")):
        if r[f] is None:
            r[w] = None
    return r


def gen_neardup_case(k: int, rng: Rng) -> dict:
    """Overwrite of an occupied position by a NEAR-duplicate: a rule at position p, then at p a copy differing in exactly one
    field (k walks the 9 fields x 3 transitions x 3 surfaces x hosts), then a dump and packets the two rules treat differently;
    finally the identical rule once more (the counter of a replaced rule starts at 0 again)."""
    field = FIELDS[k % 9]
    mode = (k // 9) % 3
    surf1 = ["api", "request", "action"][(k // 27) % 3]
    host = ["bare", "firewall", "router"][(k // 81) % 3]
    lst = "router" if host != "firewall" else LISTS[k % 7]
    r0 = _rich_rule(rng)
    pos = rng.choice([0, 1, 3, 7, 20, 23])
    ops = [{"op": "add", "list": lst, "surface": rng.choice(["api", "request", "action"]), "pos": pos, "rule": r0},
           {"op": "check", "list": lst, "pkt": base.packet_for(rng, r0)}, {"op": "check", "list": lst, "pkt": base.packet_for(rng, r0)}]
    if field == "position":
        r1, pos1 = dict(r0), (pos + [1, 5, -1][mode]) % 24
    else:
        r1, pos1 = vary(rng, r0, field, mode), pos
    ops.append({"op": "add", "list": lst, "surface": surf1, "pos": pos1, "rule": r1})
    ops.append({"op": "describe", "list": lst})
    for q in distinguishing_packets(rng, r0, r1):
        ops.append({"op": "check", "list": lst, "pkt": q})
    ops.append({"op": "add", "list": lst, "surface": rng.choice(["api", "request", "action"]), "pos": pos1, "rule": dict(r1)})
    ops.append({"op": "describe", "list": lst})
    ops.append({"op": "check", "list": lst, "pkt": base.packet_for(rng, r1)})
    ctor = {"implicit": rng.choice(["PERMIT", "DENY"]), "max": None} if host == "bare" else None
    return {"family": "obj", "host": host, "ctor": ctor, "preload": None, "neardup": {"field": field, "mode": mode, "surface": surf1}, "ops": ops}


def gen_dev_neardup_case(k: int, rng: Rng) -> dict:
    """The same on a device with real traffic: a rule about the pinging host's subnet that does not yet match the host
    (an exact address next to it), a ping, the rule re-written at the same position with ONE field changed so that it now
    does (or no longer does) match, a ping again, and an injected frame."""
    kind = ["router", "firewall"][k % 2]
    lst = "router" if kind == "router" else ["extIn", "intIn", "intOut", "extOut"][(k // 2) % 4]
    action = "DENY" if (kind == "router" or lst.startswith("ext")) else "PERMIT"
    r0 = {"action": action, "proto": "icmp", "src_ip": "10.0.1.77", "src_wc": None, "dst_ip": "10.0.2.2", "dst_wc": None,
          "src_port": None, "dst_port": None}
    variants = [("src_wc", "0.0.0.255"), ("src_ip", "10.0.1.2"), ("proto", "udp"), ("dst_wc", "0.0.255.255"), ("dst_ip", None),
                ("action", "PERMIT" if action == "DENY" else "DENY"), ("src_ip", None), ("dst_port", 80), ("src_port", 219)]
    f, v = variants[(k // 8) % len(variants)]
    r1 = dict(r0)
    r1[f] = v
    pos = rng.choice([0, 2, 5, 21])
    first, second = (r0, r1) if rng.chance(2, 3) else (r1, r0)
    ops = []
    if kind == "firewall":
        for l in ("intIn", "intOut"):
            ops.append({"op": "setimp", "list": l, "value": "PERMIT"})
    ops += [{"op": "add", "list": lst, "surface": rng.choice(["api", "request", "action"]), "pos": pos, "rule": first},
            {"op": "ping", "src": 0, "dst": 1},
            {"op": "add", "list": lst, "surface": ["api", "request", "action"][(k // 3) % 3], "pos": pos, "rule": second},
            {"op": "ping", "src": 0, "dst": 1}, {"op": "ping", "src": 1, "dst": 0}]
    return {"family": "dev", "kind": kind, "inject": False, "neardup": {"field": f}, "ops": ops}


# ------------------------------------------------------------------------------------------ shared helpers
def frame_view(frame) -> dict:
    from primaite.simulator.network.protocols.arp import ARPPacket
    return {"proto": frame.ip.protocol, "src": str(frame.ip.src_ip_address), "dst": str(frame.ip.dst_ip_address),
            "tcp": (frame.tcp.src_port, frame.tcp.dst_port) if frame.tcp else None,
            "udp": (frame.udp.src_port, frame.udp.dst_port) if frame.udp else None,
            "icmp": frame.icmp is not None, "arp": isinstance(frame.payload, ARPPacket)}


def frame_line(mode: str, v: dict) -> str:
    t = v["tcp"] or (None, None)
    u = v["udp"] or (None, None)
    return (f"frame {mode} {v['proto']} {v['src']} {v['dst']} {o(t[0])} {o(t[1])} {o(u[0])} {o(u[1])} "
            f"{1 if v['icmp'] else 0} {1 if v['arp'] else 0}")


def who_of(acl, rule) -> str:
    if rule is acl.implicit_rule:
        return "implicit"
    idx = [i for i, x in enumerate(acl.acl) if x is rule]
    return str(idx[0]) if len(idx) == 1 else f"?{idx}"


def describe_impl(acl) -> str:
    from primaite.simulator.network.hardware.nodes.network.router import ACLAction
    d = acl.describe_state()
    return (f"{ACLAction(d['implicit_action']).name} {ACLAction(d['implicit_rule']['action']).name} "
            f"{d['implicit_rule']['match_count']} {d['max_acl_rules']} {acl.num_rules}")


def dump_described(acl) -> str:
    """the same canonical dump as `base.dump_impl`, but read from `describe_state()` (the observation path)"""
    from primaite.simulator.network.hardware.nodes.network.router import ACLAction
    d = acl.describe_state()
    out = []
    for i in sorted(d["acl"]):
        r = d["acl"][i]
        if r is None:
            out.append("-")
        else:
            out.append(",".join([ACLAction(r["action"]).name, o(r["protocol"]), o(r["src_ip_address"]), o(r["src_wildcard_mask"]),
                                 o(r["dst_ip_address"]), o(r["dst_wildcard_mask"]), o(r["src_port"]), o(r["dst_port"]), str(r["match_count"])]))
    return " ".join(out) + f" | {ACLAction(d['implicit_action']).name} {d['implicit_rule']['match_count']}"


def show_impl(acl) -> str:
    """rows of `show()` as printed, canonicalised to the driver's `show` line"""
    buf = io.StringIO()
    with contextlib.redirect_stdout(buf):
        acl.show()
    rows = []
    for line in buf.getvalue().splitlines():
        if not line.startswith("|"):
            continue
        cells = [c.strip() for c in line.strip().strip("|").split("|")]
        if len(cells) != 10 or cells[0] == "Index":
            continue
        idx, action, proto, sip, swc, sp, dip, dwc, dp, hits = cells
        a = lambda c: "-" if c == "ANY" else c  # noqa: E731
        rows.append(f"{idx}:{action},{a(proto)},{a(sip)},{a(swc)},{a(dip)},{a(dwc)},{a(sp)},{a(dp)},{hits}")
    return " ".join(rows)


def _action_request(lst: str, kind: str, op: dict, node_name: str) -> List:
    """The request exactly as the agent action for this list forms it."""
    import primaite.game.game  # noqa: F401
    from primaite.game.agent.actions.abstract import AbstractAction
    reg = AbstractAction._registry
    if kind == "add":
        r = op["rule"]
        opts = {"position": op["pos"], "permission": r["action"],
                "src_ip": "ALL" if r["src_ip"] is None else r["src_ip"], "src_wildcard": "NONE" if r["src_wc"] is None else r["src_wc"],
                "src_port": "ALL" if r["src_port"] is None else r["src_port"],
                "dst_ip": "ALL" if r["dst_ip"] is None else r["dst_ip"], "dst_wildcard": "NONE" if r["dst_wc"] is None else r["dst_wc"],
                "dst_port": "ALL" if r["dst_port"] is None else r["dst_port"],
                "protocol_name": "ALL" if r["proto"] is None else r["proto"]}
    else:
        opts = {"position": op["pos"]}
    if lst == "router":
        ident = f"router-acl-{kind}-rule"
        opts.update(target_router=node_name)
    else:
        ident = f"firewall-acl-{kind}-rule"
        port, direction = FW_PORTDIR[lst]
        opts.update(target_firewall_nodename=node_name, firewall_port_name=port, firewall_port_direction=direction)
    return reg[ident].form_request(reg[ident].ConfigSchema(type=ident, **opts))


def _raw_request(lst: str, kind: str, op: dict, node_name: str) -> List:
    route = ["network", "node", node_name] + ([] if lst == "router" else list(FW_PORTDIR[lst])) + ["acl"]
    if kind == "add":
        r = op["rule"]
        return route + ["add_rule", r["action"], "ALL" if r["proto"] is None else r["proto"],
                        "ALL" if r["src_ip"] is None else r["src_ip"], "NONE" if r["src_wc"] is None else r["src_wc"],
                        "ALL" if r["src_port"] is None else r["src_port"],
                        "ALL" if r["dst_ip"] is None else r["dst_ip"], "NONE" if r["dst_wc"] is None else r["dst_wc"],
                        "ALL" if r["dst_port"] is None else r["dst_port"], op["pos"]]
    return route + ["remove_rule", op["pos"]]


def apply_edit(acl, op: dict, lst: str, net=None, node_name: str = "X") -> str:
    """One add/remove through the op's surface.  `net is None` = a bare list: requests go to the list's own manager with
    the route stripped (and the stripped route is checked)."""
    from primaite.simulator.network.hardware.nodes.network.router import ACLAction
    kind = op["op"]
    try:
        if op["surface"] == "api":
            if kind == "add":
                r = op["rule"]
                ok = acl.add_rule(action=ACLAction[r["action"]], protocol=r["proto"], src_ip_address=r["src_ip"],
                                  src_wildcard_mask=r["src_wc"], dst_ip_address=r["dst_ip"], dst_wildcard_mask=r["dst_wc"],
                                  src_port=r["src_port"], dst_port=r["dst_port"], position=op["pos"])
            else:
                ok = acl.remove_rule(op["pos"])
            return "ok" if ok else "raised"
        req = (_action_request if op["surface"] == "action" else _raw_request)(lst, kind, op, node_name)
        if net is None:
            strip = ["network", "node", node_name] + ([] if lst == "router" else list(FW_PORTDIR[lst])) + ["acl"]
            if req[:len(strip)] != strip:
                return f"odd-route {req[:len(strip)]}"
            resp = acl.apply_request(req[len(strip):], {})
        else:
            if req[0] != "network":
                return f"odd-route {req[:1]}"
            resp = net.apply_request(req[1:], {})
        return "ok" if resp.status == "success" else ("raised" if resp.status == "failure" else f"status:{resp.status}")
    except IndexError:
        return "index-error"
    except ValueError:
        return "raised"


def edit_line(op: dict) -> str:
    return base.rule_line(op["pos"], op["rule"]) if op["op"] == "add" else f"remove {op['pos']}"


def scenario_entry(item: dict) -> dict:
    """the rule as a scenario file spells it: the keys the shipped scenarios use (`code`), the keys the documentation uses
    for the addresses (`documented`), or both with the shipped spelling carrying the rule's value (it wins)"""
    e = dict(base._config_entry(item["rule"]))
    if item["spelling"] == "documented":
        for a, b in (("src_ip", "src_ip_address"), ("dst_ip", "dst_ip_address")):
            if a in e:
                e[b] = e.pop(a)
    elif item["spelling"] == "both":
        for a, b in (("src_ip", "src_ip_address"), ("dst_ip", "dst_ip_address")):
            if a in e:
                e[b] = "203.0.113.9"
    return e


def acl_config(kind: str, preload: Optional[dict]):
    if not preload:
        return None
    if kind in ("router", "wireless"):
        return {it["pos"]: scenario_entry(it) for it in preload.get("router", [])}
    return {FW_ATTR[l]: {it["pos"]: scenario_entry(it) for it in preload.get(l, [])} for l in FW_ATTR}


def build_device(kind: str, with_hosts: bool = True, preload: Optional[dict] = None):
    """hosts H0.. on 10.0.<p+1>.2 behind port p+1 (10.0.<p+1>.1) of a router (2 ports) or firewall (external, internal, dmz).
    Connecting hosts makes traffic (their ARP announcements reach the device's lists): callers that compare counters either
    build without hosts or record from before the build."""
    from primaite.simulator.network.container import Network
    from primaite.simulator.network.hardware.nodes.host.computer import Computer
    from primaite.simulator.network.hardware.nodes.network.firewall import Firewall
    from primaite.simulator.network.hardware.nodes.network.router import Router
    net = Network()
    cfg = {"type": kind, "hostname": "X", "start_up_duration": 0}
    acl_cfg = acl_config(kind, preload)
    if acl_cfg is not None:
        cfg["acl"] = acl_cfg
    if kind == "wireless":
        # the same class behind `WirelessRouter` (its own loader loop; wired interface + access point; no hosts attached)
        from primaite.simulator.network.hardware.nodes.network.wireless_router import WirelessRouter
        x = WirelessRouter.from_config(dict(cfg, type="wireless-router",
                                            router_interface={"ip_address": "10.0.1.1", "subnet_mask": "255.255.255.0"},
                                            wireless_access_point={"ip_address": "10.0.2.1", "subnet_mask": "255.255.255.0",
                                                                   "frequency": "WIFI_2_4"}), airspace=net.airspace)
        net.add_node(x)
        return net, x, [], {"router": x.acl}
    if kind == "router":
        x = Router.from_config(dict(cfg, num_ports=2))
    else:
        x = Firewall.from_config(cfg)
    x.power_on()
    net.add_node(x)
    hosts = []
    for p in range(2 if kind == "router" else 3):
        x.configure_port(p + 1, f"10.0.{p + 1}.1", "255.255.255.0")
        if not with_hosts:
            continue
        h = Computer.from_config({"type": "computer", "hostname": f"H{p}", "ip_address": f"10.0.{p + 1}.2", "subnet_mask": "255.255.255.0",
                                  "default_gateway": f"10.0.{p + 1}.1", "start_up_duration": 0})
        h.power_on()
        net.add_node(h)
        net.connect(x.network_interface[p + 1], h.network_interface[1])
        x.network_interface[p + 1].enable()
        hosts.append(h)
    lists = {"router": x.acl}
    if kind == "firewall":
        for name, attr in FW_ATTR.items():
            lists[name] = getattr(x, attr)
    return net, x, hosts, lists


def dumpall_impl(lists: Dict[str, object], default_line: str) -> str:
    parts = []
    for name in LISTS:
        if name in lists:
            parts.append(f"{name}: {base.dump_impl(lists[name])} # {describe_impl(lists[name])}")
        else:
            parts.append(f"{name}: {default_line}")
    return " || ".join(parts)


UNTOUCHED = " ".join(["-"] * 24) + " | DENY 0 # DENY DENY 0 25 0"  # the driver's initial list (constructor DENY, 25)


# ------------------------------------------------------------------------------------------ family obj
def run_obj(case: dict) -> Tuple[List[str], List[str]]:
    """Returns (implementation answers, model lines), aligned."""
    from primaite.simulator.network.hardware.nodes.network.router import ACLAction, AccessControlList
    from primaite.simulator.system.core.sys_log import SysLog
    host = case["host"]
    lines, out = ["reset"], ["ok"]
    net = None
    if host == "bare":
        c = case["ctor"]
        kw = {}
        if c["implicit"] != "absent":
            kw["implicit_action"] = None if c["implicit"] is None else ACLAction[c["implicit"]]
        if c["max"] is not None:
            kw["max_acl_rules"] = c["max"]
        lists = {"router": AccessControlList(sys_log=SysLog("verif"), name="verif", **kw)}
        lines.append(f"obj {25 if c['max'] is None else c['max']} {c['implicit'] if c['implicit'] in ('PERMIT', 'DENY') else '-'}")
    elif host in ("router", "wireless"):
        net, x, hosts, lists = build_device(host, with_hosts=False, preload=case.get("preload"))
        lines.append("rt 25")
    else:
        net, x, hosts, lists = build_device("firewall", with_hosts=False, preload=case.get("preload"))
        lines.append("fw 25")
    out.append("ok")
    for lst, items in (case.get("preload") or {}).items():
        for it in items:
            lines += [f"sel {lst}", base.rule_line(it["pos"], it["rule"])]
            out += ["ok", "ok"]
        if items:  # what the loader installed, list by list, before anything else happens
            lines += [f"sel {lst}", "dump"]
            out += ["ok", base.dump_impl(lists[lst])]
    for op in case["ops"]:
        lst = op["list"]
        acl = lists[lst]
        lines.append(f"sel {lst}")
        out.append("ok")
        k = op["op"]
        if k in ("add", "remove"):
            lines.append(edit_line(op))
            out.append(apply_edit(acl, op, lst, net))
            if len(lists) > 1:  # on a device: the addressed list and its neighbour, right away (a rule landing in another list)
                other = LISTS[(LISTS.index(lst) + 1) % len(LISTS)]
                lines += ["dump", f"sel {other}", "dump"]
                out += [base.dump_impl(acl), "ok", base.dump_impl(lists[other])]
        elif k == "check":
            p = op["pkt"]
            lines.append(f"check {p['proto']} {p['src']} {p['dst']} {o(p['sport'])} {o(p['dport'])}")
            out.append(base.verdict(acl, base.make_frame(p)))
        elif k == "bad":
            req = ["add_rule", "DENY", "tcp", "10.0.0.1", "NONE", 80, "10.0.0.2", "NONE", 443, op["pos"]]
            i, v = {"ip": (2, "300.1.1.1"), "wildcard": (6, "ALL"), "port-name": (4, "NOSUCHPORT"), "port-range": (7, 70000),
                    "protocol": (1, "gre"), "position": (8, "first")}[op["what"]]
            req[i + 1] = v  # indices of the handler's positional arguments (after the request name)
            try:
                if net is None:
                    resp = acl.apply_request(req, {})
                else:
                    resp = net.apply_request(["node", "X"] + ([] if lst == "router" else list(FW_PORTDIR[lst])) + ["acl"] + req, {})
                got = "raised" if resp.status == "failure" else f"status:{resp.status}"
            except Exception as e:  # noqa: BLE001
                got = f"exception:{type(e).__name__}"
            lines += ["dump", "dump"]
            out += [base.dump_impl(acl) if got == "raised" else f"malformed {op['what']} request answered {got}", base.dump_impl(acl)]
        elif k == "setimp":
            acl.implicit_action = ACLAction[op["value"]]
            lines.append(f"setimp {op['value']}")
            out.append("ok")
        elif k == "setmax":
            acl.max_acl_rules = op["value"]
            lines.append(f"setmax {op['value']}")
            out.append("ok")
        elif k == "describe":
            lines += ["describe", "dump", "dump"]
            out += [describe_impl(acl), base.dump_impl(acl), dump_described(acl)]
        elif k == "show":
            lines.append("show")
            out.append(show_impl(acl))
        else:
            raise ValueError(k)
    lines.append("dumpall")
    out.append(dumpall_impl(lists, UNTOUCHED))
    for lst in lists:  # what describe_state() and show() report at the end, for every list
        lines += [f"sel {lst}", "describe", "dump", "show"]
        out += ["ok", describe_impl(lists[lst]), dump_described(lists[lst]), show_impl(lists[lst])]
    return out, lines


# ------------------------------------------------------------------------------------------ family dev
def make_injected(x, op: dict):
    from primaite.simulator.network.protocols.arp import ARPPacket
    from primaite.simulator.network.protocols.icmp import ICMPPacket
    from primaite.simulator.network.transmission.data_link_layer import EthernetHeader, Frame
    from primaite.simulator.network.transmission.network_layer import IPPacket
    from primaite.simulator.network.transmission.transport_layer import TCPHeader, UDPHeader
    kw = {}
    if op["hdr"] == "tcp":
        kw["tcp"] = TCPHeader(src_port=op["sport"], dst_port=op["dport"])
    elif op["hdr"] == "udp":
        kw["udp"] = UDPHeader(src_port=op["sport"], dst_port=op["dport"])
    if op["proto"] == "icmp":
        kw["icmp"] = ICMPPacket()
    payload = "data"
    if op["arp"]:
        payload = ARPPacket(sender_mac_addr="aa:bb:cc:00:00:99", sender_ip_address=IPv4Address(op["src"]),
                            target_ip_address=IPv4Address(op["dst"]))
    iface = x.network_interface[op["port"] + 1]
    return Frame(ethernet=EthernetHeader(src_mac_addr="aa:bb:cc:00:00:99", dst_mac_addr=iface.mac_address),
                 ip=IPPacket(src_ip_address=IPv4Address(op["src"]), dst_ip_address=IPv4Address(op["dst"]), protocol=op["proto"]),
                 payload=payload, **kw), iface


def run_dev(case: dict) -> Tuple[List[str], List[str], List[str]]:
    """Returns (implementation answers, model lines, oracle complaints); run statistics are left in case["_stats"]."""
    from primaite.simulator.network.hardware.nodes.network.router import ACLAction, AccessControlList, Router
    kind = case["kind"]
    names: Dict[int, str] = {}
    dev: Dict[str, object] = {}
    lines, out, complaints = ["reset", "fw 25" if kind == "firewall" else "rt 25"], ["ok", "ok"], []
    raised: List[str] = []
    stats = {"pings_ok": 0, "pings_failed": 0, "frames": 0, "denies": 0, "exempt": 0}
    log: List[tuple] = []
    real_isp = AccessControlList.is_permitted
    real_rx = Router.receive_frame

    def isp(self, frame):
        try:
            permitted, rule = real_isp(self, frame)
        except Exception as e:  # noqa: BLE001 - the list raised while evaluating its rules: recorded as its answer on this frame
            log.append(("isp", self, id(frame), frame_view(frame), None, f"exception:{type(e).__name__}"))
            raise
        log.append(("isp", self, id(frame), frame_view(frame), permitted, who_of(self, rule)))
        return permitted, rule

    def rx(self, frame, from_network_interface):
        if type(self).__name__ in ("Router", "WirelessRouter"):
            log.append(("rx", id(frame), frame_view(frame)))
        return real_rx(self, frame, from_network_interface)

    def flush() -> int:
        """turn the recorded events into aligned model lines / implementation answers; returns the number of denies"""
        denies = 0
        k = 0
        for j, e in enumerate(log):  # list objects -> names (only known once the device is built)
            if e[0] == "isp" and not isinstance(e[1], str):
                log[j] = (e[0], names.get(id(e[1]), "?"),) + e[2:]
        while k < len(log):
            e = log[k]
            if e[0] == "rx":  # a plain router: did the frame reach the list?
                nxt = log[k + 1] if k + 1 < len(log) else None
                lines.append("sel router")
                out.append("ok")
                lines.append(frame_line("router", e[2]))
                if nxt is not None and nxt[0] == "isp" and nxt[2] == e[1]:
                    out.append(nxt[5] if nxt[4] is None else f"{1 if nxt[4] else 0} {nxt[5]}")
                    denies += 0 if nxt[4] else 1
                    k += 2
                else:
                    out.append("1 exempt")
                    stats["exempt"] += 1
                    k += 1
            else:
                lines.append(f"sel {e[1]}")
                out.append("ok")
                lines.append(frame_line("list", e[3]))
                out.append(e[5] if e[4] is None else f"{1 if e[4] else 0} {e[5]}")
                denies += 0 if e[4] else 1
                k += 1
        n = len(log)
        log.clear()
        stats["frames"] += n
        stats["denies"] += denies
        return denies, n

    patches = [mock.patch.object(AccessControlList, "is_permitted", isp)]
    if kind in ("router", "wireless"):
        patches.append(mock.patch.object(Router, "receive_frame", rx))
    with contextlib.ExitStack() as st:
        for p in patches:
            st.enter_context(p)
        net, x, hosts, lists = build_device(kind)  # the traffic of the build (host announcements) is recorded as well
        names.update({id(a): n for n, a in lists.items()})
        flush()
        for op in case["ops"]:
            k = op["op"]
            if k in ("add", "remove"):
                lines += [f"sel {op['list']}", edit_line(op)]
                out += ["ok", apply_edit(lists[op["list"]], op, op["list"], net)]
            elif k == "setimp":
                lists[op["list"]].implicit_action = ACLAction[op["value"]]
                lines += [f"sel {op['list']}", f"setimp {op['value']}"]
                out += ["ok", "ok"]
            elif k == "ping":
                blew = False
                try:
                    ok = bool(hosts[op["src"]].ping(f"10.0.{op['dst'] + 1}.2"))
                except Exception:  # noqa: BLE001 - raised inside a list (recorded by `isp` as that list's answer) or above it
                    ok, blew = False, True
                denies, n = flush()
                stats["pings_ok" if ok else "pings_failed"] += 1
                if not blew and ok != (denies == 0 and n > 0):
                    complaints.append(f"ping H{op['src']}->H{op['dst']} returned {ok} but {denies} of {n} verdicts on its frames were DENY")
            elif k == "inject":
                frame, iface = make_injected(x, op)
                try:
                    x.receive_frame(frame, iface)
                except Exception as e:  # noqa: BLE001 - software above the filter choking on a synthetic payload (after the
                    # verdict, which is recorded): not C07's subject; counted, never hidden
                    raised.append(f"{type(e).__name__}:{op['proto']}/{op['dport']}/arp={int(op['arp'])}")
                flush()
            else:
                raise ValueError(k)
    lines.append("dumpall")
    out.append(dumpall_impl(lists, UNTOUCHED))
    case["_stats"] = dict(stats, raised=raised)
    return out, lines, complaints


# ------------------------------------------------------------------------------------------ family wf
def run_wf() -> Tuple[List[str], List[str]]:
    from primaite.simulator.network.protocols.icmp import ICMPPacket
    from primaite.simulator.network.transmission.data_link_layer import EthernetHeader, Frame
    from primaite.simulator.network.transmission.network_layer import IPPacket
    from primaite.simulator.network.transmission.transport_layer import TCPHeader, UDPHeader
    import logging
    out, lines = [], []
    prev = logging.root.manager.disable
    logging.disable(logging.ERROR)  # every refusal is logged at ERROR by Frame.__init__
    try:
        _wf_loop(out, lines, Frame, EthernetHeader, IPPacket, TCPHeader, UDPHeader, ICMPPacket)
    finally:
        logging.disable(prev)
    return out, lines


def _wf_loop(out, lines, Frame, EthernetHeader, IPPacket, TCPHeader, UDPHeader, ICMPPacket):
    for proto in base.PROTOS:
        for tcp in (False, True):
            for udp in (False, True):
                for icmp in (False, True):
                    kw = {}
                    if tcp:
                        kw["tcp"] = TCPHeader(src_port=1, dst_port=2)
                    if udp:
                        kw["udp"] = UDPHeader(src_port=3, dst_port=4)
                    if icmp:
                        kw["icmp"] = ICMPPacket()
                    try:
                        f = Frame(ethernet=EthernetHeader(src_mac_addr="aa:bb:cc:dd:ee:01", dst_mac_addr="aa:bb:cc:dd:ee:02"),
                                  ip=IPPacket(src_ip_address=IPv4Address("1.1.1.1"), dst_ip_address=IPv4Address("2.2.2.2"), protocol=proto), **kw)
                        out.append("1")
                    except ValueError:
                        out.append("0")
                    lines.append(f"wf {proto} {'1 2' if tcp else '- -'} {'3 4' if udp else '- -'} {1 if icmp else 0}")
