"""R-edits: the tree edits the code performs as components come and go, against the model's `addKey` / `removeKey`
(Model/Schema.lean; Props/C05Inst.lean proves that those edits keep the instance relation `Inst`).

Each operation is performed on REAL objects (requests where an agent-reachable request exists, the Python API otherwise):
install / uninstall of an application (request), install / uninstall of a service (API), connect / disconnect of a NIC (API),
create folder / file, delete file / folder, restore file / folder (requests), add / remove of a node (API).  The whole request
tree is photographed before and after as  path -> (identity of the RequestType, identity of its target, validator class);
the rig checks

* LOCALITY   — every path that does not pass through (edited manager, key) is untouched (same RequestType object);
* ADD        — after an add the key leads to the new component's OWN root manager and its edge carries no rule;
* REMOVE     — after a remove no path through the key is left ("routes never dangle");
* NO-EDIT    — delete of a file / folder edits nothing (the key stays, guarded by the exists / not-deleted rules);
* ORDER      — the key order of the edited manager equals `addKey` / `removeKey` of the model on the order before
               (asked from `drv_c05 edit`), i.e. dictionary assignment overwrites in place, else appends.
"""
from __future__ import annotations

from typing import Any, Dict, List, Optional, Tuple

from harness.lib.core import Ctx, Rng, run_driver
from harness.rigs import request as rreq

EXE = "drv_c05"


def photo(sim) -> Dict[Tuple, Tuple]:
    from primaite.simulator.core import RequestManager
    out: Dict[Tuple, Tuple] = {}

    def walk(rm, path, depth):
        if depth > 25:
            return
        for k, rt in rm.request_types.items():
            p = path + (k,)
            is_mgr = isinstance(rt.func, RequestManager)
            out[p] = (id(rt), id(rt.func) if is_mgr else "leaf", type(rt.validator).__name__)
            if is_mgr:
                walk(rt.func, p, depth + 1)
    walk(sim._request_manager, (), 0)
    return out


def mgr_at(sim, path: Tuple):
    cur = sim._request_manager
    for k in path:
        cur = cur.request_types[k].func
    return cur


class EditCheck:
    def __init__(self, ctx: Ctx, label: str):
        self.ctx, self.label = ctx, label
        self.bad: List[str] = []
        self.order_lines: List[str] = []
        self.order_expect: List[Tuple[str, List[str]]] = []
        self.keep: List[Any] = []

    def run(self, sim, what: str, kind: str, mpath: Tuple, key: Any, op, component_of=None):
        """kind in add | remove | none. `op()` performs the real operation; `component_of()` (after) returns the component whose
        root manager the key must lead to."""
        before = photo(sim)
        try:
            keys_before = list(mgr_at(sim, mpath).request_types.keys())
        except KeyError:
            self.ctx.count(f"edits:skipped:{what}")
            return
        self.keep.append(before)
        try:
            res = op()
        except Exception as e:
            if what.endswith("(api)"):   # an API-level call refused by the code (e.g. re-installing the database service over its
                self.ctx.count(f"edits:api-call-raised:{what}")   # own left-over file): not a request, not an edit
                return
            self.bad.append(f"{self.label}: {what}: operation raised {type(e).__name__}: {str(e)[:80]}")
            return
        after = photo(sim)
        keys_after = list(mgr_at(sim, mpath).request_types.keys())
        self.ctx.count(f"edits:{what}")
        self.ctx.cov["evaluations"] += 1
        through = mpath + (key,)
        n = len(through)
        outside_b = {p: v for p, v in before.items() if p[:n] != through}
        outside_a = {p: v for p, v in after.items() if p[:n] != through}
        # installing software may create ITS OWN folders / files (further add-edits below the same node's file system): old
        # paths must be untouched; new paths outside the edited key are only accepted there, and only for an add
        changed = {p for p in outside_b if outside_a.get(p) != outside_b[p]}
        extra = {p for p in outside_a if p not in outside_b}
        # (the database service creates its folder and file and installs the ftp client it depends on): secondary ADD edits
        # below the same node are accepted for an add — old paths must be untouched in any case
        node_prefix = mpath[:3] if len(mpath) >= 3 and mpath[:2] == ("network", "node") else None
        extra_bad = {p for p in extra if kind != "add" or node_prefix is None or p[:3] != node_prefix
                     or p[3] not in ("file_system", "service", "application")}
        if extra - extra_bad:
            self.ctx.count("edits:secondary-adds-below-the-same-node", len(extra - extra_bad))
        if changed or extra_bad:
            self.bad.append(f"{self.label}: {what}: paths outside {through} changed: {sorted(changed | extra_bad, key=str)[:3]}")
        if kind == "add":
            comp = component_of() if component_of else None
            if through not in after:
                self.bad.append(f"{self.label}: {what}: key {key!r} not registered at {mpath}")
            elif comp is not None and after[through][1] != id(comp._request_manager):
                self.bad.append(f"{self.label}: {what}: key {key!r} does not lead to the component's own root manager")
            elif after[through][2] != "AllowAllValidator":
                self.bad.append(f"{self.label}: {what}: dynamic edge carries {after[through][2]}")
            self.order(keys_before, "add", key, keys_after, what)
        elif kind == "remove":
            left = [p for p in after if p[:n] == through]
            if left:
                self.bad.append(f"{self.label}: {what}: {len(left)} route(s) through {through} left dangling")
            self.order(keys_before, "remove", key, keys_after, what)
        else:
            if {p: v for p, v in before.items()} != {p: v for p, v in after.items()}:
                self.bad.append(f"{self.label}: {what}: the request tree changed although the model edits nothing")
        return res

    def order(self, keys_before, op, key, keys_after, what):
        if op == "add":   # keys registered by secondary adds (dependencies) come after; the model speaks about the primary key
            keys_after = [k for k in keys_after if k in keys_before or k == key]
        self.order_lines.append(f"edit {op} " + " ".join(rreq.enc(k) for k in keys_before) + " -- " + rreq.enc(key))
        self.order_expect.append((what, [rreq.enc(k) for k in keys_after]))

    def finish(self):
        if self.order_lines:
            out = run_driver(EXE, self.order_lines)
            for (what, want), line in zip(self.order_expect, out):
                got = line.split() if line else []
                if got != want:
                    self.bad.append(f"{self.label}: {what}: key order after the edit {want} vs model {got}")
        return self.bad


def exercise(ctx: Ctx, label: str, sim, rng: Rng) -> List[str]:
    import primaite.game.game  # noqa: F401
    from primaite.simulator.network.hardware.nodes.host.computer import Computer
    from primaite.simulator.network.hardware.nodes.host.host_node import NIC
    from primaite.simulator.system.applications.application import Application
    from primaite.simulator.system.services.service import Service
    ec = EditCheck(ctx, label)
    hosts = [n for n in sim.network.nodes.values() if type(n).__name__ in ("Computer", "Server") and n.operating_state.name == "ON"]
    for node in rng.shuffle(hosts)[:2]:
        h = node.config.hostname
        base = ["network", "node", h]
        npath = ("network", "node", h)
        sm = node.software_manager
        # ---- applications: install / uninstall by request
        for name in rng.shuffle(sorted(Application._registry))[:3]:
            if name in sm.software:
                ec.run(sim, "app-uninstall(request)", "remove", npath + ("application",), name,
                       lambda: sim.apply_request(base + ["software_manager", "application", "uninstall", name]))
            ec.run(sim, "app-install(request)", "add", npath + ("application",), name,
                   lambda: sim.apply_request(base + ["software_manager", "application", "install", name]),
                   lambda: sm.software.get(name))
            if rng.chance(1, 2):
                ec.run(sim, "app-uninstall(request)", "remove", npath + ("application",), name,
                       lambda: sim.apply_request(base + ["software_manager", "application", "uninstall", name]))
        # ---- services: install / uninstall through the API (no agent action does it)
        for name in rng.shuffle(sorted(Service._registry))[:3]:
            if name in ("arp", "icmp", "user-manager", "user-session-manager", "terminal"):
                continue
            cls = Service._registry[name]
            if name in sm.software:
                ec.run(sim, "service-uninstall(api)", "remove", npath + ("service",), name, lambda: sm.uninstall(name))
            ec.run(sim, "service-install(api)", "add", npath + ("service",), name, lambda: sm.install(cls),
                   lambda: sm.software.get(name))
            if rng.chance(1, 2):
                ec.run(sim, "service-uninstall(api)", "remove", npath + ("service",), name, lambda: sm.uninstall(name))
        # ---- NICs
        try:
            nic = NIC(ip_address=f"10.250.{rng.range(1, 200)}.{rng.range(2, 200)}", subnet_mask="255.255.255.0")
            num = len(node.network_interfaces) + 1
            ec.run(sim, "nic-connect(api)", "add", npath + ("network_interface",), num, lambda: node.connect_nic(nic), lambda: nic)
            ec.run(sim, "nic-disconnect(api)", "remove", npath + ("network_interface",), num, lambda: node.disconnect_nic(nic))
        except Exception as e:
            ctx.notes.append(f"R-edits: NIC edit skipped on {h}: {type(e).__name__}")
        # ---- folders and files
        fs = node.file_system
        fpath = npath + ("file_system", "folder")
        d = f"edit_dir_{rng.below(1000)}"
        ec.run(sim, "folder-create(request)", "add", fpath, d, lambda: sim.apply_request(base + ["file_system", "create", "folder", d]),
               lambda: fs.get_folder(d))
        ec.run(sim, "file-create(request)", "add", fpath + (d, "file"), "e.txt",
               lambda: sim.apply_request(base + ["file_system", "create", "file", d, "e.txt", False]),
               lambda: fs.get_file(d, "e.txt"))
        ec.run(sim, "file-delete(request)", "none", fpath + (d, "file"), "e.txt",
               lambda: sim.apply_request(base + ["file_system", "delete", "file", d, "e.txt"]))
        ec.run(sim, "file-recreate(request)", "add", fpath + (d, "file"), "e.txt",
               lambda: sim.apply_request(base + ["file_system", "create", "file", d, "e.txt", False]),
               lambda: fs.get_file(d, "e.txt"))
        ec.run(sim, "file-delete(request)", "none", fpath + (d, "file"), "e.txt",
               lambda: sim.apply_request(base + ["file_system", "delete", "file", d, "e.txt"]))
        ec.run(sim, "file-restore(request)", "add", fpath + (d, "file"), "e.txt",
               lambda: sim.apply_request(base + ["file_system", "restore", "file", d, "e.txt"]),
               lambda: fs.get_file(d, "e.txt"))
        ec.run(sim, "folder-delete(request)", "none", fpath, d, lambda: sim.apply_request(base + ["file_system", "delete", "folder", d]))
        ec.run(sim, "folder-restore(request)", "add", fpath, d, lambda: sim.apply_request(base + ["file_system", "restore", "folder", d]),
               lambda: fs.get_folder(d))
    # ---- nodes
    try:
        pc = Computer.from_config(config={"type": "computer", "hostname": f"edit_pc_{rng.below(1000)}", "ip_address": "10.251.0.9",
                                          "subnet_mask": "255.255.255.0", "start_up_duration": 0})
        name = pc.config.hostname
        ec.run(sim, "node-add(api)", "add", ("network", "node"), name, lambda: sim.network.add_node(pc), lambda: pc)
        ec.run(sim, "node-remove(api)", "remove", ("network", "node"), name, lambda: sim.network.remove_node(pc))
    except Exception as e:
        ctx.notes.append(f"R-edits: node edit skipped: {type(e).__name__}: {str(e)[:80]}")
    return ec.finish()


# ------------------------------------------------------------------------------------------ construction orders
def construction_orders(ctx: Ctx, label: str, sim, rng: Rng) -> List[dict]:
    """`exists ⇒ route exists` for construction orders the model quantifies over (Props/C05Sites.lean): a node is built and
    stays OFF (or is SHUTTING_DOWN / BOOTING) while a NIC is connected, a service and an application are installed, a folder
    and a file are created, some are removed again, and the node itself is added to the network; then it is powered on and
    the independent structure oracle (object graph vs request tree) must find every component routed, to ITS OWN manager, and
    no stale route.  Every step goes through the Python API (requests are refused while a node is not ON)."""
    import primaite.game.game  # noqa: F401
    from primaite.simulator.network.hardware.nodes.host.computer import Computer
    from primaite.simulator.network.hardware.nodes.host.host_node import NIC
    from primaite.simulator.network.hardware.nodes.host.server import Server
    from primaite.simulator.system.applications.application import Application
    from primaite.simulator.system.services.service import Service
    found: List[dict] = []
    orders = [("off-then-on", 0), ("shutting-down", 1), ("booting", 2)]
    for oname, mode in orders:
        cls = rng.choice([Computer, Server])
        host = f"order_{oname}_{rng.below(1000)}"
        ops: List[str] = []
        try:
            node = cls.from_config(config={"type": "computer" if cls is Computer else "server", "hostname": host,
                                           "ip_address": f"10.252.{rng.range(1, 200)}.9", "subnet_mask": "255.255.255.0",
                                           "start_up_duration": 2, "shut_down_duration": 2})
            if mode == 1:
                node.power_on()
                for t in range(4):
                    node.apply_timestep(t)
                node.power_off()
                ops += ["power_on", "tick*4", "power_off"]
            elif mode == 2:
                node.power_on()
                ops.append("power_on")
            state_at_edit = node.operating_state.name
            sim.network.add_node(node)
            ops.append(f"network.add_node [{state_at_edit}]")
            nic = NIC(ip_address=f"10.253.{rng.range(1, 200)}.9", subnet_mask="255.255.255.0")
            node.connect_nic(nic)
            ops.append("connect_nic")
            svc = rng.choice(["ftp-server", "dns-server", "ntp-server", "web-server"])
            app = rng.choice(["nmap", "dos-bot", "ransomware-script", "c2-beacon"])
            for name, reg in ((svc, Service._registry), (app, Application._registry)):
                if name not in node.software_manager.software:
                    node.software_manager.install(reg[name])
                    ops.append(f"install {name}")
            node.file_system.create_folder("built_off")
            node.file_system.create_file(file_name="f.txt", folder_name="built_off")
            ops += ["create_folder built_off", "create_file built_off/f.txt"]
            if rng.chance(1, 2):
                node.software_manager.uninstall(app)
                ops.append(f"uninstall {app}")
            if rng.chance(1, 2):
                node.disconnect_nic(nic)
                ops.append("disconnect_nic")
            for t in range(12):
                if node.operating_state.name == "OFF":
                    node.power_on()
                    ops.append("power_on")
                if node.operating_state.name == "ON":
                    break
                node.apply_timestep(100 + t)
            ops.append(f"ticks until {node.operating_state.name}")
        except Exception as e:
            ctx.notes.append(f"R-edits construction order {oname} skipped in {label}: {type(e).__name__}: {str(e)[:80]}")
            continue
        ctx.count(f"edits:construction-order:{oname}:{state_at_edit}")
        ctx.cov["evaluations"] += 1
        for mm in rreq.structure_mismatches(sim):
            if mm.get("where", "").split(":")[0] == host or mm.get("key") == host:
                found.append({"order": oname, "state_at_edit": state_at_edit, "ops": ops, "mismatch": mm, "node_class": cls.__name__})
        # the routes must also ANSWER: enable/disable of every NIC that exists is not `unreachable` once the node is ON
        if node.operating_state.name == "ON":
            for num in list(node.network_interface):
                r = sim.apply_request(["network", "node", host, "network_interface", num, "disable"])
                if getattr(r, "status", None) == "unreachable":
                    found.append({"order": oname, "state_at_edit": state_at_edit, "ops": ops, "node_class": cls.__name__,
                                  "mismatch": {"kind": "existing-nic-unreachable", "level": "network_interface", "key": str(num)}})
    return found
