"""R-fs: drive the real FileSystem (directly, under a node in a Simulation, and through the agent actions'
`form_request`) and the Lean model (Drivers/C15.lean) with the same operation sequences; after every operation
compare the response status and the whole structure: live/deleted folders and files in dictionary order, `deleted`
flags, restore countdown/duration, the name-keyed request routes, the per-tick counters.

An operation is a list: [kind, args…]
    cfile F x force     ["create","file",F,x,force]            (force: raw Python value; the model gets its truthiness)
    cfolder F           ["create","folder",F]
    dfile F x           ["delete","file",F,x]
    dfolder F           ["delete","folder",F]
    rfile F x           ["restore","file",F,x]
    rfolder F           ["restore","folder",F]
    access F x          ["access",F,x]
    fverb F v           ["folder",F,v]
    fdel F x            ["folder",F,"delete",x]
    xverb F x v         ["folder",F,"file",x,v]
    sverb F x v         ["file",F,x,v]
    pre / tick          pre_timestep / apply_timestep
    raw [path…]         any request path below file_system (truncated, over-long, misspelt): must answer like the model
    api_create F x force   FileSystem.create_file(file_name=x, folder_name=F, force=force)       (Python API)
    api_copy F x G / api_move F x G     FileSystem.copy_file / move_file
    api_add F x force   get_folder(F).add_file(File(name=x), force)
    api_dfid wf wx / api_dfoid wf / api_rmid wf wx   delete_file_by_id / delete_folder_by_id / Folder.remove_file_by_id; the
                        uuid is addressed by position: "L<k>" k-th live entry, "D<k>" k-th deleted entry, "X" none
    power k             (surface "net" only) ["network","node","pc",k], k in shutdown / startup / reset; the model is told the
                        power flag the real node shows afterwards (the power machine is C12's; here it is an input)
    osscan              ["network","node","pc","os","scan"]: starts the node scan, which ends in FileSystem.scan(instant_scan=True)
Names are plain tokens; "" (empty) is written "~" on the model's wire.

Surfaces: "fs" a bare FileSystem; "node" / "action" a powered-on Computer in a Simulation (requests with the node prefix /
agent actions' form_request); "net" a Computer wired to a switch and a second computer, driven ONLY through
`sim.pre_timestep / sim.apply_request / sim.apply_timestep`, with power requests interleaved (case["node"] = start-up /
shut-down / node-scan durations, initial power state, whether file operations go through the agent actions).
"""
from __future__ import annotations

import itertools
import re
from typing import Dict, List, Optional, Tuple

from harness.lib.core import Rng

VERBS = ["scan", "checkhash", "repair", "restore", "corrupt"]
FOLDERS = ["fa", "fb", "root", ""]
FILES = ["a", "b", "a.txt", "scan", "restore", "root", "fa"]
FORCE_VALUES = [False, True, "create", "false", "", 0, 1, "True"]

# op kind -> action discriminator (only on the node surface)
FILE_ACTION = {v: f"node-file-{v}" for v in VERBS}
FOLDER_ACTION = {v: f"node-folder-{v}" for v in ("scan", "checkhash", "repair", "restore")}
API_WIRE = {"api_create": "create", "api_copy": "copy", "api_move": "move", "api_add": "add", "api_dfid": "dfid",
            "api_dfoid": "dfoid", "api_rmid": "rmid"}


def w(n: str) -> str:
    return "~" if n == "" else n


# ------------------------------------------------------------------------------------------ model side
HEAD = 3  # protocol lines before the first operation: reset, new, node


def op_line(op: list, flag: Optional[int] = None) -> str:
    """The real request path, space separated ("~" = empty name, force as Python truthiness 1/0); ticks by name.
    `flag` = the power flag the real node showed after the operation (surface "net": ticks and power requests)."""
    if op[0] == "tick" and flag is not None:
        return f"tick {flag}"
    if op[0] in ("pre", "tick", "osscan", "setup"):
        return op[0]
    if op[0] == "load":
        return "load " + cfg_spec(op[1])
    if op[0] == "power":
        return f"power {1 if flag is None else flag}"
    if op[0] == "raw":
        return " ".join(["req"] + [w(str(t)) for t in op[1]])
    if op[0].startswith("api_"):
        args = list(op[1:])
        if op[0] in ("api_create", "api_add"):
            args[2] = "1" if args[2] else "0"
        return " ".join(["api", API_WIRE[op[0]]] + [w(str(t)) for t in args])
    req = _request(op)
    if op[0] == "cfile":
        req = req[:4] + ["1" if req[4] else "0"]
    return " ".join(["req"] + [w(str(t)) for t in req])


def stored_name(name: str, ftype: Optional[str]) -> str:
    """The name a configured file's `File` object takes (File.__init__): an extension-less name gets `.<type>` appended."""
    if "." in name or not ftype or ftype.upper() == "UNKNOWN":
        return name
    return f"{name}.{ftype.lower()}"


def cfg_spec(config: List[dict]) -> str:
    if not config:
        return "-"
    return ";".join("|".join([w(fo["folder_name"])] + [f"{w(fi['file_name'])}>{w(stored_name(fi['file_name'], fi.get('type')))}"
                                                      for fi in fo.get("files", [])]) for fo in config)


def model_lines(case: dict, flags: Optional[List[Optional[int]]] = None) -> List[str]:
    """`flags[i]` = power flag observed on the real node after op i (None where the model needs none)."""
    d, sc = case.get("restore_duration"), case.get("scan_duration")
    nd = case.get("node") or {}
    flags = flags or [None] * len(case["ops"])
    return (["reset", f"new {'-' if d is None else d} {'-' if sc is None else sc}",
             f"node {1 if nd.get('on', True) else 0} {nd.get('nscan', 10)}"]
            + [op_line(op, fl) for op, fl in zip(case["ops"], flags)])


# ------------------------------------------------------------------------------------------ canonical form
_ROUTES = re.compile(r"\{([^}]*)\}")
_ID = re.compile(r"#([0-9a-f\-]+)")


def _norm_routes(m: re.Match) -> str:
    seen: Dict[str, str] = {}
    body = m.group(1)
    if body:
        for pair in body.split(","):
            name, ident = pair.split(">")
            seen.setdefault(name, ident)  # the newest registration comes first and shadows the rest
    return "{" + ",".join(f"{k}>{seen[k]}" for k in sorted(seen)) + "}"


def canon(lines: List[str]) -> List[str]:
    """Normalise route tables (effective mapping, sorted by name) and rename ids/uuids to first-seen indices."""
    ids: Dict[str, int] = {}
    out = []
    for ln in lines:
        ln = _ROUTES.sub(_norm_routes, ln)
        ln = _ID.sub(lambda m: "#%d" % ids.setdefault(m.group(1), len(ids)), ln)
        out.append(ln)
    return out


# ------------------------------------------------------------------------------------------ implementation side
def _request(op: list) -> list:
    k = op[0]
    if k == "cfile":
        return ["create", "file", op[1], op[2], op[3]]
    if k == "cfolder":
        return ["create", "folder", op[1]]
    if k == "dfile":
        return ["delete", "file", op[1], op[2]]
    if k == "dfolder":
        return ["delete", "folder", op[1]]
    if k == "rfile":
        return ["restore", "file", op[1], op[2]]
    if k == "rfolder":
        return ["restore", "folder", op[1]]
    if k == "access":
        return ["access", op[1], op[2]]
    if k == "fverb":
        return ["folder", op[1], op[2]]
    if k == "fdel":
        return ["folder", op[1], "delete", op[2]]
    if k == "xverb":
        return ["folder", op[1], "file", op[2], op[3]]
    if k == "sverb":
        return ["file", op[1], op[2], op[3]]
    raise ValueError(op)


def action_for(op: list) -> Optional[Tuple[str, dict]]:
    """The agent action (identifier, options) that denotes this operation, when there is one."""
    k = op[0]
    if k == "cfile" and isinstance(op[3], bool):
        return "node-file-create", {"folder_name": op[1], "file_name": op[2], "force": op[3]}
    if k == "cfolder":
        return "node-folder-create", {"folder_name": op[1]}
    if k == "dfile":
        return "node-file-delete", {"folder_name": op[1], "file_name": op[2]}
    if k == "access":
        return "node-file-access", {"folder_name": op[1], "file_name": op[2]}
    if k == "xverb" and op[3] in FILE_ACTION:
        return FILE_ACTION[op[3]], {"folder_name": op[1], "file_name": op[2]}
    if k == "fverb" and op[2] in FOLDER_ACTION:
        return FOLDER_ACTION[op[2]], {"folder_name": op[1]}
    return None


def registered_file_actions() -> set:
    """The file / folder actions the real action registry knows (every one of them must be driven by the rig)."""
    from primaite.game.agent.actions.abstract import AbstractAction
    import primaite.game.agent.actions  # noqa: F401
    return {k for k in AbstractAction._registry if k.startswith(("node-file-", "node-folder-"))}


def _file_s(f) -> str:
    return f"#{f.uuid}:{w(f.name)}:{1 if f.deleted else 0}:a{f.num_access}"


def _routes_s(rm, owners) -> str:
    by_rm = {id(o._request_manager): o.uuid for o in owners}
    return "{" + ",".join(f"{w(k)}>#{by_rm.get(id(rt.func), 'dangling')}" for k, rt in rm.request_types.items()) + "}"


def _folder_s(g, owners) -> str:
    return (f"#{g.uuid}:{w(g.name)}:{1 if g.deleted else 0}:{g.restore_countdown}/{g.restore_duration}:"
            f"s{g.scan_countdown}/{g.scan_duration}:("
            + ",".join(_file_s(f) for f in g.files.values()) + "):(" + ",".join(_file_s(f) for f in g.deleted_files.values())
            + "):" + _routes_s(g._file_request_manager, owners))


def dump_impl(fs, node=None) -> str:
    owners = list(fs.folders.values()) + list(fs.deleted_folders.values())
    # a file route may outlive the file's stay in that folder (move_file): resolve it over every file of the file system
    files = [f for g in owners for f in list(g.files.values()) + list(g.deleted_files.values())]
    return ("L[" + ";".join(_folder_s(g, files) for g in fs.folders.values()) + "] D["
            + ";".join(_folder_s(g, files) for g in fs.deleted_folders.values()) + "] R" + _routes_s(fs._folder_request_manager, owners)
            + f" c={fs.num_file_creations} d={fs.num_file_deletions}"
            + (" p=1/0" if node is None else f" p={1 if node.operating_state.name == 'ON' else 0}/{node.node_scan_countdown}"))


def oracle(fs, after_pre: bool) -> List[str]:
    """C15's own statement evaluated on the real objects (independent of the Lean model). Returns violated clauses."""
    bad = []
    live_names = [g.name for g in fs.folders.values()]
    if len(set(live_names)) != len(live_names):
        bad.append("live-folder-names-unique")
    if set(fs.folders) & set(fs.deleted_folders):
        bad.append("folder-both-live-and-deleted")
    if any(g.deleted for g in fs.folders.values()) or any(not g.deleted for g in fs.deleted_folders.values()):
        bad.append("folder-flag-matches-set")
    if any(k != g.uuid for k, g in list(fs.folders.items()) + list(fs.deleted_folders.items())):
        bad.append("folder-key-is-uuid")
    st = fs.describe_state()
    if sorted(st["folders"]) != sorted(live_names):
        bad.append("describe-live-folders")
    if set(st["deleted_folders"]) != {g.name for g in fs.deleted_folders.values()}:
        bad.append("describe-deleted-folders")
    if after_pre and (fs.num_file_creations != 0 or fs.num_file_deletions != 0
                      or st["num_file_creations"] != 0 or st["num_file_deletions"] != 0):
        bad.append("counters-zero-at-tick-start")
    owner_of = {}
    for g in list(fs.folders.values()) + list(fs.deleted_folders.values()):
        for f in list(g.files.values()) + list(g.deleted_files.values()):
            if owner_of.setdefault(f.uuid, g.uuid) != g.uuid:  # the hypothesis of C15_api_inv_step for move_file
                bad.append("file-in-two-folders")
    if after_pre and any(f.num_access != 0 for g in fs.folders.values() for f in g.files.values()):
        bad.append("num-access-zero-at-tick-start")
    for g in list(fs.folders.values()) + list(fs.deleted_folders.values()):
        names = [f.name for f in g.files.values()]
        if len(set(names)) != len(names):
            bad.append("live-file-names-unique")
        if set(g.files) & set(g.deleted_files):
            bad.append("file-both-live-and-deleted")
        if any(f.deleted for f in g.files.values()) or any(not f.deleted for f in g.deleted_files.values()):
            bad.append("file-flag-matches-set")
        if any(k != f.uuid for k, f in list(g.files.items()) + list(g.deleted_files.items())):
            bad.append("file-key-is-uuid")
        gs = g.describe_state()
        if sorted(gs["files"]) != sorted(names):
            bad.append("describe-live-files")
        if set(gs["deleted_files"]) != {f.name for f in g.deleted_files.values()}:
            bad.append("describe-deleted-files")
    return sorted(set(bad))


def describe_impl(fs) -> str:
    """The structural part of the real `describe_state()` in the driver's format (dict order as reported)."""
    st = fs.describe_state()

    def files(d):
        return "(" + ",".join(f"{w(k)}=#{v['uuid']}" for k, v in d.items()) + ")"

    def folders(d):
        return "[" + ";".join(f"{w(k)}=#{v['uuid']}:{files(v['files'])}:{files(v['deleted_files'])}" for k, v in d.items()) + "]"
    return (f"L{folders(st['folders'])} D{folders(st['deleted_folders'])} c={st['num_file_creations']} d={st['num_file_deletions']}")


class Impl:
    """One real file system on the chosen surface."""

    def __init__(self, surface: str, restore_duration: Optional[int], scan_duration: Optional[int] = None,
                 node: Optional[dict] = None):
        self.surface = surface
        self.t = 0
        self.pc = None
        self.via_actions = surface == "action"
        if surface == "cfg":
            # the node is built by the first operation (`load`): Computer.from_config with the configured folders
            from primaite.simulator.sim_container import Simulation
            self.sim = Simulation()
            self.fs = None
            return
        if surface == "net":
            # a small network: the computer under test, a switch, a second computer; everything goes through the simulation
            from primaite.simulator.network.hardware.nodes.host.computer import Computer
            from primaite.simulator.network.hardware.nodes.network.switch import Switch
            from primaite.simulator.sim_container import Simulation
            nd = node or {}
            self.sim = Simulation()
            cfg = {"type": "computer", "hostname": "pc", "ip_address": "192.168.1.2", "subnet_mask": "255.255.255.0",
                   "start_up_duration": nd.get("up", 3), "shut_down_duration": nd.get("down", 3),
                   "node_scan_duration": nd.get("nscan", 10)}
            if not nd.get("on", True):
                cfg["operating_state"] = "OFF"
            pc = Computer.from_config(cfg)
            sw = Switch.from_config({"type": "switch", "hostname": "sw", "num_ports": 4})
            pc2 = Computer.from_config({"type": "computer", "hostname": "pc2", "ip_address": "192.168.1.3",
                                        "subnet_mask": "255.255.255.0"})
            for n in (pc, sw, pc2):
                self.sim.network.add_node(n)
            self.sim.network.connect(pc.network_interface[1], sw.network_interface[1])
            self.sim.network.connect(pc2.network_interface[1], sw.network_interface[2])
            self.pc = pc
            self.fs = pc.file_system
            self.via_actions = bool(nd.get("actions"))
        elif surface == "fs":
            from pathlib import Path
            import tempfile
            from primaite.simulator.file_system.file_system import FileSystem
            from primaite.simulator.system.core.sys_log import SysLog
            self.fs = FileSystem(sys_log=SysLog("verif"), sim_root=Path(tempfile.gettempdir()) / "verif_c15")
            self.sim = None
        else:
            from primaite.simulator.network.hardware.nodes.host.computer import Computer
            from primaite.simulator.sim_container import Simulation
            self.sim = Simulation()
            pc = Computer.from_config({"type": "computer", "hostname": "pc", "ip_address": "192.168.1.2",
                                       "subnet_mask": "255.255.255.0", "start_up_duration": 0})
            self.sim.network.add_node(pc)
            pc.power_on()
            self.fs = pc.file_system
        if restore_duration is not None:  # as PrimaiteGame.from_config does for `folder_restore_duration`
            self.fs._default_folder_restore_duration = restore_duration
        if scan_duration is not None:
            self.fs._default_folder_scan_duration = scan_duration

    def _folder_at(self, wf: str):
        d = self.fs.folders if wf[:1] == "L" else self.fs.deleted_folders if wf[:1] == "D" else {}
        vals = list(d.values())
        k = int(wf[1:]) if wf[1:].isdigit() else -1
        return vals[k] if 0 <= k < len(vals) else None

    def _file_at(self, wf: str, wx: str):
        g = self._folder_at(wf)
        if g is None:
            return None
        d = g.files if wx[:1] == "L" else g.deleted_files if wx[:1] == "D" else {}
        vals = list(d.values())
        k = int(wx[1:]) if wx[1:].isdigit() else -1
        return vals[k] if 0 <= k < len(vals) else None

    def api(self, op: list) -> str:
        """A direct Python call; "success" = it returned."""
        k, fs = op[0], self.fs
        if k == "api_create":
            fs.create_file(file_name=op[2], folder_name=op[1], force=op[3])
        elif k == "api_copy":
            fs.copy_file(src_folder_name=op[1], src_file_name=op[2], dst_folder_name=op[3])
        elif k == "api_move":
            fs.move_file(src_folder_name=op[1], src_file_name=op[2], dst_folder_name=op[3])
        elif k == "api_add":
            g = fs.get_folder(op[1])
            if g is not None:
                from primaite.simulator.file_system.file import File
                g.add_file(File(name=op[2], file_type=None, folder_id=g.uuid, folder_name=g.name, sim_root=fs.sim_root,
                                sys_log=fs.sys_log), force=op[3])
        elif k == "api_dfid":
            g, f = self._folder_at(op[1]), self._file_at(op[1], op[2])
            fs.delete_file_by_id(folder_uuid=g.uuid if g else "no-such-folder", file_uuid=f.uuid if f else "no-such-file")
        elif k == "api_dfoid":
            g = self._folder_at(op[1])
            fs.delete_folder_by_id(folder_uuid=g.uuid if g else "no-such-folder")
        elif k == "api_rmid":
            g, f = self._folder_at(op[1]), self._file_at(op[1], op[2])
            if g is not None and g.uuid in fs.folders:
                g.remove_file_by_id(f.uuid if f else "no-such-file")
        else:
            raise ValueError(op)
        return "success"

    def power_flag(self) -> Optional[int]:
        return None if self.pc is None else (1 if self.pc.operating_state.name == "ON" else 0)

    def reported(self, state: Optional[dict] = None) -> dict:
        """`file_system` as the simulation reports it for this node (what the game and the observations read)."""
        if self.pc is None:
            return self.fs.describe_state()
        state = state if state is not None else self.sim.describe_state()
        return state.get("network", {}).get("nodes", {}).get("pc", {}).get("file_system") or {}

    def host_observation(self, state: Optional[dict] = None) -> Optional[dict]:
        """What an agent's HostObservation of this node shows (surface "net"), read from the simulation state as the game does."""
        if self.pc is None:
            return None
        if getattr(self, "_hostobs", None) is None:
            from primaite.game.agent.observations.host_observations import HostObservation
            self._hostobs = HostObservation(
                where=["network", "nodes", "pc"], services=[], applications=[], folders=[], network_interfaces=[], num_services=0,
                num_applications=0, num_folders=0, num_files=0, num_nics=0, include_nmne=False, monitored_traffic=None,
                include_num_access=True, file_system_requires_scan=False, services_requires_scan=False,
                applications_requires_scan=False, include_users=False)
        return self._hostobs.observe(state if state is not None else self.sim.describe_state())

    def apply(self, op: list) -> str:
        k = op[0]
        if k == "load":  # HostNode.__init__ walks the configured folders; an exception leaves no node
            from primaite.simulator.network.hardware.nodes.host.computer import Computer
            pc = Computer.from_config({"type": "computer", "hostname": "pc", "ip_address": "192.168.1.2", "subnet_mask": "255.255.255.0",
                                       "start_up_duration": 0, "shut_down_duration": 0, "folders": op[1]})
            self.sim.network.add_node(pc)
            self.pc, self.fs = pc, pc.file_system
            return "success"
        if k == "setup":  # Simulation -> Network -> Node -> FileSystem.setup_for_episode
            self.sim.setup_for_episode(episode=0)
            return "success"
        if k == "power":  # the answer of a power request is C12's matter; the model is told the resulting flag
            self.sim.apply_request(["network", "node", "pc", op[1]])
            return "success"
        if k == "osscan":
            return self.sim.apply_request(["network", "node", "pc", "os", "scan"]).status
        if k == "pre":
            (self.sim or self.fs).pre_timestep(self.t)
            return "success"
        if k == "tick":
            (self.sim or self.fs).apply_timestep(self.t)
            self.t += 1
            return "success"
        if k.startswith("api_"):
            return self.api(op)
        if k == "raw":
            if self.sim is None:
                return self.fs.apply_request(list(op[1])).status
            return self.sim.apply_request(["network", "node", "pc", "file_system"] + list(op[1])).status
        if self.sim is None:
            return self.fs.apply_request(_request(op)).status
        act = action_for(op) if self.via_actions else None
        if act is not None:
            from primaite.game.agent.actions.abstract import AbstractAction
            import primaite.game.agent.actions  # noqa: F401  (registers the action classes)
            cls = AbstractAction._registry[act[0]]
            req = cls.form_request(cls.ConfigSchema(node_name="pc", **act[1]))
        else:
            req = ["network", "node", "pc", "file_system"] + _request(op)
        return self.sim.apply_request(req).status


def _tally_delta(impl: "Impl", op: list) -> Optional[Tuple[int, int]]:
    """(creations, deletions) a direct API call is going to count, judged on the real objects BEFORE the call."""
    k, fs = op[0], impl.fs
    if k in ("api_copy", "api_move"):
        f = fs.get_file(folder_name=op[1], file_name=op[2])
        if f is None:
            return (0, 0)
        if k == "api_copy":
            return (1, 0)
        dst = fs.get_folder(op[3])
        return (0, 0) if (dst is not None and dst.get_file(f.name) is not None) else (1, 1)
    if k == "api_dfid":
        g, f = impl._folder_at(op[1]), impl._file_at(op[1], op[2])
        return (0, 1) if (g is not None and f is not None and g.uuid in fs.folders and f.uuid in g.files) else (0, 0)
    if k in ("api_add", "api_dfoid", "api_rmid"):
        return (0, 0)
    return None  # api_create: known from the answer


def _corrupt_deleted(fs) -> Tuple[set, set]:
    """uuids of files / folders that are CORRUPT and deleted at once (the health x deletion corner)."""
    folders = list(fs.folders.values()) + list(fs.deleted_folders.values())
    files = {f.uuid for g in folders for f in list(g.files.values()) + list(g.deleted_files.values())
             if f.deleted and f.health_status.name == "CORRUPT"}
    return files, {g.uuid for g in folders if g.deleted and g.health_status.name == "CORRUPT"}


def run_impl(case: dict) -> Tuple[List[str], List[List[str]], List[Optional[int]], Dict[str, int]]:
    """Output lines aligned with model_lines(case, flags), the oracle's verdict after every operation, and the power flag
    the real node showed after every tick / power request (surface "net")."""
    impl = Impl(case["surface"], case.get("restore_duration"), case.get("scan_duration"), case.get("node"))
    out = ["ok"] * HEAD
    verdicts: List[List[str]] = []
    flags: List[Optional[int]] = []
    tally: Optional[List[int]] = [0, 0]  # successful creations / deletions since the last pre_timestep (None: not tracked)
    stats: Dict[str, int] = {}
    for op in case["ops"]:
        k = op[0]
        cd_files, cd_folders = _corrupt_deleted(impl.fs) if impl.fs is not None else (set(), set())
        if k == "rfolder" and impl.fs is not None:  # measured: a restore requested while an earlier restore is still counting down
            for g in impl.fs.deleted_folders.values():
                if g.name == op[1] and g.restore_countdown > 0:
                    key = "folder:restore-requested-on-a-deleted-folder-whose-countdown-is-frozen"
                    stats[key] = stats.get(key, 0) + 1
                    break
        delta = _tally_delta(impl, op) if k.startswith("api_") and k != "api_create" else None
        try:
            status = impl.apply(op)
        except Exception as e:  # a well-formed request must answer, not raise
            status = "raised"
            # a direct API call (and a refused configuration) may raise: there the answer is only compared; NO request path may
            # raise any more (F-C05-2: a handler that lacks an option is answered `failure`), malformed ones included
            verdicts.append([] if (k.startswith("api_") or k == "load") else ["raised:" + type(e).__name__])
            flags.append(impl.power_flag() if k in ("tick", "power") else None)
            out.append(status if impl.fs is None else f"{status} | {dump_impl(impl.fs, impl.pc)} | {describe_impl(impl.fs)}")
            if impl.fs is None:
                break  # the configuration was refused: there is no node to go on with
            continue
        flags.append(impl.power_flag() if k in ("tick", "power") else None)
        out.append(f"{status} | {dump_impl(impl.fs, impl.pc)} | {describe_impl(impl.fs)}")
        if cd_files or cd_folders:  # measured coverage of the health x deletion corner: who brought a corrupt deleted item back
            kind = k + (":" + str(op[-1]) if k in ("fverb", "xverb", "sverb") else "")
            stats["health:ops-with-a-corrupt-deleted-item-present"] = stats.get("health:ops-with-a-corrupt-deleted-item-present", 0) + 1
            live_files = {f.uuid for g in impl.fs.folders.values() for f in g.files.values()}
            back = len(cd_files & live_files)
            if back:
                stats[f"health:corrupt-deleted-file-made-live-by:{kind}"] = stats.get(f"health:corrupt-deleted-file-made-live-by:{kind}", 0) + back
            fback = len(cd_folders & set(impl.fs.folders))
            if fback:
                stats[f"health:corrupt-deleted-folder-made-live-by:{kind}"] = stats.get(f"health:corrupt-deleted-folder-made-live-by:{kind}", 0) + fback
        bad = oracle(impl.fs, after_pre=(k in ("pre", "setup")))
        # the counters count THIS tick's successful creations / deletions only (nothing left over from an earlier tick),
        # read where the game reads them: the node's entry in the simulation's describe_state()
        if k in ("pre", "setup"):
            tally = [0, 0]
        elif k == "load":
            tally = [sum(len(fo.get("files", [])) for fo in op[1]), 0]  # until setup_for_episode the configured files are counted
        elif k == "raw":
            tally = None  # an over-long path may still be a creation: not tracked until the next tick starts
        elif tally is not None:
            if k in ("cfile", "api_create") and status == "success":
                tally[0] += 1
            elif k == "dfile" and status == "success":
                tally[1] += 1
            elif delta is not None:
                tally[0] += delta[0]
                tally[1] += delta[1]
        if k in ("pre", "tick", "setup", "load") or impl.pc is None:
            sim_state = impl.sim.describe_state() if impl.pc is not None else None
            rep = (impl.reported(sim_state) if impl.pc is not None else
                   {"num_file_creations": impl.fs.num_file_creations, "num_file_deletions": impl.fs.num_file_deletions})
            if "num_file_creations" not in rep or "num_file_deletions" not in rep:
                bad.append("node-does-not-report-its-file-system")
            else:
                if k in ("pre", "setup") and (rep["num_file_creations"], rep["num_file_deletions"]) != (0, 0):
                    bad.append("reported-counters-zero-at-tick-start")
                if tally is not None and [rep["num_file_creations"], rep["num_file_deletions"]] != tally:
                    bad.append("counters-count-this-tick-only")
                if impl.pc is not None and (sorted(rep.get("folders", {})) != sorted(g.name for g in impl.fs.folders.values())
                                            or set(rep.get("deleted_folders", {})) != {g.name for g in impl.fs.deleted_folders.values()}):
                    bad.append("node-report-lists-other-folders")
            if impl.pc is not None and tally is not None:
                # what the agent sees: non-zero only for a node that is ON and only for this tick's operations (the encoding
                # of the count itself is C02's / C09's matter)
                ob = impl.host_observation(sim_state)
                on = impl.power_flag() == 1
                for key, cnt in (("num_file_creations", tally[0]), ("num_file_deletions", tally[1])):
                    if (ob.get(key, 0) != 0) != (on and cnt != 0):
                        bad.append("host-observation-shows-this-tick-only")
        verdicts.append(sorted(set(bad)))
    return out, verdicts, flags, stats


# ------------------------------------------------------------------------------------------ generation
def core_alphabet() -> List[list]:
    """The structural core on one folder name and one file name (bounded-exhaustive family A)."""
    return [["cfile", "fa", "a", False], ["cfile", "fa", "a", True], ["dfile", "fa", "a"], ["rfile", "fa", "a"],
            ["dfolder", "fa"], ["rfolder", "fa"], ["cfolder", "fa"], ["tick"], ["xverb", "fa", "a", "restore"],
            ["fverb", "fa", "restore"], ["fdel", "fa", "a"]]


def full_alphabet() -> List[list]:
    """12 operation kinds x 2 folder names x 2 file names (bounded-exhaustive family B)."""
    ops: List[list] = [["pre"], ["tick"]]
    for F in ("fa", "root"):
        ops += [["cfolder", F], ["dfolder", F], ["rfolder", F], ["fverb", F, "restore"], ["fverb", F, "scan"]]
        for x in ("a", "b"):
            ops += [["cfile", F, x, False], ["cfile", F, x, True], ["dfile", F, x], ["rfile", F, x], ["access", F, x],
                    ["fdel", F, x], ["xverb", F, x, "restore"], ["xverb", F, x, "corrupt"], ["sverb", F, x, "restore"]]
    return ops


def exhaustive(alphabet: List[list], depth: int):
    for seq in itertools.product(alphabet, repeat=depth):
        yield [list(o) for o in seq]


def graph_cases(alphabet: List[list], depth: int, restore_duration: Optional[int], run_model, stats: dict):
    """State-graph family: breadth-first over the MODEL's reachable states (canonical dump, uuids renamed per state), and from
    every distinct state reached in fewer than `depth` operations EVERY operation of the alphabet, along the first path found
    to that state. Yields the operation lists level by level; `stats` receives states / transitions per level.
    (Pruning assumes that the code's future behaviour is a function of the state the dump shows — which is what every
    yielded trace, compared step by step, keeps testing; the brute-force families do not rely on it.)"""
    seen = {"init"}
    frontier: List[list] = [[]]
    for d in range(1, depth + 1):
        cands = [p + [list(a)] for p in frontier for a in alphabet]
        lines: List[str] = []
        bounds = []
        for ops in cands:
            ls = model_lines({"surface": "fs", "restore_duration": restore_duration, "ops": ops})
            bounds.append(len(lines) + len(ls) - 1)
            lines += ls
        out = run_model(lines)
        new = []
        for ops, last in zip(cands, bounds):
            key = canon([out[last]])[0].split(" | ", 1)[1]
            if key not in seen:
                seen.add(key)
                new.append(ops)
        stats[d] = {"transitions": len(cands), "new_states": len(new), "states_so_far": len(seen)}
        for ops in cands:
            yield ops
        frontier = new


def gen_op(rng: Rng, folders: List[str], files: List[str]) -> list:
    F = rng.choice(folders)
    x = rng.choice(files)
    k = rng.below(100)
    if k < 16:
        return ["cfile", F, x, rng.choice(FORCE_VALUES) if rng.chance(1, 3) else rng.choice([False, False, True])]
    if k < 22:
        return ["cfolder", F]
    if k < 34:
        return ["dfile", F, x]
    if k < 41:
        return ["dfolder", F]
    if k < 51:
        return ["rfile", F, x]
    if k < 58:
        return ["rfolder", F]
    if k < 62:
        return ["access", F, x]
    if k < 70:
        return ["fverb", F, rng.choice(VERBS + ["restore", "restore", "zzz"])]
    if k < 75:
        return ["fdel", F, x]
    if k < 85:
        return ["xverb", F, x, rng.choice(VERBS + ["restore", "restore", "zzz", "delete"])]
    if k < 89:
        return ["sverb", F, x, rng.choice(VERBS + ["restore", "zzz"])]
    if k < 92:
        return ["pre"]
    return ["tick"]


def gen_api_op(rng: Rng, folders: List[str], files: List[str]) -> list:
    F, G, x = rng.choice(folders), rng.choice(folders), rng.choice(files)
    k = rng.below(100)

    def pos():
        return rng.choice(["L0", "L1", "L1", "L2", "D0", "D1", "X"])
    if k < 16:
        return ["api_create", F, x, rng.choice([False, True])]
    if k < 40:
        return ["api_copy", F, x, G]
    if k < 64:
        return ["api_move", F, x, G]
    if k < 76:
        return ["api_add", F, x, rng.choice([False, True, True])]
    if k < 86:
        return ["api_dfid", pos(), pos()]
    if k < 93:
        return ["api_dfoid", pos()]
    return ["api_rmid", pos(), pos()]


def gen_raw_op(rng: Rng, folders: List[str], files: List[str]) -> list:
    """A request path that is truncated, over-long, misspelt or empty (the force element is written 1/0)."""
    while True:
        op = gen_op(rng, folders, files)
        if op[0] not in ("pre", "tick"):
            break
    base = _request(op)
    if op[0] == "cfile":
        base[4] = 1 if base[4] else 0
    m = rng.below(100)
    if m < 55:
        path = base[: rng.range(0, len(base) - 1)]
    elif m < 75:
        path = base + [rng.choice(["extra", "scan", "", "1"])]
    elif m < 92:
        j = rng.below(min(len(base), 4))
        path = base[:j] + [rng.choice(["zzz", "files", "Folder", "delete", "file"])] + base[j + 1:]
    else:
        path = []
    return ["raw", path]


def api_alphabet() -> List[list]:
    """Bounded-exhaustive family C: the API entry points against the requests that set up / disturb their targets."""
    return [["cfile", "fa", "a", False], ["dfile", "fa", "a"], ["rfile", "fa", "a"], ["dfolder", "fb"],
            ["api_copy", "fa", "a", "fb"], ["api_copy", "fa", "a", "fa"], ["api_move", "fa", "a", "fb"],
            ["api_move", "fb", "a", "fa"], ["api_add", "fa", "a", True], ["api_add", "fb", "a", False],
            ["api_create", "fa", "a", False], ["api_create", "fb", "a", True], ["api_dfid", "L1", "L0"],
            ["api_dfoid", "L1"], ["api_rmid", "L1", "L0"], ["pre"]]


CHURN = [["cfile", "fa", "a", False], ["cfile", "fa", "a", False], ["dfile", "fa", "a"], ["dfile", "fa", "a"], ["fdel", "fa", "a"],
         ["rfile", "fa", "a"], ["fverb", "fa", "restore"], ["fverb", "fa", "restore"], ["fverb", "fa", "scan"], ["tick"], ["tick"],
         ["tick"], ["pre"], ["dfolder", "fa"], ["rfolder", "fa"], ["cfolder", "fa"], ["xverb", "fa", "a", "scan"],
         ["xverb", "fa", "a", "restore"], ["api_copy", "fa", "a", "fa"], ["api_move", "fa", "a", "root"],
         ["api_move", "root", "a", "fa"], ["access", "fa", "a"], ["fverb", "fa", "repair"]]


def gen_churn_case(rng: Rng) -> dict:
    """Namesake churn: one folder, one file name, created / deleted / re-created while folder restores and scans run out."""
    return {"surface": rng.choice(["fs", "fs", "node"]), "restore_duration": rng.choice([1, 1, 2, 3]),
            "scan_duration": rng.choice([None, 1, 2]), "ops": [list(rng.choice(CHURN)) for _ in range(rng.range(6, 16))]}


def gen_case(rng: Rng, max_ops: int = 30, api: bool = False) -> dict:
    surface = rng.choice(["fs", "fs", "node", "action", "action"])
    # mostly a tight vocabulary (collisions are the point), sometimes the wide one with odd names
    if rng.chance(3, 4):
        folders, files = ["fa", "fb", "root"][: rng.range(1, 3)], ["a", "b"][: rng.range(1, 2)]
    else:
        folders, files = FOLDERS, FILES
    n = rng.range(4, max_ops)
    # mostly-valid: start from a populated file system so that deletes/restores/verbs have something to act on
    setup = [["cfile", rng.choice(folders), rng.choice(files), False] for _ in range(rng.range(0, 3))]
    def one():
        if api and rng.chance(1, 3):
            return gen_api_op(rng, folders, files)
        if api and rng.chance(1, 6):
            return gen_raw_op(rng, folders, files)
        return gen_op(rng, folders, files)
    case = {"surface": surface, "restore_duration": rng.choice([None, None, 0, 1, 1, 2, 3]),
            "ops": setup + [one() for _ in range(n)]}
    if api:
        case["scan_duration"] = rng.choice([None, None, 0, 1, 2])
    return case


# ------------------------------------------------------------------------------------------ node-level families (surface "net")
POWER_KEYS = ["shutdown", "startup", "reset"]


def node_alphabet() -> List[list]:
    """Bounded-exhaustive family N: the per-tick counters against the power requests and both halves of the tick."""
    return [["cfile", "fa", "a", True], ["dfile", "fa", "a"], ["power", "shutdown"], ["power", "startup"], ["power", "reset"],
            ["pre"], ["tick"]]


def node_configs() -> List[dict]:
    """start-up / shut-down durations for family N (0 = the transition is immediate, inside the request)."""
    return [{"up": 0, "down": 0, "nscan": 1, "on": True}, {"up": 1, "down": 1, "nscan": 1, "on": True},
            {"up": 0, "down": 2, "nscan": 1, "on": True}, {"up": 2, "down": 0, "nscan": 1, "on": True}]


def gen_net_case(rng: Rng, max_ticks: int = 10) -> dict:
    """Tick-structured history of a computer in a small network: every tick = pre_timestep, the requests of that tick (file
    operations and power requests of two agents acting on the same host, in either order; node scans), apply_timestep."""
    node = {"up": rng.choice([0, 1, 2, 3]), "down": rng.choice([0, 1, 2, 3]), "nscan": rng.choice([1, 1, 2, 3]),
            "on": not rng.chance(1, 8), "actions": rng.chance(1, 2)}
    folders, files = ["fa", "fb", "root"][: rng.range(1, 3)], ["a", "b"][: rng.range(1, 2)]

    def file_op() -> list:
        F, x = rng.choice(folders), rng.choice(files)
        k = rng.below(10)
        if k < 4:
            return ["cfile", F, x, rng.choice([False, True, True])]
        if k < 7:
            return ["dfile", F, x]
        while True:
            op = gen_op(rng, folders, files)
            if op[0] not in ("pre", "tick"):
                return op

    # a guess of the power state, only to shape the distribution (the oracle and the model never see it)
    guess = {"st": "ON" if node["on"] else "OFF", "cd": 0, "resetting": False}

    def g_on():
        if node["up"] <= 0:
            guess["st"] = "ON"
        elif guess["st"] == "OFF":
            guess["st"], guess["cd"] = "BOOT", node["up"]

    def g_off():
        if node["down"] <= 0:
            guess["st"] = "OFF"
            if guess["resetting"]:
                guess["resetting"] = False
                g_on()
        elif guess["st"] == "ON":
            guess["st"], guess["cd"] = "DOWN", node["down"]

    def g_tick():
        if guess["st"] in ("BOOT", "DOWN"):
            if guess["cd"] > 0:
                guess["cd"] -= 1
            elif guess["st"] == "BOOT":
                guess["st"] = "ON"
            else:
                guess["st"] = "OFF"
                if guess["resetting"]:
                    guess["resetting"] = False
                    g_on()

    def power_op() -> list:
        if guess["st"] == "ON":
            k = rng.choice(["shutdown", "shutdown", "shutdown", "reset", "reset", "startup"])
        elif guess["st"] == "OFF":
            k = rng.choice(["startup", "startup", "startup", "startup", "shutdown", "reset"])
        else:
            k = rng.choice(POWER_KEYS)
        if k == "startup" and guess["st"] == "OFF":
            g_on()
        elif k == "shutdown" and guess["st"] == "ON":
            g_off()
        elif k == "reset" and guess["st"] == "ON":
            guess["resetting"] = True
            g_off()
        return ["power", k]

    ops: List[list] = [["cfile", rng.choice(folders), rng.choice(files), False] for _ in range(rng.range(0, 2))]
    for _ in range(rng.range(3, max_ticks)):
        ops.append(["pre"])
        m = rng.below(12)
        if guess["st"] != "ON" and rng.chance(2, 3):
            # the host is (probably) not on: mostly wait or start it, sometimes try a request that must be refused
            if guess["st"] == "OFF":
                ops += ([file_op()] if rng.chance(1, 4) else []) + [power_op()]
            else:
                ops += ([file_op()] if rng.chance(1, 3) else []) + ([power_op()] if rng.chance(1, 5) else [])
        elif m < 2:    # the file operation first, then the power request, in the same tick
            ops += [file_op() for _ in range(rng.range(1, 2))] + [power_op()]
        elif m < 3:    # the power request first
            ops += [power_op()] + [file_op() for _ in range(rng.range(1, 2))]
        elif m < 8:    # several file operations
            ops += [file_op() for _ in range(rng.range(1, 4))]
        elif m < 9:    # a node scan, possibly with a file operation or a power request behind it
            ops += [["osscan"]] + ([file_op()] if rng.chance(1, 2) else []) + ([power_op()] if rng.chance(1, 3) else [])
        elif m < 10:   # a Python-API call of a service on that host (not a request: no power guard)
            ops += [gen_api_op(rng, folders, files)] + ([power_op()] if rng.chance(1, 2) else [])
        elif m < 11:   # a tick in which nothing happens
            pass
        else:          # two power requests in one tick
            ops += [power_op(), power_op()]
        if not rng.chance(1, 12):  # now and then a tick without its second half
            ops.append(["tick"])
            g_tick()
    return {"surface": "net", "restore_duration": rng.choice([None, 1, 1, 2, 3]), "scan_duration": rng.choice([None, 1, 2]),
            "node": node, "ops": ops}


# ------------------------------------------------------------------------------------------ health x deletion families
def health_alphabet() -> List[list]:
    """Bounded-exhaustive family H (after the fixed prefix `create fa/a`): corrupt, delete and restore at file and folder level."""
    return [["xverb", "fa", "a", "corrupt"], ["fverb", "fa", "corrupt"], ["dfile", "fa", "a"], ["dfolder", "fa"], ["rfile", "fa", "a"],
            ["xverb", "fa", "a", "restore"], ["rfolder", "fa"], ["tick"]]


def gen_health_case(rng: Rng, max_ops: int = 24) -> dict:
    """corrupt -> delete -> restore churn at file and folder level, on every surface (requests, agent actions, a node in a network)."""
    surface = rng.choice(["fs", "node", "action", "action", "net"])
    folders, files = ["fa", "fb"][: rng.range(1, 2)], ["a", "b"][: rng.range(1, 2)]
    ops: List[list] = [["cfile", F, x, False] for F in folders for x in files if rng.chance(3, 4)]
    for _ in range(rng.range(4, max_ops)):
        F, x = rng.choice(folders), rng.choice(files)
        k = rng.below(20)
        if k < 4:
            ops.append(rng.choice([["xverb", F, x, "corrupt"], ["sverb", F, x, "corrupt"], ["fverb", F, "corrupt"]]))
        elif k < 8:
            ops.append(rng.choice([["dfile", F, x], ["dfile", F, x], ["fdel", F, x], ["dfolder", F]]))
        elif k < 13:
            ops.append(rng.choice([["rfile", F, x], ["rfile", F, x], ["xverb", F, x, "restore"], ["sverb", F, x, "restore"], ["rfolder", F],
                                   ["fverb", F, "restore"]]))
        elif k < 16:
            ops.append(["tick"])
        elif k < 17:
            ops.append(rng.choice([["xverb", F, x, "repair"], ["fverb", F, "repair"], ["xverb", F, x, "scan"], ["fverb", F, "scan"]]))
        elif k < 18:
            ops.append(["cfile", F, x, rng.choice([False, True])])
        elif k < 19:
            ops.append(rng.choice([["api_copy", F, x, rng.choice(folders)], ["api_move", F, x, rng.choice(folders + ["fc"])]]))
        else:
            ops.append(["pre"])
    case = {"surface": surface, "restore_duration": rng.choice([1, 1, 2, 3, None]), "scan_duration": rng.choice([None, 1]), "ops": ops}
    if surface == "net":
        case["node"] = {"up": 0, "down": 0, "nscan": 1, "on": True, "actions": rng.chance(1, 2)}
    return case


# ------------------------------------------------------------------------------------------ configured initial state (surface "cfg")
CFG_FILES = [("a.txt", None), ("a.txt", "TXT"), ("a", "TXT"), ("a", None), ("a", "UNKNOWN"), ("b", "DOCX"), ("b.docx", None), ("b", "PDF"),
             ("c.unknownext", None)]


def gen_cfg_case(rng: Rng) -> dict:
    """A host whose file system is configured: folders listed twice, files listed twice (literally, or only once the extension is
    appended), the same name in two folders, empty folders; then setup_for_episode and a few operations of the first tick."""
    config = []
    for _ in range(rng.range(0, 4)):
        fo = {"folder_name": rng.choice(["fa", "fa", "fb", "root"])}
        if rng.chance(3, 4):
            fo["files"] = []
            for _ in range(rng.range(0, 3)):
                name, typ = rng.choice(CFG_FILES)
                fi = {"file_name": name}
                if typ is not None:
                    fi["type"] = typ
                if rng.chance(1, 2):
                    fi["size"] = rng.choice([0, 10, 2048])
                fo["files"].append(fi)
        config.append(fo)
    ops: List[list] = [["load", config]]
    if rng.chance(7, 8):
        ops.append(["setup"])
    names = sorted({stored_name(fi["file_name"], fi.get("type")) for fo in config for fi in fo.get("files", [])}) or ["a.txt"]
    folders = sorted({fo["folder_name"] for fo in config}) or ["fa"]
    for _ in range(rng.range(0, 8)):
        op = gen_op(rng, folders, names[:2])
        ops.append(op)
    return {"surface": "cfg", "restore_duration": None, "ops": ops}


def folder_restore_alphabet() -> List[list]:
    """Bounded-exhaustive family R (after the fixed prefix `create fa/a`): delete / restore a folder against its own restore countdown."""
    return [["dfolder", "fa"], ["rfolder", "fa"], ["fverb", "fa", "restore"], ["tick"]]
