"""R-rew: drive the real reward layer and the Lean model (Drivers/C10.lean) with the same inputs and diff every answer.

Three families of cases:
  * `game`  — a generated agent set goes through the real `PrimaiteGame.from_config` (accept / reject, evaluation order),
              then steps: real `AgentHistoryItem`s are appended with the real `process_action_response`, the real
              `advance_timestep` and `update_agents(state)` run on a synthetic post-step state dictionary; after every step
              each agent's `current_reward`, `total_reward`, history length and component memories are compared;
  * `graph` — `graph_has_cycle` / `topological_sort` called directly on raw graphs (lists with repeats, dangling names);
  * `env`   — (see `env_case`) the real `PrimaiteGymEnv.step` pipeline on a shipped configuration; the model is fed what the
              components read from the real `describe_state()` and the agents' real history items.

The neighbour sets of the sharing graph are Python `set`s of strings; their iteration order is captured from the very
objects the code passes to `graph_has_cycle` (in-process wrapper) and handed to the model (`setorder`).
Values are compared as exact `Fraction(float)`; generators only use dyadic weights and code lists of power-of-two length.
"""
from __future__ import annotations

import itertools
from fractions import Fraction
from typing import Any, Dict, List, Optional, Tuple

from harness.lib.core import Rng

NODES = ["pc1", "pc2", "srv"]
SERVICES = ["web-server", "dns-server"]
FOLDERS = ["database", "root"]
FILES = ["database.db", "x.txt"]
WEIGHTS = ["1", "1/2", "1/4", "3/4", "-1", "-1/2", "2", "0", "3/2", "1/8", "-3/4", "5/4"]
PENALTIES = ["-1", "0", "1/4", "-3/4", "1/8", "1", "-1/2"]
CODE_LISTS = [[], [200], [404], [500], [200, 404], [200, 200], [404, 404], [404, 500], [200, 200, 404, 404],
              [200, 404, 404, 404], [200, 500, 500, 500], [404, 404, 404, 404], [200, 302]]
OUTCOMES = ["P", "200", "404", "X", "500"]
KIND_TYPE = {"dummy": "dummy", "file": "database-file-integrity", "web404": "web-server-404-penalty",
             "webpage": "webpage-unavailable-penalty", "greendb": "green-admin-database-unreachable-penalty",
             "shared": "shared-reward", "actionpenalty": "action-penalty"}


def frac(s: str) -> Fraction:
    return Fraction(s)


def show(fr: Fraction) -> str:
    return str(fr.numerator) if fr.denominator == 1 else f"{fr.numerator}/{fr.denominator}"


def fl(x: float) -> str:
    return show(Fraction(x))


# ------------------------------------------------------------------------------------------ generation
def gen_comp(rng: Rng, kinds: List[str]) -> dict:
    k = rng.choice(kinds)
    c: Dict[str, Any] = {"kind": k, "weight": rng.choice(WEIGHTS)}
    if k == "file":
        c.update(node=rng.choice(NODES), folder=rng.choice(FOLDERS), file=rng.choice(FILES))
    elif k == "web404":
        c.update(node=rng.choice(NODES), service=rng.choice(SERVICES), sticky=rng.chance(1, 2))
    elif k in ("webpage", "greendb"):
        c.update(node=rng.choice(NODES), sticky=rng.chance(1, 2))
    elif k == "actionpenalty":
        c.update(ap=rng.choice(PENALTIES), dn=rng.choice(PENALTIES))
    return c


def gen_request(rng: Rng) -> List[str]:
    n = rng.choice(NODES)
    k = rng.below(10)
    if k < 3:
        return ["network", "node", n, "application", "web-browser", "execute"]
    if k < 6:
        return ["network", "node", n, "application", "database-client", "execute"]
    if k == 6:
        return ["do-nothing"]
    if k == 7:  # near misses
        return rng.choice([["network", "node", n, "application", "web-browser", "execute", "x"],
                           ["network", "node", n, "application", "web-browser"],
                           ["network", "node", n, "application", "database-client", "close"],
                           ["network", "node", n, "service", "web-browser", "execute"]])
    if k == 8:
        return ["network", "node", n, "service", rng.choice(SERVICES), rng.choice(["stop", "start", "scan"])]
    return ["network", "node", n, "file_system", "scan"]


def gen_item(rng: Rng) -> dict:
    req = gen_request(rng)
    action = "do-nothing" if req == ["do-nothing"] or rng.chance(1, 8) else \
        ("node-application-execute" if "application" in req else "node-service-op")
    status = rng.choice(["success", "success", "success", "failure", "unreachable", "pending"])
    return {"action": action, "request": req, "status": status}


def gen_state(rng: Rng, prev: Optional[dict]) -> dict:
    """Synthetic post-step state: which file/service/browser paths exist and what they hold."""
    st: Dict[str, Any] = {"files": [], "services": [], "browsers": []}
    for n in NODES:
        for fo in FOLDERS:
            for fi in FILES:
                if rng.chance(2, 3):
                    st["files"].append([n, fo, fi, rng.choice([0, 1, 1, 2, 2, 3, 4])])
        for sv in SERVICES:
            if rng.chance(4, 5):
                codes = rng.choice(CODE_LISTS) if rng.chance(1, 2) else []
                form = rng.choice(["list", "missing", "none"]) if not codes else "list"
                st["services"].append([n, sv, codes, form])
        if rng.chance(5, 6):
            # browser history mostly grows; sometimes replaced
            old = None
            if prev is not None:
                old = next((b[1] for b in prev["browsers"] if b[0] == n), None)
            if old is not None and rng.chance(3, 4):
                hist = list(old) + ([rng.choice(OUTCOMES)] if rng.chance(1, 2) else [])
            else:
                hist = [rng.choice(OUTCOMES) for _ in range(rng.below(3))]
            st["browsers"].append([n, hist])
    return st


def gen_game_case(rng: Rng, n_agents: int, arcs: List[Tuple[int, int]], order: Optional[List[int]] = None,
                  n_steps: int = 2, rich: bool = False, names: Optional[List[str]] = None) -> dict:
    """Agents a0..; `arcs` (u, v) = u shares v's reward; `order` = declaration order (permutation of indices)."""
    names = names or [f"a{i}" for i in range(n_agents)]
    agents = []
    for i in range(n_agents):
        comps: List[dict] = []
        shared = [{"kind": "shared", "weight": rng.choice(WEIGHTS), "agent": names[v] if v < len(names) else f"ghost{v}"}
                  for (u, v) in arcs if u == i]
        if rich:
            others = [gen_comp(rng, ["dummy", "file", "web404", "webpage", "greendb", "actionpenalty", "web404", "webpage", "greendb"])
                      for _ in range(rng.below(5))]
        else:
            others = [{"kind": "actionpenalty", "weight": rng.choice(["1", "1/2", "-1/4"]), "ap": rng.choice(PENALTIES),
                       "dn": rng.choice(PENALTIES)}]
        comps = rng.shuffle(shared + others)
        agents.append({"ref": names[i], "comps": comps})
    if order is not None:
        agents = [agents[i] for i in order]
    steps = []
    prev = None
    for _ in range(n_steps):
        st = gen_state(rng, prev) if rich else {"files": [], "services": [], "browsers": []}
        prev = st
        steps.append({"state": st, "items": {a["ref"]: gen_item(rng) for a in agents}})
    return {"family": "game", "agents": agents, "steps": steps}


def gen_raw_graph(rng: Rng) -> dict:
    n = rng.range(0, 6)
    names = [f"n{i}" for i in range(n)]
    extra = names + ["zz"]  # a dangling name that is not a key
    dense = rng.below(3)
    g = []
    for k in rng.shuffle(names):
        if dense == 0:
            nb = [rng.choice(extra) for _ in range(rng.below(2))]
        elif dense == 1:
            nb = [rng.choice(extra) for _ in range(rng.below(4))]
        else:  # forward-only arcs: acyclic by construction
            later = [x for x in names if x > k]
            nb = [rng.choice(later) for _ in range(rng.below(3))] if later else []
        g.append([k, nb])
    return {"family": "graph", "graph": g}


# ------------------------------------------------------------------------------------------ model side
def comp_line(c: dict) -> str:
    k = c["kind"]
    w = c["weight"]
    if k == "dummy":
        return f"comp {w} dummy"
    if k == "file":
        return f"comp {w} file {c['node']} {c['folder']} {c['file']}"
    if k == "web404":
        return f"comp {w} web404 {c['node']} {c['service']} {int(c['sticky'])}"
    if k in ("webpage", "greendb"):
        return f"comp {w} {k} {c['node']} {int(c['sticky'])}"
    if k == "shared":
        return f"comp {w} shared {c['agent']}"
    if k == "actionpenalty":
        return f"comp {w} actionpenalty {c['ap']} {c['dn']}"
    raise ValueError(k)


def lst(xs) -> str:
    xs = [str(x) for x in xs]
    return ",".join(xs) if xs else "-"


def state_lines(st: dict) -> List[str]:
    out = ["state clear"]
    for n, fo, fi, h in st["files"]:
        out.append(f"state file {n} {fo} {fi} {h}")
    for n, sv, codes, _form in st["services"]:
        out.append(f"state svc {n} {sv} {lst(codes)}")
    for n, hist in st["browsers"]:
        out.append(f"state browser {n} {lst(hist)}")
    return out


def item_line(ref: str, it: dict) -> str:
    return f"item {ref} {it['action']} {int(it['status'] == 'success')} {lst(it['request'])}"


def model_lines(case: dict, capture: dict) -> List[str]:
    """Protocol lines for one case. `capture["setorders"]` = [(inserted names, observed iteration order)]."""
    lines = ["reset"]
    if case["family"] == "graph":
        g = ";".join(f"{k}:{lst(nb)}" for k, nb in case["graph"]) or "-"
        lines.append(f"graph {g}")
        return lines
    for ins, obs in capture.get("setorders", []):
        lines.append(f"setorder {lst(ins)} {lst(obs)}")
    if case["family"] == "env":  # agents, states and items are what the real run produced
        case = dict(case, **capture["observed"])
    for a in case["agents"]:
        lines.append(f"agent {a['ref']}")
        for c in a["comps"]:
            lines.append(comp_line(c))
    lines.append("load")
    for stp in case["steps"]:
        lines += state_lines(stp["state"])
        for ref, it in stp["items"].items():
            lines.append(item_line(ref, it))
        lines.append("step")
        lines.append("mem")
    return lines


def answer_mask(lines: List[str]) -> List[bool]:
    """Which protocol lines carry a compared answer (the rest answer `ok`)."""
    return [l.split()[0] in ("graph", "load", "step", "mem") for l in lines]


# ------------------------------------------------------------------------------------------ implementation side
def comp_cfg(c: dict) -> dict:
    k = c["kind"]
    opts: Dict[str, Any] = {}
    if k == "file":
        opts = {"node_hostname": c["node"], "folder_name": c["folder"], "file_name": c["file"]}
    elif k == "web404":
        opts = {"node_hostname": c["node"], "service_name": c["service"], "sticky": c["sticky"]}
    elif k in ("webpage", "greendb"):
        opts = {"node_hostname": c["node"], "sticky": c["sticky"]}
    elif k == "shared":
        opts = {"agent_name": c["agent"]}
    elif k == "actionpenalty":
        opts = {"action_penalty": float(frac(c["ap"])), "do_nothing_penalty": float(frac(c["dn"]))}
    return {"type": KIND_TYPE[k], "weight": float(frac(c["weight"])), "options": opts}


def game_cfg(case: dict) -> dict:
    return {"game": {"max_episode_length": 1000, "ports": [], "protocols": []},
            "agents": [{"ref": a["ref"], "team": "BLUE", "type": "proxy-agent",
                        "reward_function": {"reward_components": [comp_cfg(c) for c in a["comps"]]}} for a in case["agents"]],
            "simulation": {"network": {"nodes": []}}}


def outcome_py(o: str):
    if o == "P":
        return "PENDING"
    if o == "X":
        return "SERVER_UNREACHABLE"
    return int(o)


def state_dict(st: dict) -> dict:
    nodes: Dict[str, dict] = {}
    for n, fo, fi, h in st["files"]:
        nodes.setdefault(n, {}).setdefault("file_system", {}).setdefault("folders", {}).setdefault(fo, {}) \
            .setdefault("files", {})[fi] = {"health_status": h}
    for n, sv, codes, form in st["services"]:
        d: Dict[str, Any] = {"operating_state": 1}
        if form == "list":
            d["response_codes_this_timestep"] = list(codes)
        elif form == "none":
            d["response_codes_this_timestep"] = None
        nodes.setdefault(n, {}).setdefault("services", {})[sv] = d
    for n, hist in st["browsers"]:
        nodes.setdefault(n, {}).setdefault("applications", {})["web-browser"] = {"history": [{"outcome": outcome_py(o)} for o in hist]}
    return {"network": {"nodes": nodes}}


def show_agents(game) -> str:
    return ",".join(f"{k}={fl(a.reward_function.current_reward)}:{fl(a.reward_function.total_reward)}:{len(a.history)}"
                    for k, a in game.agents.items())


def show_mem(game) -> str:
    from primaite.game.agent.rewards import (GreenAdminDatabaseUnreachablePenalty, WebpageUnavailablePenalty,
                                             WebServer404Penalty)
    out = []
    for k, a in game.agents.items():
        ms = []
        for comp, _w in a.reward_function.reward_components:
            if isinstance(comp, (WebServer404Penalty, WebpageUnavailablePenalty, GreenAdminDatabaseUnreachablePenalty)):
                ms.append(fl(comp.reward))
            else:
                ms.append("_")
        out.append(f"{k}=" + ":".join(ms))
    return ",".join(out)


class GraphTap:
    """In-process wrapper on the two science.py functions as imported by game.py: records the graph they are given."""

    def __init__(self):
        self.graphs: List[dict] = []

    def __enter__(self):
        import primaite.game.game as G
        self.G = G
        self.orig = (G.graph_has_cycle, G.topological_sort)
        tap = self

        def ghc(graph):
            tap.graphs.append(graph)
            return tap.orig[0](graph)
        G.graph_has_cycle = ghc
        return self

    def __exit__(self, *a):
        self.G.graph_has_cycle = self.orig[0]


def run_impl(case: dict) -> Tuple[List[str], dict]:
    """Answers of the implementation for the compared lines of `model_lines`, plus the capture the model needs."""
    if case["family"] == "env":
        return run_env(case)
    if case["family"] == "graph":
        from primaite.game.science import graph_has_cycle, topological_sort
        g = {k: list(nb) for k, nb in case["graph"]}
        if graph_has_cycle(g):
            return ["cycle=1"], {}
        return ["cycle=0 order=" + ",".join(topological_sort(g))], {}
    from primaite.game.game import PrimaiteGame
    from primaite.interface.request import RequestResponse
    out: List[str] = []
    capture: Dict[str, Any] = {"setorders": []}
    game = None
    with GraphTap() as tap:
        try:
            game = PrimaiteGame.from_config(game_cfg(case))
            out.append("ok order=" + ",".join(game._reward_calculation_order) + " " + show_agents(game))
        except RuntimeError as e:
            out.append("raised cycle" if "cycle" in str(e) else f"raised other:RuntimeError")
        except KeyError:
            out.append("raised keyError")
        except Exception as e:  # anything else is reported verbatim and will not match the model
            out.append(f"raised other:{type(e).__name__}")
    if tap.graphs:
        graph = tap.graphs[0]
        capture["graph"] = {k: list(v) for k, v in graph.items()}
        # insertion sequence per surviving agent object = its shared-reward components in component order
        last_by_ref = {}
        for a in case["agents"]:
            last_by_ref[a["ref"]] = a
        for ref, a in last_by_ref.items():
            ins = [c["agent"] for c in a["comps"] if c["kind"] == "shared"]
            capture["setorders"].append((ins, list(graph[ref])))
    for stp in case["steps"]:
        if game is None:
            out += ["no-game", "no-game"]
            continue
        try:
            for ref, agent in game.agents.items():
                it = stp["items"][ref]
                agent.process_action_response(timestep=game.step_counter, action=it["action"], parameters={},
                                              request=list(it["request"]), response=RequestResponse(status=it["status"]),
                                              observation=None)
            game.advance_timestep()
            game.update_agents(state_dict(stp["state"]))
            out.append("ok " + show_agents(game))
            out.append(show_mem(game))
        except KeyError:
            out += ["raised keyError", "no-game"]
            game = None
        except IndexError:
            out += ["raised indexError", "no-game"]
            game = None
    capture["game"] = game
    return out, capture


# ------------------------------------------------------------------------------------------ property oracle (Python only)
def has_cycle_ref(graph: Dict[str, List[str]]) -> bool:
    """Independent cycle test: transitive closure by repeated squaring of the arc relation."""
    nodes = set(graph) | {v for vs in graph.values() for v in vs}
    reach = {u: set(graph.get(u, [])) for u in nodes}
    changed = True
    while changed:
        changed = False
        for u in nodes:
            new = set()
            for v in reach[u]:
                new |= reach[v]
            if not new <= reach[u]:
                reach[u] |= new
                changed = True
    return any(u in reach[u] for u in nodes)


def oracle(case: dict, impl: List[str], capture: dict) -> Optional[str]:
    """C10's own oracle on the implementation's behaviour, independent of Lean. Returns a description of a failure."""
    if case["family"] not in ("game", "env"):
        return None
    graph = capture.get("graph")
    if graph is None:
        return None
    cyc = has_cycle_ref(graph)
    dangling = any(v not in graph for vs in graph.values() for v in vs)
    first = impl[0]
    if cyc and first != "raised cycle":
        return f"cyclic sharing graph {graph} was not rejected: {first}"
    if not cyc and first == "raised cycle":
        return f"acyclic sharing graph {graph} was rejected"
    if not cyc and not dangling:
        if not first.startswith("ok order="):
            return f"acyclic sharing graph {graph} failed to load: {first}"
        order = first.split()[1][len("order="):].split(",")
        order = [x for x in order if x]
        if sorted(order) != sorted(graph):
            return f"evaluation order {order} is not a permutation of the agents {list(graph)}"
        for u in graph:
            for v in graph[u]:
                if order.index(v) >= order.index(u):
                    return f"evaluation order {order}: {u} depends on {v} but is evaluated first"
    game = capture.get("game")
    if game is not None:
        for k, a in game.agents.items():
            tot = sum((Fraction(h.reward) for h in a.history if h.reward is not None), Fraction(0))
            if any(h.reward is None for h in a.history):
                return f"agent {k}: a history item has no reward"
            if tot != Fraction(a.reward_function.total_reward):
                return f"agent {k}: total_reward {a.reward_function.total_reward} != sum of step rewards {tot}"
    return None


def all_arc_sets(n: int, self_loops: bool = False):
    arcs = [(u, v) for u in range(n) for v in range(n) if self_loops or u != v]
    for mask in range(1 << len(arcs)):
        yield [a for i, a in enumerate(arcs) if mask >> i & 1]


# ------------------------------------------------------------------------------------------ env family (real pipeline)
ENV_WEIGHTS = ["1", "1/2", "1/4", "3/4", "-1/2", "2", "1/8", "3/8"]
TYPE_KIND = {v: k for k, v in KIND_TYPE.items()}


def gen_env_case(rng: Rng, n_steps: int) -> dict:
    return {"family": "env", "seed": rng.below(1 << 30), "steps": [], "n_steps": n_steps, "agents": []}


def _tok(x) -> str:
    s = str(x)
    for ch in " ,;:":
        s = s.replace(ch, "_")
    return s or "_"


def _env_cfg(case: dict):
    """UC2 (`data_manipulation.yaml`) with dyadic weights, random sticky flags, extra components on the defender and a
    shuffled agent declaration order. Returns (config, agents description as in the `game` family)."""
    import yaml
    from harness.lib.core import SRC
    rng = Rng(case["seed"])
    cfg = yaml.safe_load((SRC / "config" / "_package_data" / "data_manipulation.yaml").read_text())
    cfg["io_settings"] = {"save_logs": False, "save_agent_actions": False, "save_step_metadata": False, "save_pcap_logs": False,
                          "save_sys_logs": False, "save_agent_logs": False}
    for a in cfg["agents"]:
        rf = a.setdefault("reward_function", {}).setdefault("reward_components", [])
        if a["ref"] == "defender":
            rf.append({"type": "web-server-404-penalty", "weight": 1.0,
                       "options": {"node_hostname": "web_server", "service_name": "web-server"}})
            rf.append({"type": "action-penalty", "weight": 1.0, "options": {"action_penalty": -0.25, "do_nothing_penalty": 0.125}})
            rf.append({"type": "webpage-unavailable-penalty", "weight": 1.0, "options": {"node_hostname": "client_1"}})
            rf[:] = rng.shuffle(rf)
        for c in rf:
            c["weight"] = float(frac(rng.choice(ENV_WEIGHTS)))
            if c["type"] in ("web-server-404-penalty", "webpage-unavailable-penalty", "green-admin-database-unreachable-penalty"):
                c.setdefault("options", {})["sticky"] = rng.chance(1, 2)
    cfg["agents"] = rng.shuffle(cfg["agents"])
    agents = []
    for a in cfg["agents"]:
        comps = []
        for c in a.get("reward_function", {}).get("reward_components", []):
            o = c.get("options", {})
            k = TYPE_KIND[c["type"]]
            d = {"kind": k, "weight": show(Fraction(c.get("weight", 1.0)))}
            if k == "file":
                d.update(node=o["node_hostname"], folder=o["folder_name"], file=o["file_name"])
            elif k == "web404":
                d.update(node=o["node_hostname"], service=o["service_name"], sticky=o.get("sticky", True))
            elif k in ("webpage", "greendb"):
                d.update(node=o.get("node_hostname", ""), sticky=o.get("sticky", True))
            elif k == "shared":
                d.update(agent=o["agent_name"])
            elif k == "actionpenalty":
                d.update(ap=show(Fraction(o.get("action_penalty", -1.0))), dn=show(Fraction(o.get("do_nothing_penalty", 0.0))))
            comps.append(d)
        agents.append({"ref": a["ref"], "comps": comps})
    return cfg, agents


def view_of_state(state: dict, agents: List[dict]) -> dict:
    """What the configured components read from a real `describe_state()` dictionary (independent re-implementation of
    the nested lookups)."""
    st = {"files": [], "services": [], "browsers": []}
    nodes = state.get("network", {}).get("nodes", {})
    seen = set()
    for a in agents:
        for c in a["comps"]:
            if c["kind"] == "file":
                key = ("f", c["node"], c["folder"], c["file"])
                if key in seen:
                    continue
                seen.add(key)
                try:
                    h = nodes[c["node"]]["file_system"]["folders"][c["folder"]]["files"][c["file"]]["health_status"]
                    st["files"].append([c["node"], c["folder"], c["file"], int(h)])
                except KeyError:
                    pass
            elif c["kind"] == "web404":
                key = ("s", c["node"], c["service"])
                if key in seen:
                    continue
                seen.add(key)
                try:
                    sv = nodes[c["node"]]["services"][c["service"]]
                    codes = sv.get("response_codes_this_timestep") or []
                    st["services"].append([c["node"], c["service"], [int(getattr(x, "value", x)) for x in codes], "list"])
                except KeyError:
                    pass
            elif c["kind"] == "webpage":
                key = ("b", c["node"])
                if key in seen:
                    continue
                seen.add(key)
                try:
                    hist = nodes[c["node"]]["applications"]["web-browser"]["history"]
                    outs = []
                    for h in hist:
                        o = h["outcome"]
                        outs.append("P" if o == "PENDING" else (str(o) if isinstance(o, int) and not isinstance(o, bool) else "X"))
                    st["browsers"].append([c["node"], outs])
                except KeyError:
                    pass
    return st


def run_env(case: dict) -> Tuple[List[str], dict]:
    import random
    import shutil
    import tempfile
    from pathlib import Path
    import numpy as np
    from primaite import PRIMAITE_PATHS
    import primaite.game.game as G
    from primaite.session.environment import PrimaiteGymEnv
    import logging
    cfg, agents = _env_cfg(case)
    logging.disable(logging.CRITICAL)
    random.seed(case["seed"])
    np.random.seed(case["seed"] % (1 << 31))
    tmp = Path(tempfile.mkdtemp(prefix="c10env"))
    old_path = PRIMAITE_PATHS.user_sessions_path
    PRIMAITE_PATHS.user_sessions_path = tmp
    states: List[dict] = []
    orig_update = G.PrimaiteGame.update_agents

    def tapped(self, state):
        states.append(state)
        return orig_update(self, state)
    G.PrimaiteGame.update_agents = tapped
    out: List[str] = []
    steps = []
    capture: Dict[str, Any] = {"setorders": []}
    try:
        with GraphTap() as tap:
            env = PrimaiteGymEnv(env_config=cfg)
        game = env.game
        graph = tap.graphs[0]
        capture["graph"] = {k: list(v) for k, v in graph.items()}
        for a in agents:
            capture["setorders"].append(([c["agent"] for c in a["comps"] if c["kind"] == "shared"], list(graph[a["ref"]])))
        out.append("ok order=" + ",".join(game._reward_calculation_order) + " " + show_agents(game))
        env.action_space.seed(case["seed"])
        for _ in range(case["n_steps"]):
            n_before = len(states)
            _obs, rew, _term, _trunc, _info = env.step(env.action_space.sample())
            assert len(states) == n_before + 1, "update_agents must run exactly once per step"
            if Fraction(rew) != Fraction(env.agent.reward_function.current_reward):
                out.append("env.step returned a reward different from the agent's current_reward")
            items = {}
            for ref, ag in game.agents.items():
                h = ag.history[-1]
                items[ref] = {"action": _tok(h.action), "request": [_tok(x) for x in h.request], "status": h.response.status}
            steps.append({"state": view_of_state(states[-1], agents), "items": items})
            out.append("ok " + show_agents(game))
            out.append(show_mem(game))
        capture["game"] = game
        env.close()
    finally:
        logging.disable(logging.NOTSET)
        G.PrimaiteGame.update_agents = orig_update
        PRIMAITE_PATHS.user_sessions_path = old_path
        shutil.rmtree(tmp, ignore_errors=True)
    capture["observed"] = {"agents": agents, "steps": steps}
    return out, capture
