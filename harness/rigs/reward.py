"""R-rew: drive the real reward layer and the Lean model (Drivers/C10.lean) with the same inputs and diff every answer.

Families of cases:
  * `game`  — a generated agent set goes through the real `PrimaiteGame.from_config` (accept / reject, evaluation order),
              then steps: real `AgentHistoryItem`s are appended with the real `process_action_response`, the real
              `advance_timestep` and `update_agents(state)` run on a synthetic post-step state DICTIONARY (well-formed leaves,
              and leaves of the wrong shape on which `calculate` raises); after every step each agent's `current_reward`,
              `total_reward`, history length and component memories are compared; optional mid-run resets (a fresh game from
              the same configuration + the second `update_agents` of `PrimaiteGymEnv.reset`); at the end the components'
              `location_in_state` and read-sets;
  * `graph` — `graph_has_cycle` / `topological_sort` called directly on raw graphs (lists with repeats, dangling names);
  * `access`— `access_from_nested_dict` on a state dictionary (synthetic, or a whole real `describe_state()`) and key paths; the
              projection of the state on a path set (`restrict`) and the fingerprint of the serialisation;
  * `env`   — the real `PrimaiteGymEnv.step` / `PrimaiteGame.step` pipeline on shipped and generated scenarios, with
              `PrimaiteGymEnv.reset` between episodes; the model is given the real `describe_state()` dictionary projected on the
              `location_in_state` paths the REAL components computed (the model computes its own paths; `access` on the projection
              equals `access` on the whole state for those paths: Lemmas/RewardState.lean) and the agents' real history items.

The model does the look-ups itself (`access_from_nested_dict` is part of the model); nothing in this file extracts leaves.

The neighbour sets of the sharing graph are Python `set`s of strings; their iteration order is captured from the very
objects the code passes to `graph_has_cycle` (in-process wrapper) and handed to the model (`setorder`).
Values are compared as exact `Fraction(float)` in the dyadic families (weights k/8, code lists of power-of-two length:
float arithmetic is exact there). In the decimal families (`case["exact"] == False`: weights such as 0.4 / 0.05, code lists
of any length, shipped scenarios with their own weights) the model is given the exact rational value of every double the
code holds, computes in exact arithmetic, and the implementation's floats must lie within a forward rounding-error bound
that `StepCheck` accumulates from the values the real components returned (unit round-off 2^-53 per operation; the
per-sum factor (1+u)^(n+1) - 1 is the one proved in Lemmas/RewardRounding.lean).

`StepCheck` is also the property's own oracle on the implementation (independent of Lean): with `calculate` of every
registered component class tapped in-process, after every step it checks that each shared-reward component returned the
other agent's reward OF THIS STEP, that `current_reward` is the weighted sum (configured weights x returned values), that
`total_reward` grew by exactly that, and that the newest history item carries it. The tap also runs every `calculate` a
second time on a COPY of the component with everything the component is proved not to read taken away or changed (the state
reduced to the component's own leaf, the history item's other fields scrambled): the value and the memory must not change
(non-interference, on the implementation). The sharing graph handed to `graph_has_cycle` is compared with the shares the
configuration declares (`declared_graph`).
"""
from __future__ import annotations

import itertools
from fractions import Fraction
from typing import Any, Dict, List, Optional, Tuple

from harness.lib.core import Rng

NODES = ["pc1", "pc2", "srv"]
SERVICES = ["web-server", "dns-server"]
FOLDERS = ["database", "root"]
FILES = ["database.db", "x.txt"]
WEIGHTS = ["1", "1/2", "1/4", "3/4", "-1", "-1/2", "2", "0", "3/2", "1/8", "-3/4", "5/4", "0", "-2", None]  # None = key omitted
PENALTIES = ["-1", "0", "1/4", "-3/4", "1/8", "1", "-1/2"]
# decimal literals as scenario authors write them (the shipped files use 0.4, 0.05, 0.25, 0.34, 0.33, ...)
DEC_WEIGHTS = ["0.4", "0.05", "0.1", "0.3", "0.7", "0.33", "0.34", "-0.2", "1.1", "0.6", "0.001", "2.5", "0", "-0.45", "0.15", "1", None]
DEC_PENALTIES = ["-0.1", "0", "0.3", "-0.75", "0.2", "1", "-0.45", "-1"]
CODE_LISTS_ODD = [[200, 404, 404], [200, 200, 404], [404, 200, 500], [200, 404, 404, 500, 200], [404] * 3, [200] * 6 + [404],
                  [200, 404, 500, 500, 500, 500], [200, 200, 200, 404, 404, 404, 404], [404, 500, 200, 200, 200, 200, 200, 200, 200]]
CODE_LISTS = [[], [200], [404], [500], [200, 404], [200, 200], [404, 404], [404, 500], [200, 200, 404, 404],
              [200, 404, 404, 404], [200, 500, 500, 500], [404, 404, 404, 404], [200, 302]]
OUTCOMES = ["P", "200", "404", "X", "500"]
KIND_TYPE = {"dummy": "dummy", "file": "database-file-integrity", "web404": "web-server-404-penalty",
             "webpage": "webpage-unavailable-penalty", "greendb": "green-admin-database-unreachable-penalty",
             "shared": "shared-reward", "actionpenalty": "action-penalty"}


def frac(s: str) -> Fraction:
    return Fraction(s)


def show(fr: Fraction) -> str:
    return str(fr.numerator) if fr.denominator == 1 else f"{fr.numerator}/{fr.denominator}"


def fl(x: float) -> str:
    return show(Fraction(x))


def dbl(sv: str) -> float:
    """the double the code holds for a configured literal"""
    return float(frac(sv))


def tok(sv: Optional[str]) -> str:
    """exact rational of that double, for the model (`default` = weight key omitted)"""
    return "default" if sv is None else show(Fraction(dbl(sv)))


# ------------------------------------------------------------------------------------------ words on the wire
_SAFE = set(chr(c) for c in range(33, 127)) - set("\\,:;=/")


def esc(s: str) -> str:
    """A name / string as one protocol word (Drivers/C10.lean `unescape`)."""
    if s == "":
        return "\\e"
    return "".join(ch if ch in _SAFE else "\\%x;" % ord(ch) for ch in s)


def unesc(w: str) -> str:
    import re
    if w == "\\e":
        return ""
    return re.sub(r"\\([0-9a-f]+);", lambda m: chr(int(m.group(1), 16)), w)


def pyval_words(v) -> List[str]:
    """A Python value in the driver's prefix form (see Drivers/C10.lean)."""
    import math
    out: List[str] = []

    def go(x):
        if x is None:
            out.append("N")
        elif isinstance(x, bool):
            out.append("T" if x else "F")
        elif isinstance(x, int):
            out.append("i%d" % x)
        elif isinstance(x, float):
            if math.isfinite(x):
                out.append("r" + show(Fraction(x)))
            else:
                out.append("O" + esc(repr(x)))
        elif isinstance(x, str):
            out.append("s" + esc(x))
        elif isinstance(x, (list, tuple)):
            out.append("L%d" % len(x))
            for y in x:
                go(y)
        elif isinstance(x, dict):
            out.append("D%d" % len(x))
            for k, y in x.items():
                if isinstance(k, str):
                    out.append("k" + esc(k))
                elif isinstance(k, int):  # bool keys hash and compare as 0 / 1
                    out.append("j%d" % int(k))
                else:
                    out.append("o" + esc(repr(k)))
                go(y)
        elif hasattr(x, "value") and isinstance(getattr(x, "value"), (int, str)) and not isinstance(x, type):
            go(x.value)  # an Enum member that leaked into a state dictionary
        else:
            out.append("O" + esc(type(x).__name__))
    go(v)
    return out


def fingerprint_words(words: List[str]) -> int:
    """Drivers/C10.lean `fingerprint`: polynomial hash of the canonical word sequence."""
    p = 2305843009213693951
    h = 7
    for w in words:
        h = (h * 131 + 32) % p
        for ch in w:
            h = (h * 131 + ord(ch)) % p
    return h


def py_restrict(v, paths: List[List[str]]):
    """Projection of a value on a set of key paths (Model/RewardState.lean `restrict`): a dict keeps the `str` keys some path
    continues with; a path that ends here keeps the value whole; a non-dict is kept whole."""
    if not isinstance(v, dict) or any(len(p) == 0 for p in paths):
        return v
    out = {}
    for k, x in v.items():
        if not isinstance(k, str):
            continue
        sub = [p[1:] for p in paths if p and p[0] == k]
        if sub:
            out[k] = py_restrict(x, sub)
    return out


# ------------------------------------------------------------------------------------------ generation
def gen_comp(rng: Rng, kinds: List[str], decimal: bool = False) -> dict:
    k = rng.choice(kinds)
    c: Dict[str, Any] = {"kind": k, "weight": rng.choice(DEC_WEIGHTS if decimal else WEIGHTS)}
    if k == "file":
        c.update(node=rng.choice(NODES), folder=rng.choice(FOLDERS), file=rng.choice(FILES))
    elif k == "web404":
        c.update(node=rng.choice(NODES), service=rng.choice(SERVICES), sticky=rng.chance(1, 2))
    elif k in ("webpage", "greendb"):
        c.update(node=rng.choice(NODES), sticky=rng.chance(1, 2))
    elif k == "actionpenalty":
        pen = DEC_PENALTIES if decimal else PENALTIES
        c.update(ap=rng.choice(pen), dn=rng.choice(pen))
    return c


def gen_request(rng: Rng) -> List[str]:
    n = rng.choice(NODES)
    k = rng.below(10)
    if k < 3:
        return ["network", "node", n, "application", "web-browser", "execute"]
    if k < 6:
        return ["network", "node", n, "application", "database-client", "execute"]
    if k == 6:
        return ["do-nothing"]
    if k == 7:  # near misses
        return rng.choice([["network", "node", n, "application", "web-browser", "execute", "x"],
                           ["network", "node", n, "application", "web-browser"],
                           ["network", "node", n, "application", "database-client", "close"],
                           ["network", "node", n, "service", "web-browser", "execute"]])
    if k == 8:
        return ["network", "node", n, "service", rng.choice(SERVICES), rng.choice(["stop", "start", "scan"])]
    return ["network", "node", n, "file_system", "scan"]


def gen_item(rng: Rng) -> dict:
    req = gen_request(rng)
    action = "do-nothing" if req == ["do-nothing"] or rng.chance(1, 8) else \
        ("node-application-execute" if "application" in req else "node-service-op")
    status = rng.choice(["success", "success", "success", "failure", "unreachable", "pending"])
    it = {"action": action, "request": req, "status": status}
    if rng.chance(1, 3):  # fields no component reads
        it["parameters"] = rng.choice([{"node_name": "pc1"}, {"x": 1, "y": [1, 2]}, {}])
        it["data"] = rng.choice([{}, {"reason": "because"}, {"ping": True, "n": 3}])
    if rng.chance(1, 12):  # a request with elements that are not strings (never equal to a literal path)
        it["request"] = rng.choice([req[:2] + [1] + req[3:], req + [{"opt": 1}], [2.5], []])
    return it


def gen_state(rng: Rng, prev: Optional[dict], decimal: bool = False) -> dict:
    """Synthetic post-step state: which file/service/browser paths exist and what they hold."""
    code_lists = CODE_LISTS + CODE_LISTS_ODD * 2 if decimal else CODE_LISTS
    st: Dict[str, Any] = {"files": [], "services": [], "browsers": []}
    for n in NODES:
        for fo in FOLDERS:
            for fi in FILES:
                if rng.chance(2, 3):
                    st["files"].append([n, fo, fi, rng.choice([0, 1, 1, 2, 2, 3, 4])])
        for sv in SERVICES:
            if rng.chance(4, 5):
                codes = rng.choice(code_lists) if rng.chance(1, 2) else []
                form = rng.choice(["list", "missing", "none"]) if not codes else "list"
                st["services"].append([n, sv, codes, form])
        if rng.chance(5, 6):
            # browser history mostly grows; sometimes replaced
            old = None
            if prev is not None:
                old = next((b[1] for b in prev["browsers"] if b[0] == n), None)
            if old is not None and rng.chance(3, 4):
                hist = list(old) + ([rng.choice(OUTCOMES)] if rng.chance(1, 2) else [])
            else:
                hist = [rng.choice(OUTCOMES) for _ in range(rng.below(3))]
            st["browsers"].append([n, hist])
    return st


FILE_LEAVES = [{}, {"health_status": 2.0}, {"health_status": True}, {"health_status": None}, {"health_status": "2"}, None, 5, "str",
               [1, 2], {"health_status": 1, "extra": [1]}, {"health_status": 1.5}, {"health_status": False}]
SERVICE_LEAVES = [None, 3, [], {}, {"response_codes_this_timestep": 5}, {"response_codes_this_timestep": "abc"},
                  {"response_codes_this_timestep": {"a": 1}}, {"response_codes_this_timestep": {"__intkeys__": [[200, 1], [404, 2]]}},
                  {"response_codes_this_timestep": [200, "404", 404.0, True]}, {"response_codes_this_timestep": True},
                  {"response_codes_this_timestep": 0}, {"response_codes_this_timestep": ""}, {"response_codes_this_timestep": [[200]]},
                  {"response_codes_this_timestep": [200.0, 200]}, {"response_codes_this_timestep": 2.5}, "services"]
BROWSER_LEAVES = [{}, None, {"history": None}, {"history": {}}, {"history": "abc"}, {"history": [{}]}, {"history": [None]},
                  {"history": [{"outcome": 200.0}]}, {"history": [{"outcome": True}]}, {"history": 5},
                  {"history": {"__intkeys__": [[-1, {"outcome": 200}]]}}, {"history": [{"outcome": 404}, {"outcome": None}]},
                  {"history": [[200]]}, {"history": [{"outcome": "PENDING"}, 7]}, 0, "web"]
ON_THE_WAY = [None, 7, True, 2.5, "nodes file_system folders services applications", "zzz", ["folders", "services", "applications", "nodes"],
              ["x"], [], {}]


def gen_patches(rng: Rng, agents: List[dict], k: int) -> List[list]:
    """`k` overrides `[key path, value]` of the state dictionary: leaves of unexpected shapes at the places the configured
    components read (or anywhere), and non-dictionaries on the way to them."""
    out = []
    comps = [c for a in agents for c in a["comps"] if c["kind"] in ("file", "web404", "webpage")]
    for _ in range(k):
        c = rng.choice(comps) if comps and rng.chance(4, 5) else \
            {"kind": rng.choice(["file", "web404", "webpage"]), "node": rng.choice(NODES), "folder": rng.choice(FOLDERS),
             "file": rng.choice(FILES), "service": rng.choice(SERVICES)}
        if c["kind"] == "file":
            path, pool = ["network", "nodes", c["node"], "file_system", "folders", c["folder"], "files", c["file"]], FILE_LEAVES
        elif c["kind"] == "web404":
            path, pool = ["network", "nodes", c["node"], "services", c["service"]], SERVICE_LEAVES
        else:
            path, pool = ["network", "nodes", c["node"], "applications", "web-browser"], BROWSER_LEAVES
        if rng.chance(1, 4):
            cut = rng.range(1, len(path) - 1)
            out.append([path[:cut], rng.choice(ON_THE_WAY)])
        else:
            out.append([path, rng.choice(pool)])
    return out


def gen_game_case(rng: Rng, n_agents: int, arcs: List[Tuple[int, int]], order: Optional[List[int]] = None,
                  n_steps: int = 2, rich: bool = False, names: Optional[List[str]] = None, decimal: bool = False,
                  bad_leaves: bool = False, resets: bool = False, bare_agents: bool = False) -> dict:
    """Agents a0..; `arcs` (u, v) = u shares v's reward (an arc listed twice = two shared-reward components naming the
    same agent); `order` = declaration order (permutation of indices); `decimal` = non-dyadic literals (tolerant compare)."""
    names = names or [f"a{i}" for i in range(n_agents)]
    agents = []
    wts = DEC_WEIGHTS if decimal else WEIGHTS
    pen = DEC_PENALTIES if decimal else PENALTIES
    for i in range(n_agents):
        comps: List[dict] = []
        shared = [{"kind": "shared", "weight": rng.choice(wts), "agent": names[v] if v < len(names) else f"ghost{v}"}
                  for (u, v) in arcs if u == i]
        if rich:
            others = [gen_comp(rng, ["dummy", "file", "web404", "webpage", "greendb", "actionpenalty", "web404", "webpage", "greendb"],
                               decimal) for _ in range(rng.below(5))]
        else:
            others = [{"kind": "actionpenalty", "weight": rng.choice(wts[:3] if decimal else ["1", "1/2", "-1/4"]), "ap": rng.choice(pen),
                       "dn": rng.choice(pen)}]
        comps = rng.shuffle(shared + others)
        ag = {"ref": names[i], "comps": comps}
        if bare_agents and rng.chance(1, 3):  # an agent without reward components / without a `reward_function` key at all
            ag["comps"] = [c for c in comps if c["kind"] == "shared"] if rng.chance(1, 3) else []
            if not ag["comps"] and rng.chance(1, 2):
                ag["norf"] = True
        agents.append(ag)
    if order is not None:
        agents = [agents[i] for i in order]
    steps = []
    prev = None
    for _ in range(n_steps):
        st = gen_state(rng, prev, decimal) if rich else {"files": [], "services": [], "browsers": []}
        prev = st
        if bad_leaves and rng.chance(2, 3):
            st = dict(st, patch=gen_patches(rng, agents, rng.range(1, 3)))
        stp = {"state": st, "items": {a["ref"]: gen_item(rng) for a in agents}}
        if resets and rng.chance(1, 4):
            stp["reset_after"] = True  # the episode ends here: PrimaiteGymEnv.reset's reward-relevant part, then a new episode
        steps.append(stp)
    case = {"family": "game", "agents": agents, "steps": steps}
    if decimal:
        case["exact"] = False
    return case


def gen_raw_graph(rng: Rng) -> dict:
    n = rng.range(0, 6)
    names = [f"n{i}" for i in range(n)]
    extra = names + ["zz"]  # a dangling name that is not a key
    dense = rng.below(3)
    g = []
    for k in rng.shuffle(names):
        if dense == 0:
            nb = [rng.choice(extra) for _ in range(rng.below(2))]
        elif dense == 1:
            nb = [rng.choice(extra) for _ in range(rng.below(4))]
        else:  # forward-only arcs: acyclic by construction
            later = [x for x in names if x > k]
            nb = [rng.choice(later) for _ in range(rng.below(3))] if later else []
        g.append([k, nb])
    return {"family": "graph", "graph": g}


# ------------------------------------------------------------------------------------------ model side
def comp_line(c: dict) -> str:
    k = c["kind"]
    w = tok(c["weight"])
    if k == "dummy":
        return f"comp {w} dummy"
    if k == "file":
        return f"comp {w} file {esc(c['node'])} {esc(c['folder'])} {esc(c['file'])}"
    if k == "web404":
        return f"comp {w} web404 {esc(c['node'])} {esc(c['service'])} {int(c['sticky'])}"
    if k in ("webpage", "greendb"):
        return f"comp {w} {k} {esc(c['node'])} {int(c['sticky'])}"
    if k == "shared":
        return f"comp {w} shared {esc(c['agent'])}"
    if k == "actionpenalty":
        return f"comp {w} actionpenalty {tok(c['ap'])} {tok(c['dn'])}"
    if k == "unknown":
        return f"comp {w} unknown {esc(c['type'])}"
    if k == "invalid":
        return f"comp {w} invalid"
    raise ValueError(k)


def lst(xs) -> str:
    xs = [str(x) for x in xs]
    return ",".join(xs) if xs else "-"


def state_line(state: dict) -> str:
    """The whole state dictionary, as the driver's `state` command."""
    return "state " + " ".join(pyval_words(state))


def item_line(ref: str, it: dict, timestep: int = 0) -> str:
    return " ".join(["item", esc(ref), str(timestep), esc(it["action"]), esc(it["status"])]
                    + pyval_words(list(it["request"])) + pyval_words(it.get("parameters", {})) + pyval_words(it.get("data", {})))


def model_lines(case: dict, capture: dict) -> List[str]:
    """Protocol lines for one case. `capture["setorders"]` = [(inserted names, observed iteration order)]."""
    lines = ["reset"]
    if case["family"] == "graph":
        g = ";".join(f"{k}:{lst(nb)}" for k, nb in case["graph"]) or "-"
        lines.append(f"graph {g}")
        return lines
    if case["family"] == "access":
        lines.append(state_line(decode_val(case["state"])))
        lines.append("fingerprint")
        for path in case["paths"]:
            lines.append("access " + " ".join(pyval_words(list(path))))
        lines.append("restricted " + " ".join(pyval_words([list(p) for p in case["restrict"]])))
        return lines
    for ins, obs in capture.get("setorders", []):
        lines.append(f"setorder {lst(esc(x) for x in ins)} {lst(esc(x) for x in obs)}")
    if case["family"] == "env":  # agents, states and items are what the real run produced
        case = dict(case, **capture["observed"])
    for a in case["agents"]:
        lines.append(f"agent {esc(a['ref'])}")
        for c in a["comps"]:
            lines.append(comp_line(c))
    lines.append("load")
    for k, stp in enumerate(case["steps"]):
        lines.append(state_line(stp["dict"] if "dict" in stp else state_dict(stp["state"])))
        for ref, it in stp["items"].items():
            lines.append(item_line(ref, it, it.get("timestep", k)))
        if "truth" in stp:  # the live objects read at the same moment: every component must evaluate alike on `describeT truth`
            lines.append("truth " + " ".join(pyval_words(stp["truth"])))
            lines.append("truthcheck")
        lines.append("step")
        lines.append("mem")
        lines.append("info")
        if stp.get("reset_after"):
            if "new_agents" in stp:  # an episode schedule: the next episode is built from another configuration
                lines.append("newconfig")
                for ins, obs in stp.get("new_setorders", []):
                    lines.append(f"setorder {lst(esc(x) for x in ins)} {lst(esc(x) for x in obs)}")
                for a in stp["new_agents"]:
                    lines.append(f"agent {esc(a['ref'])}")
                    for c in a["comps"]:
                        lines.append(comp_line(c))
            lines.append("envreset")
    lines.append("locs")
    return lines


ANSWER_OPS = ("graph", "load", "step", "mem", "info", "envreset", "locs", "fingerprint", "access", "restricted", "truthcheck")


def answer_mask(lines: List[str]) -> List[bool]:
    """Which protocol lines carry a compared answer (the rest answer `ok`)."""
    return [l.split(" ", 1)[0] in ANSWER_OPS for l in lines]


def answer_kinds(lines: List[str]) -> List[str]:
    return [l.split(" ", 1)[0] for l in lines if l.split(" ", 1)[0] in ANSWER_OPS]


# ------------------------------------------------------------------------------------------ implementation side
INVALID_VARIANTS = ["no-type", "weight-not-a-number", "extra-key", "missing-option", "option-not-a-number", "shared-without-agent"]


def comp_cfg(c: dict) -> dict:
    k = c["kind"]
    if k == "unknown":  # a type that is not registered (misspelt, or a plugin that was not imported)
        return {"type": c["type"], "weight": dbl(c["weight"] or "1")}
    if k == "invalid":  # a registered type whose entry violates its schema
        return {"no-type": {"weight": 1.0},
                "weight-not-a-number": {"type": "dummy", "weight": "abc"},
                "extra-key": {"type": "dummy", "wieght": 1.0},
                "missing-option": {"type": "database-file-integrity", "weight": 1.0, "options": {"node_hostname": "x"}},
                "option-not-a-number": {"type": "action-penalty", "weight": 1.0, "options": {"action_penalty": "x"}},
                "shared-without-agent": {"type": "shared-reward", "weight": 1.0}}[c["variant"]]
    opts: Dict[str, Any] = {}
    if k == "file":
        opts = {"node_hostname": c["node"], "folder_name": c["folder"], "file_name": c["file"]}
    elif k == "web404":
        opts = {"node_hostname": c["node"], "service_name": c["service"], "sticky": c["sticky"]}
    elif k in ("webpage", "greendb"):
        opts = {"node_hostname": c["node"], "sticky": c["sticky"]}
    elif k == "shared":
        opts = {"agent_name": c["agent"]}
    elif k == "actionpenalty":
        opts = {"action_penalty": dbl(c["ap"]), "do_nothing_penalty": dbl(c["dn"])}
    out = {"type": KIND_TYPE[k], "options": opts}
    if c["weight"] is not None:  # None = the scenario omits the key (the schema's default applies)
        out["weight"] = dbl(c["weight"])
    return out


def game_cfg(case: dict) -> dict:
    return {"game": {"max_episode_length": 1000, "ports": [], "protocols": []},
            "agents": [dict({"ref": a["ref"], "team": "BLUE", "type": "proxy-agent"},
                            **({} if a.get("norf") else {"reward_function": {"reward_components": [comp_cfg(c) for c in a["comps"]]}}))
                       for a in case["agents"]],
            "simulation": {"network": {"nodes": []}}}


def outcome_py(o: str):
    if o == "P":
        return "PENDING"
    if o == "X":
        return "SERVER_UNREACHABLE"
    return int(o)


def decode_val(v):
    """JSON-storable description -> Python value: `{"__intkeys__": [[k, v], …]}` is a dict with int keys."""
    if isinstance(v, dict):
        if set(v) == {"__intkeys__"}:
            return {k: decode_val(x) for k, x in v["__intkeys__"]}
        return {k: decode_val(x) for k, x in v.items()}
    if isinstance(v, list):
        return [decode_val(x) for x in v]
    return v


def state_dict(st: dict) -> dict:
    """The post-step state dictionary of a synthetic step: the three tables, then the `patch` overrides (key path, value)."""
    if "raw" in st:
        return decode_val(st["raw"])
    nodes: Dict[str, dict] = {}
    for n, fo, fi, h in st["files"]:
        nodes.setdefault(n, {}).setdefault("file_system", {}).setdefault("folders", {}).setdefault(fo, {}) \
            .setdefault("files", {})[fi] = {"health_status": h}
    for n, sv, codes, form in st["services"]:
        d: Dict[str, Any] = {"operating_state": 1}
        if form == "list":
            d["response_codes_this_timestep"] = list(codes)
        elif form == "none":
            d["response_codes_this_timestep"] = None
        nodes.setdefault(n, {}).setdefault("services", {})[sv] = d
    for n, hist in st["browsers"]:
        nodes.setdefault(n, {}).setdefault("applications", {})["web-browser"] = \
            {"history": [{"url": "http://arcd.com/", "outcome": outcome_py(o)} for o in hist]}
    state: Any = {"network": {"nodes": nodes}}
    for path, val in st.get("patch", []):
        cur = state
        ok = True
        for k in path[:-1]:
            if not isinstance(cur, dict):
                ok = False
                break
            cur = cur.setdefault(k, {})
        if ok and isinstance(cur, dict):
            cur[path[-1]] = decode_val(val)
    return state


def show_agents(game) -> str:
    return ",".join(f"{esc(k)}={fl(a.reward_function.current_reward)}:{fl(a.reward_function.total_reward)}:{len(a.history)}"
                    for k, a in game.agents.items())


def show_mem(game) -> str:
    from primaite.game.agent.rewards import (GreenAdminDatabaseUnreachablePenalty, WebpageUnavailablePenalty,
                                             WebServer404Penalty)
    out = []
    for k, a in game.agents.items():
        ms = []
        for comp, _w in a.reward_function.reward_components:
            if isinstance(comp, (WebServer404Penalty, WebpageUnavailablePenalty, GreenAdminDatabaseUnreachablePenalty)):
                ms.append(fl(comp.reward))
            else:
                ms.append("_")
        out.append(f"{esc(k)}=" + ":".join(ms))
    return ",".join(out)


def show_info(game) -> str:
    """Fingerprint of `reward_info` of every agent's newest history item (what `update_reward` left there)."""
    return ",".join(f"{esc(k)}=" + (str(fingerprint_words(pyval_words(a.history[-1].reward_info))) if a.history else "-")
                    for k, a in game.agents.items())


def show_locs(game) -> str:
    """`location_in_state` of every component as the REAL objects computed it in their last `calculate` (`_` = none), and the
    read-set of the agent's own item the implementation-side recheck (CalcTap) uses for it — compared with the model's
    `Comp.loc` / `Comp.reads`."""
    out = []
    for k, a in game.agents.items():
        ls = []
        for comp, _w in a.reward_function.reward_components:
            loc = getattr(comp, "location_in_state", None) if type(comp).__name__ in READS_STATE else None
            ls.append(("/".join(esc(str(x)) for x in loc) if loc is not None else "_") + "|" + READS.get(type(comp).__name__, "?"))
        out.append(f"{esc(k)}=" + ":".join(ls))
    return ",".join(out)


class GraphTap:
    """In-process wrapper on the two science.py functions as imported by game.py: records the graph they are given."""

    def __init__(self):
        self.graphs: List[dict] = []          # given to graph_has_cycle
        self.sorted_graphs: List[dict] = []   # given to topological_sort

    def __enter__(self):
        import primaite.game.game as G
        self.G = G
        self.orig = (G.graph_has_cycle, G.topological_sort)
        tap = self

        def ghc(graph):
            tap.graphs.append(graph)
            return tap.orig[0](graph)

        def ts(graph):
            tap.sorted_graphs.append(graph)
            return tap.orig[1](graph)
        G.graph_has_cycle = ghc
        G.topological_sort = ts
        return self

    def __exit__(self, *a):
        self.G.graph_has_cycle = self.orig[0]
        self.G.topological_sort = self.orig[1]


# what each component class is proved to read of the agent's own history item (Props/C10Calc.lean `Comp.reads`; the driver's
# `locs` answer carries the model's version and is compared with this table): a = action, r = request, s = response.status
READS = {"DummyReward": "", "DatabaseFileIntegrity": "", "WebServer404Penalty": "", "WebpageUnavailablePenalty": "rs",
         "GreenAdminDatabaseUnreachablePenalty": "rs", "SharedReward": "", "ActionPenalty": "a"}
READS_STATE = {"DatabaseFileIntegrity", "WebServer404Penalty", "WebpageUnavailablePenalty"}


class CalcTap:
    """In-process wrapper on `calculate` of every registered reward component class: records what each component object
    returned last (`last[id(component)]`), and re-runs the ORIGINAL `calculate` on a deep copy of the component (made before
    the call) with everything the component is proved not to read removed or changed — the state reduced to the component's
    own `location_in_state` leaf (an empty dict for a component that reads no state), the fields of the history item outside
    its read-set scrambled. A different value, memory or exception is recorded in `leaks`. Removed again on exit."""

    def __enter__(self):
        from primaite.game.agent.rewards import AbstractReward
        self.last: Dict[int, Any] = {}
        self.leaks: List[str] = []
        self.rechecked = 0
        self.patched = []
        tap = self
        for cls in set(AbstractReward._registry.values()):
            if "calculate" not in cls.__dict__:
                continue
            orig = cls.__dict__["calculate"]

            def mk(orig, cname):
                def calculate(self_, *a, **k):
                    clone = None
                    try:
                        clone = self_.model_copy(deep=True)
                    except Exception:
                        pass
                    try:
                        v = orig(self_, *a, **k)
                        exc = None
                    except Exception as e:
                        v, exc = None, e
                    tap.last[id(self_)] = v
                    if clone is not None and cname in READS:
                        tap._recheck(orig, cname, self_, clone, a, k, v, exc)
                    if exc is not None:
                        raise exc
                    return v
                return calculate
            setattr(cls, "calculate", mk(orig, cls.__name__))
            self.patched.append((cls, orig))
        return self

    def _recheck(self, orig, cname, comp, clone, a, k, v, exc):
        from primaite.game.agent.interface import AgentHistoryItem
        from primaite.interface.request import RequestResponse
        state = k.get("state", a[0] if a else None)
        item = k.get("last_action_response", a[1] if len(a) > 1 else None)
        if item is None or not isinstance(state, dict):
            return
        reads = READS[cname]
        loc = getattr(comp, "location_in_state", None) if cname in READS_STATE else None
        small = py_restrict(state, [[str(x) for x in loc]]) if loc is not None else {}
        other_status = "failure" if item.response.status == "success" else "success"
        item2 = AgentHistoryItem(
            timestep=item.timestep + 1000,
            action=item.action if "a" in reads else "scrambled-action",
            parameters={"scrambled": 1},
            request=list(item.request) if "r" in reads else ["scrambled", "request"],
            response=RequestResponse(status=item.response.status if "s" in reads else other_status, data={"scrambled": True}),
            reward=123.5, reward_info={"scrambled": 0}, observation=None)
        try:
            v2 = orig(clone, state=small, last_action_response=item2)
            exc2 = None
        except Exception as e:
            v2, exc2 = None, e
        self.rechecked += 1
        same = (type(exc) is type(exc2)) and (exc is not None or v == v2) \
            and getattr(clone, "reward", None) == getattr(comp, "reward", None)
        if not same and len(self.leaks) < 5:
            self.leaks.append(f"{cname} (location {loc}): on the full state and item it gave {v!r} / {type(exc).__name__ if exc else None} "
                              f"(memory {getattr(comp, 'reward', None)!r}); on its own leaf and the item fields [{reads}] alone it gave "
                              f"{v2!r} / {type(exc2).__name__ if exc2 else None} (memory {getattr(clone, 'reward', None)!r})")

    def __exit__(self, *a):
        for cls, orig in self.patched:
            setattr(cls, "calculate", orig)


def surviving(agents: List[dict]) -> Dict[str, dict]:
    """`game.agents[ref] = agent` for every configured agent in turn: first position, last value."""
    out: Dict[str, dict] = {}
    for a in agents:
        out[a["ref"]] = a
    return out


def declared_graph(agents: List[dict]) -> Dict[str, List[str]]:
    """The sharing graph the CONFIGURATION declares: agent -> names of all its shared-reward components, in order."""
    return {ref: [c["agent"] for c in a["comps"] if c["kind"] == "shared"] for ref, a in surviving(agents).items()}


U = Fraction(1, 2 ** 53)  # unit round-off of IEEE double, round to nearest


def gamma(k: int) -> Fraction:
    """(1+u)^k - 1: the factor of the forward error bound of a k-operation floating-point sum proved in
    Lemmas/RewardRounding.lean (`flWeightedFold_error`, `flSum_error`)."""
    return (1 + U) ** k - 1


class StepCheck:
    """The property's oracle on the implementation, step by step (see the module docstring), plus the rounding-error
    bounds `bounds[step][ref] = (e_current, e_total)` on |implementation float - exact weighted sum of the same doubles|."""

    def __init__(self, agents: List[dict]):
        self.desc = surviving(agents)
        self.tot: Dict[str, Fraction] = {r: Fraction(0) for r in self.desc}
        self.e_tot: Dict[str, Fraction] = {r: Fraction(0) for r in self.desc}
        self.e_cur: Dict[str, Fraction] = {r: Fraction(0) for r in self.desc}
        self.bounds: Dict[int, Dict[str, Tuple[Fraction, Fraction]]] = {}  # step number -> escaped ref -> (e_cur, e_tot)
        self.problems: Dict[str, str] = {}  # kind (text before the first colon) -> first message

    def _bad(self, what: str):
        self.problems.setdefault(what.split(":")[0], what)

    def after_load(self, game):
        for ref, ag in game.agents.items():
            if ref in self.tot:
                self.tot[ref] = Fraction(ag.reward_function.total_reward)
                if ag.reward_function.total_reward != 0 or ag.reward_function.current_reward != 0 or len(ag.history) != 0:
                    self._bad(f"fresh game: agent {ref} starts with total_reward {ag.reward_function.total_reward!r}, "
                              f"current_reward {ag.reward_function.current_reward!r}, {len(ag.history)} history items")

    def reconfigure(self, agents: List[dict]):
        """The next episode runs another configuration (episode schedule)."""
        self.desc = surviving(agents)

    def episode_end(self, game):
        """Before a reset: the episode total of every agent is the sum of the step rewards of THIS episode."""
        if game is None:
            return
        for ref, ag in game.agents.items():
            rs = [Fraction(h.reward) for h in ag.history if h.reward is not None]
            tot = sum(rs, Fraction(0))
            slack = gamma(len(rs) + 1) * sum((abs(r) for r in rs), Fraction(0))
            if abs(tot - Fraction(ag.reward_function.total_reward)) > slack:
                self._bad(f"episode total: agent {ref}: total_reward {ag.reward_function.total_reward!r} at the end of the episode "
                          f"!= sum of its {len(rs)} step rewards {float(tot)!r}")

    def after_reset(self, game):
        """After `reset`: new agents, totals restart at 0, histories are empty, sticky memories are back at their defaults."""
        self.tot = {r: Fraction(0) for r in self.desc}
        self.e_tot = {r: Fraction(0) for r in self.desc}
        self.e_cur = {r: Fraction(0) for r in self.desc}
        for ref, ag in game.agents.items():
            rf = ag.reward_function
            if rf.total_reward != 0 or rf.current_reward != 0 or len(ag.history) != 0:
                self._bad(f"reset: after a reset agent {ref} has total_reward {rf.total_reward!r}, current_reward "
                          f"{rf.current_reward!r}, {len(ag.history)} history items (a new episode starts from 0)")
            for comp, _w in rf.reward_components:
                if getattr(comp, "reward", 0.0) != 0.0:
                    self._bad(f"reset: after a reset a component of {ref} still remembers {comp.reward!r}")

    def after_step(self, game, tap: CalcTap, step_no: int):
        import math
        order = [r for r in game._reward_calculation_order if r in game.agents and r in self.desc]
        order += [r for r in game.agents if r not in order and r in self.desc]
        e_cur: Dict[str, Fraction] = {}
        out: Dict[str, Tuple[Fraction, Fraction]] = {}
        for ref in order:
            rf = game.agents[ref].reward_function
            dcomps = self.desc[ref]["comps"]
            if len(rf.reward_components) != len(dcomps):
                self._bad(f"components: agent {ref} has {len(rf.reward_components)} registered components, {len(dcomps)} configured")
                continue
            exact = Fraction(0)
            mag = Fraction(0)
            e_in = Fraction(0)
            ok = True
            for (comp, _w_impl), dc in zip(rf.reward_components, dcomps):
                val = tap.last.get(id(comp))
                if not isinstance(val, (int, float)) or isinstance(val, bool) or not math.isfinite(val):
                    self._bad(f"component value: step {step_no} agent {ref} component {dc['kind']} returned {val!r}")
                    ok = False
                    break
                w = Fraction(1) if dc["weight"] is None else Fraction(dbl(dc["weight"]))
                v = Fraction(val)
                if dc["kind"] == "shared":
                    other = game.agents.get(dc["agent"])
                    if other is not None and val != other.reward_function.current_reward:
                        self._bad(f"stale shared value: step {step_no}: the shared-reward component of {ref} on {dc['agent']} returned "
                                  f"{val!r} but {dc['agent']}'s reward of this step is {other.reward_function.current_reward!r} "
                                  f"(evaluation order {list(game._reward_calculation_order)})")
                    e_in += abs(w) * e_cur.get(dc["agent"], self.e_cur.get(dc["agent"], Fraction(0)))
                else:
                    e_in += abs(w) * gamma(1) * abs(v)  # a component does at most one rounding operation (the 404 average)
                exact += w * v
                mag += abs(w * v)
            if not ok:
                continue
            cur = Fraction(rf.current_reward)
            local = gamma(len(dcomps) + 1) * mag
            if abs(cur - exact) > local:
                self._bad(f"weighted sum: step {step_no}: current_reward of {ref} is {rf.current_reward!r} but the configured weights times "
                          f"the values its components returned sum to {float(exact)!r}")
            e_cur[ref] = local + e_in
            T = Fraction(rf.total_reward)
            want = self.tot[ref] + cur
            if abs(T - want) > U * abs(want):
                self._bad(f"total: step {step_no}: total_reward of {ref} went from {float(self.tot[ref])!r} to {rf.total_reward!r} "
                          f"with a step reward of {rf.current_reward!r}")
            self.e_tot[ref] = self.e_tot[ref] + e_cur[ref] + U * abs(want)
            self.tot[ref] = T
            h = game.agents[ref].history
            if not h or h[-1].reward != rf.current_reward:
                self._bad(f"history: step {step_no}: newest history item of {ref} does not carry the step reward")
            out[esc(ref)] = (e_cur[ref], self.e_tot[ref])
        self.e_cur.update(e_cur)
        self.bounds[step_no] = out
        tap.last.clear()


EXC_KIND = {KeyError: "keyError", IndexError: "indexError", TypeError: "typeError", AttributeError: "attributeError"}


def locs_answer(game) -> str:
    """The implementation's answer to `locs` (`skip` while some component has not computed its location yet)."""
    if game is None:
        return "no-game"
    for a in game.agents.values():
        for comp, _w in a.reward_function.reward_components:
            if getattr(comp, "location_in_state", None) == [""]:
                return "skip"
    return show_locs(game)


def run_access(case: dict) -> Tuple[List[str], dict]:
    """`access_from_nested_dict` on the state for every path; fingerprint of the state; fingerprint of its projection."""
    from primaite.game.agent.utils import access_from_nested_dict, NOT_PRESENT_IN_STATE
    state = decode_val(case["state"])
    out = [str(fingerprint_words(pyval_words(state)))]
    for path in case["paths"]:
        try:
            v = access_from_nested_dict(state, list(path))
            out.append("absent" if v is NOT_PRESENT_IN_STATE else "ok " + str(fingerprint_words(pyval_words(v))))
        except tuple(EXC_KIND) as e:
            out.append("raised " + EXC_KIND[type(e)])
    out.append(str(fingerprint_words(pyval_words(py_restrict(state, [list(p) for p in case["restrict"]])))))
    return out, {}


def run_impl(case: dict) -> Tuple[List[str], dict]:
    """Answers of the implementation for the compared lines of `model_lines`, plus the capture the model needs."""
    if case["family"] == "env":
        return run_env(case)
    if case["family"] == "access":
        return run_access(case)
    if case["family"] == "graph":
        from primaite.game.science import graph_has_cycle, topological_sort
        g = {k: list(nb) for k, nb in case["graph"]}
        if graph_has_cycle(g):
            return ["cycle=1"], {}
        return ["cycle=0 order=" + ",".join(topological_sort(g))], {}
    from primaite.game.game import PrimaiteGame
    from primaite.interface.request import RequestResponse
    out: List[str] = []
    capture: Dict[str, Any] = {"setorders": []}
    game = None
    check = StepCheck(case["agents"])

    def load():
        try:
            g = PrimaiteGame.from_config(game_cfg(case))
            return g, "ok order=" + ",".join(esc(x) for x in g._reward_calculation_order) + " " + show_agents(g)
        except RuntimeError as e:
            return None, ("raised cycle" if "cycle" in str(e) else "raised other:RuntimeError")
        except KeyError:
            return None, "raised keyError"
        except Exception as e:  # anything else is reported verbatim and will not match the model
            if type(e).__name__ == "ValidationError":
                return None, "raised validationError"
            return None, f"raised other:{type(e).__name__}"
    with GraphTap() as tap, CalcTap() as ctap:
        game, ans = load()
        out.append(ans)
        if game is not None:
            check.after_load(game)
        if tap.graphs:
            capture["graph"] = {k: list(v) for k, v in tap.graphs[0].items()}
        if tap.graphs or tap.sorted_graphs:  # (the set orders are read off the graph given to either function)
            graph = (tap.graphs or tap.sorted_graphs)[0]
            # insertion sequence per surviving agent object = its shared-reward components in component order
            for ref, ins in declared_graph(case["agents"]).items():
                if ref in graph:
                    capture["setorders"].append((ins, list(graph[ref])))
        ctap.last.clear()
        for k, stp in enumerate(case["steps"]):
            if game is None:
                out += ["no-game", "no-game", "no-game"]
            else:
                try:
                    for ref, agent in game.agents.items():
                        it = stp["items"][ref]
                        agent.process_action_response(timestep=it.get("timestep", game.step_counter), action=it["action"],
                                                      parameters=dict(it.get("parameters", {})), request=list(it["request"]),
                                                      response=RequestResponse(status=it["status"], data=dict(it.get("data", {}))),
                                                      observation=None)
                    game.advance_timestep()
                    game.update_agents(state_dict(stp["state"]))
                    out.append("ok " + show_agents(game))
                    out.append(show_mem(game))
                    out.append(show_info(game))
                    check.after_step(game, ctap, k + 1)
                except tuple(EXC_KIND) as e:
                    out += ["raised " + EXC_KIND[type(e)], "no-game", "no-game"]
                    game = None
            if stp.get("reset_after"):
                # what PrimaiteGymEnv.reset does to the reward layer: a fresh game from the same configuration, then update_agents
                check.episode_end(game)
                game, ans = load()
                if game is not None:
                    try:
                        game.update_agents(state_dict(stp["state"]))
                        ans = "ok order=" + ",".join(esc(x) for x in game._reward_calculation_order) + " " + show_agents(game)
                        check.after_reset(game)
                    except tuple(EXC_KIND) as e:
                        game, ans = None, "raised " + EXC_KIND[type(e)]
                out.append(ans)
                ctap.last.clear()
        out.append(locs_answer(game))
        capture["leaks"] = list(ctap.leaks)
        capture["rechecked"] = ctap.rechecked
    capture["game"] = game
    capture["bounds"] = check.bounds
    capture["step_problems"] = list(check.problems.values())
    return out, capture


# ------------------------------------------------------------------------------------------ property oracle (Python only)
def has_cycle_ref(graph: Dict[str, List[str]]) -> bool:
    """Independent cycle test: transitive closure by repeated squaring of the arc relation."""
    nodes = set(graph) | {v for vs in graph.values() for v in vs}
    reach = {u: set(graph.get(u, [])) for u in nodes}
    changed = True
    while changed:
        changed = False
        for u in nodes:
            new = set()
            for v in reach[u]:
                new |= reach[v]
            if not new <= reach[u]:
                reach[u] |= new
                changed = True
    return any(u in reach[u] for u in nodes)


def oracle_all(case: dict, impl: List[str], capture: dict) -> List[str]:
    """C10's own oracle on the implementation's behaviour, independent of Lean: every failure found, one per kind (the
    kind is the text before the first colon). The reference sharing graph is the one the CONFIGURATION declares (every
    shared-reward component of every agent); the dictionary the code hands to `graph_has_cycle` / `topological_sort` must
    be that graph."""
    if case["family"] not in ("game", "env"):
        return []
    out: List[str] = []
    agents = capture["observed"]["agents"] if case["family"] == "env" else case["agents"]
    graph = declared_graph(agents)
    real = capture.get("graph")
    first = impl[0]
    bad = [c["kind"] for a in agents for c in a["comps"] if c["kind"] in ("unknown", "invalid")]
    if bad:  # an unregistered / ill-formed component: the game must not load (and nothing else is judged)
        if first not in ("raised keyError", "raised validationError"):
            out.append(f"bad component accepted: a configuration with {bad} components was not refused at load: {first}")
        return out
    if real is None:
        if not first.startswith("raised other"):
            out.append("sharing graph: setup_reward_sharing never called graph_has_cycle")
    elif list(real) != list(graph):
        out.append(f"sharing graph: its keys {list(real)} are not the agents {list(graph)}")
    else:
        for u in graph:
            if set(real[u]) != set(graph[u]) or len(set(real[u])) != len(real[u]):
                out.append(f"sharing graph: agent {u} declares shared-reward components on {graph[u]} but the graph handed to "
                           f"graph_has_cycle records {sorted(real[u])} for it")
                break
    cyc = has_cycle_ref(graph)
    dangling = any(v not in graph for vs in graph.values() for v in vs)
    if cyc and first != "raised cycle":
        out.append(f"cycle accepted: cyclic sharing graph {graph} was not rejected: {first}")
    if not cyc and first == "raised cycle":
        out.append(f"acyclic rejected: acyclic sharing graph {graph} was rejected")
    if not cyc and not dangling:
        if not first.startswith("ok order="):
            out.append(f"acyclic not loaded: acyclic sharing graph {graph} failed to load: {first}")
        else:
            order = first.split()[1][len("order="):].split(",")
            order = [unesc(x) for x in order if x]
            if sorted(order) != sorted(graph):
                out.append(f"order not a permutation: evaluation order {order} is not a permutation of the agents {list(graph)}")
            else:
                bad = [(u, v) for u in graph for v in graph[u] if order.index(v) >= order.index(u)]
                if bad:
                    u, v = bad[0]
                    out.append(f"order not dependencies-first: evaluation order {order}: {u} shares from {v} (declared shares "
                               f"{graph[u]}) but is evaluated before it")
    out += capture.get("step_problems") or []
    for lp in (capture.get("live_problems") or [])[:1]:
        out.append("value differs from the live simulator objects: " + lp)
    for leak in (capture.get("leaks") or [])[:1]:
        out.append("component reads outside its leaf or own item: " + leak)
    game = capture.get("game")
    if game is not None:
        exact = capture["observed"].get("exact", True) if case["family"] == "env" else case.get("exact", True)
        for k, a in game.agents.items():
            if any(h.reward is None for h in a.history):
                out.append(f"history: agent {k}: a history item has no reward")
                break
            rs = [Fraction(h.reward) for h in a.history]
            tot = sum(rs, Fraction(0))
            slack = Fraction(0) if exact else gamma(len(rs) + 1) * sum((abs(r) for r in rs), Fraction(0))
            if abs(tot - Fraction(a.reward_function.total_reward)) > slack:
                out.append(f"total is not the sum: agent {k}: total_reward {a.reward_function.total_reward} != sum of step rewards {float(tot)!r}")
                break
    seen = set()
    uniq = []
    for m in out:
        if m.split(":")[0] not in seen:
            seen.add(m.split(":")[0])
            uniq.append(m)
    return uniq


def oracle(case: dict, impl: List[str], capture: dict) -> Optional[str]:
    ms = oracle_all(case, impl, capture)
    return ms[0] if ms else None


# ------------------------------------------------------------------------------------------ comparing the two sides
def _parse_agents(line: str) -> Optional[List[Tuple[str, List[str]]]]:
    """`ok [order=..] a=x:y:z,b=…` or `a=m1:m2,…` → [(a, [x, y, z]), …]; None when the line is not of that form."""
    toks = line.split()
    if toks and toks[0] == "ok":
        toks = toks[1:]
    head = [t for t in toks if t.startswith("order=")]
    toks = [t for t in toks if not t.startswith("order=")]
    if len(toks) > 1 or (toks and "=" not in toks[0]):
        return None
    out = [("order", head)] if head else []
    for part in (toks[0].split(",") if toks else []):
        k, _, v = part.partition("=")
        out.append((k, v.split(":")))
    return out


def first_diff(case: dict, impl: List[str], model: List[str], capture: dict, kinds: Optional[List[str]] = None) -> int:
    """Index of the first answer on which implementation and model differ, -1 if none. `kinds[j]` = the command answer j
    belongs to. Exact string equality for the dyadic families; for `exact == False` cases the numbers of `step` / `mem`
    answers may differ by the accumulated rounding bound of that step (`capture["bounds"][step number]`; memories: one
    rounding). An implementation answer `skip` (a `locs` question before every component computed its location) matches."""
    if kinds is None or len(kinds) != len(model):
        kinds = ["?"] * len(model)
    exact = case.get("exact", True)
    bounds = capture.get("bounds") or {}
    i = -1
    step_no = 0
    for j, (a, b) in enumerate(zip(impl, model)):
        kd = kinds[j] if j < len(kinds) else "?"
        if kd == "step":
            step_no += 1
        if a == b or (kd == "locs" and a == "skip"):
            continue
        if exact or kd not in ("step", "mem"):
            i = j
            break
        pa, pb = _parse_agents(a), _parse_agents(b)
        if pa is None or pb is None or [k for k, _ in pa] != [k for k, _ in pb]:
            i = j
            break
        is_mem = kd == "mem"
        bd = bounds.get(step_no, {})
        bad = False
        for (k, va), (_k, vb) in zip(pa, pb):
            if len(va) != len(vb):
                bad = True
                break
            e_cur, e_tot = bd.get(k, (Fraction(0), Fraction(0)))
            for idx, (x, y) in enumerate(zip(va, vb)):
                if x == y:
                    continue
                if x == "_" or y == "_" or (not is_mem and idx == 2):
                    bad = True
                    break
                fx, fy = Fraction(x), Fraction(y)
                tol = U * max(abs(fx), abs(fy)) if is_mem else (e_cur if idx == 0 else e_tot)
                if abs(fx - fy) > tol:
                    bad = True
                    break
            if bad:
                break
        if bad:
            i = j
            break
    if i < 0 and len(impl) != len(model):
        i = min(len(impl), len(model))
    return i


def all_arc_sets(n: int, self_loops: bool = False):
    arcs = [(u, v) for u in range(n) for v in range(n) if self_loops or u != v]
    for mask in range(1 << len(arcs)):
        yield [a for i, a in enumerate(arcs) if mask >> i & 1]


# ------------------------------------------------------------------------------------------ env family (real pipeline)
ENV_WEIGHTS = ["1", "1/2", "1/4", "3/4", "-1/2", "2", "1/8", "3/8"]
TYPE_KIND = {v: k for k, v in KIND_TYPE.items()}


ENV_SCHEDULES = ["scenario_with_placeholders", "mini_scenario_with_simulation_variation", "uc7_multiple_attack_variants"]
ENV_SHIPPED = ["data_manipulation", "uc7_config", "uc7_config_tap003", "action_penalty", "basic_switched_network",
               "fixing_duration_one_item", "nodes_with_initial_files", "shared_rewards", "software_fixing_duration",
               "test_application_install", "test_primaite_session", "data_manipulation_marl", "multi_agent_session"]


def gen_env_case(rng: Rng, n_steps: int, source: str = "uc2", weights: str = "dyadic") -> dict:
    """`source`: `uc2` (data_manipulation.yaml with extra components on the defender), `shipped:<stem>` (any single-file
    scenario of the package or of the test-suite's assets), `gen:<family>:<size>` (harness/gen/scenario.py).
    `weights`: `dyadic` = every weight replaced by a random dyadic one (exact comparison), `asis` = the scenario's own
    weights, e.g. 0.4 / 0.05 / 0.34 (comparison within the rounding bound)."""
    case = {"family": "env", "seed": rng.below(1 << 30), "steps": [], "n_steps": n_steps, "agents": [], "source": source,
            "weights": weights, "full_state_at": sorted({1, rng.range(1, n_steps)})}
    if rng.chance(2, 3):  # one or two resets inside the run: several episodes
        case["reset_at"] = sorted({rng.range(2, max(2, n_steps - 1)) for _ in range(rng.range(1, 2))})
    return case


def _tok(x) -> str:
    s = str(x)
    for ch in " ,;:":
        s = s.replace(ch, "_")
    return s or "_"


STICKY_TYPES = ("web-server-404-penalty", "webpage-unavailable-penalty", "green-admin-database-unreachable-penalty")


def _env_cfg(case: dict):
    """The scenario of an env case: declaration order shuffled, sticky flags randomised, weights per `case["weights"]`.
    Returns (config, agents description as in the `game` family)."""
    import yaml
    from harness.lib import scen
    from harness.lib.core import SRC
    rng = Rng(case["seed"])
    src = case.get("source", "uc2")
    dyadic = case.get("weights", "dyadic") == "dyadic"
    if src == "uc2":
        cfg = yaml.safe_load((SRC / "config" / "_package_data" / "data_manipulation.yaml").read_text())
    elif src.startswith("shipped:"):
        cfg = scen.load_cfg(scen.shipped()[src.split(":", 1)[1]])
    elif src.startswith("sched:"):
        # a shipped episode SCHEDULE (a directory with schedule.yaml): the environment is given the directory as it is, the
        # configuration of every episode comes from the real EpisodeListScheduler
        from primaite.session.episode_schedule import build_scheduler
        path = SRC / "config" / "_package_data" / src.split(":", 1)[1]
        return str(path), agents_desc(build_scheduler(path)(0))
    elif src.startswith("gen:"):
        from harness.gen.scenario import gen_scenario
        _g, fam, size = src.split(":")
        cfg = gen_scenario(Rng(case["seed"] ^ 0x5DEECE66D), size=int(size), family=fam)
    else:
        raise ValueError(src)
    cfg["io_settings"] = {"save_logs": False, "save_agent_actions": False, "save_step_metadata": False, "save_pcap_logs": False,
                          "save_sys_logs": False, "save_agent_logs": False}
    for a in cfg["agents"]:
        rf = a.setdefault("reward_function", {}).setdefault("reward_components", [])
        if not isinstance(rf, list):
            rf = a["reward_function"]["reward_components"] = list(rf)
        if src == "uc2" and a["ref"] == "defender":
            rf.append({"type": "web-server-404-penalty", "weight": 1.0,
                       "options": {"node_hostname": "web_server", "service_name": "web-server"}})
            rf.append({"type": "action-penalty", "weight": 1.0, "options": {"action_penalty": -0.25, "do_nothing_penalty": 0.125}})
            rf.append({"type": "webpage-unavailable-penalty", "weight": 1.0, "options": {"node_hostname": "client_1"}})
            rf[:] = rng.shuffle(rf)
        elif src != "uc2" and a.get("type") == "proxy-agent" and rng.chance(1, 2):
            rf.append({"type": "action-penalty", "weight": 1.0, "options": {"action_penalty": -0.25, "do_nothing_penalty": 0.125}})
            rf[:] = rng.shuffle(rf)
        for c in rf:
            if dyadic:
                c["weight"] = float(frac(rng.choice(ENV_WEIGHTS)))
                if rng.chance(1, 10):
                    del c["weight"]  # key omitted: the schema's default
            if c["type"] in STICKY_TYPES:
                if c.get("options") is None:
                    c["options"] = {}
                c["options"]["sticky"] = rng.chance(1, 2)
    early = rng.chance(2, 3)
    for a in cfg["agents"]:
        # scripted attackers that wait 25 steps leave the database file GOOD for most of a short run: start some of them early
        st = a.get("agent_settings")
        if early and a.get("type") == "red-database-corrupting-agent" and isinstance(st, dict) and "start_step" in st:
            st["start_step"], st["frequency"], st["variance"] = rng.range(2, 8), rng.range(3, 8), rng.range(0, 1)
    if case.get("marl"):
        # PrimaiteRayMARLEnv.__init__ builds `spaces.MultiBinary(<numpy.int64>)` for an agent with action masking, which the installed
        # gymnasium refuses (nothing to do with rewards): masking is switched off for the multi-agent runs
        for a in cfg["agents"]:
            if isinstance(a.get("agent_settings"), dict) and a["agent_settings"].get("action_masking"):
                a["agent_settings"]["action_masking"] = False
    cfg["agents"] = rng.shuffle(cfg["agents"])
    return cfg, agents_desc(cfg)


def agents_desc(cfg: dict) -> List[dict]:
    """The agents of a configuration with their reward components, as the `game` family describes them."""
    agents = []
    rat = lambda x: show(Fraction(float(x)))  # noqa: E731
    for a in cfg["agents"]:
        comps = []
        for c in (a.get("reward_function") or {}).get("reward_components", []) or []:
            o = c.get("options") or {}
            if c["type"] not in TYPE_KIND:
                raise ValueError(f"reward component type {c['type']} is not modelled")
            k = TYPE_KIND[c["type"]]
            d = {"kind": k, "weight": rat(c["weight"]) if "weight" in c else None}
            if k == "file":
                d.update(node=o["node_hostname"], folder=o["folder_name"], file=o["file_name"])
            elif k == "web404":
                d.update(node=o["node_hostname"], service=o["service_name"], sticky=o.get("sticky", True))
            elif k in ("webpage", "greendb"):
                d.update(node=o.get("node_hostname", ""), sticky=o.get("sticky", True))
            elif k == "shared":
                d.update(agent=o["agent_name"])
            elif k == "actionpenalty":
                d.update(ap=rat(o.get("action_penalty", -1.0)), dn=rat(o.get("do_nothing_penalty", 0.0)))
            comps.append(d)
        agents.append({"ref": a["ref"], "comps": comps})
    return agents


def _dyadic(sv: Optional[str]) -> bool:
    if sv is None:
        return True
    f = frac(sv)
    return f.denominator & (f.denominator - 1) == 0 and f.denominator <= 64 and abs(f.numerator) <= 1024


def live_truth(game, hostnames) -> List[dict]:
    """The simulator OBJECTS a reward component can be about, read directly (attributes of the live objects, not
    `describe_state()`), for the nodes with one of the given hostnames — the wire form of Model/RewardTruth.lean `Truth`."""
    def files(d):
        return [{"name": f.name, "health": int(f.health_status.value)} for f in d.values()]

    def folders(d):
        return [{"name": fo.name, "files": files(fo.files), "deleted_files": files(fo.deleted_files)} for fo in d.values()]

    def entry(h):
        loaded = h.status.name == "LOADED"
        return {"loaded": loaded, "code": int(h.response_code.value) if loaded and h.response_code is not None else 0,
                "status": str(h.status.value)}
    out = []
    for node in game.simulation.network.nodes.values():
        if node.config.hostname not in hostnames:
            continue
        out.append({
            "hostname": node.config.hostname,
            "folders": folders(node.file_system.folders), "deleted_folders": folders(node.file_system.deleted_folders),
            "services": [{"name": sv.name, "codes": ([int(c.value) for c in sv.response_codes_this_timestep]
                                                     if hasattr(sv, "response_codes_this_timestep") else None)}
                         for sv in node.services.values()],
            "applications": [{"name": ap.name, "history": ([entry(h) for h in ap.history] if hasattr(ap, "history") else None)}
                             for ap in node.applications.values()]})
    return out


class LiveOracle:
    """C10's ground truth for "evaluated on the post-step state": after every real step each component's value is recomputed
    from the LIVE simulator objects (never from `describe_state()`), the agent's own newest history item and the oracle's own
    record of the component's previous value — the specifications proved in Props/C10Truth.lean, restated in Python — and
    compared with what the real `calculate` returned."""

    def __init__(self):
        self.mem: Dict[int, float] = {}
        self.checked = 0
        self.problems: List[str] = []
        self.sent: Dict[int, List[int]] = {}  # web server object -> status codes of the HTTP responses it SENT in this step
        self.sent_checked = 0

    def __enter__(self):
        """Independent account of "the responses of THIS step": every HTTP response a web server hands to `send` is recorded
        (in-process wrapper on `WebServer.send`, removed on exit); `begin_step` empties the record."""
        from primaite.simulator.system.services.web_server.web_server import WebServer
        self._ws = WebServer
        self._had_own = "send" in WebServer.__dict__
        orig = WebServer.send
        oracle = self

        def send(self_, *a, **k):
            payload = k.get("payload", a[0] if a else None)
            code = getattr(payload, "status_code", None)
            if code is not None:
                oracle.sent.setdefault(id(self_), []).append(int(getattr(code, "value", code)))
            return orig(self_, *a, **k)
        self._orig_send = orig
        WebServer.send = send
        return self

    def __exit__(self, *a):
        if self._had_own:
            self._ws.send = self._orig_send
        else:
            del self._ws.send

    def begin_step(self):
        self.sent.clear()

    @staticmethod
    def _last(objs, name_of, name):
        found = None
        for o in objs:
            if name_of(o) == name:
                found = o
        return found

    def expected(self, game, agent, comp, dc: dict):
        k = dc["kind"]
        item = agent.history[-1]
        mem = self.mem.get(id(comp), 0.0)
        nodes = list(game.simulation.network.nodes.values())
        node = self._last(nodes, lambda n: n.config.hostname, dc.get("node")) if "node" in dc else None
        if k == "dummy":
            return 0.0
        if k == "file":
            fo = self._last(node.file_system.folders.values(), lambda f: f.name, dc["folder"]) if node is not None else None
            fi = self._last(fo.files.values(), lambda f: f.name, dc["file"]) if fo is not None else None
            if fi is None:
                return 0.0
            h = fi.health_status.value
            return -1 if h == 2 else (1 if h == 1 else 0)
        if k == "web404":
            sv = self._last(node.services.values(), lambda x: x.name, dc["service"]) if node is not None else None
            if sv is None:
                return 0.0  # memory untouched
            codes = [c.value for c in getattr(sv, "response_codes_this_timestep", [])]
            if hasattr(sv, "response_codes_this_timestep"):
                self.sent_checked += 1
                if codes != self.sent.get(id(sv), []) and len(self.problems) < 3:
                    self.problems.append(f"web server {dc['node']}/{dc['service']}: response_codes_this_timestep is {codes} at the end of the "
                                         f"step but the responses it sent during this step were {self.sent.get(id(sv), [])}")
            if codes:
                v = sum(1.0 if c == 200 else -1.0 if c == 404 else 0.0 for c in codes) / len(codes)
            else:
                v = mem if dc["sticky"] else 0.0
            self.mem[id(comp)] = v
            return v
        if k == "webpage":
            br = self._last(node.applications.values(), lambda x: x.name, "web-browser") if node is not None else None
            mem1 = 0.0 if br is None else mem
            if list(item.request) != ["network", "node", dc["node"], "application", "web-browser", "execute"]:
                v = mem1 if dc["sticky"] else 0.0
            elif item.response.status != "success":
                v = -1.0
            elif br is None or not br.history:
                v = 0.0
            else:
                h = br.history[-1]
                if h.status.name == "LOADED":
                    v = 1.0 if h.response_code.value == 200 else -1.0
                else:
                    v = 0.0 if h.status.value == "PENDING" else -1.0
            self.mem[id(comp)] = v
            return v
        if k == "greendb":
            if list(item.request) == ["network", "node", dc["node"], "application", "database-client", "execute"]:
                v = 1.0 if item.response.status == "success" else -1.0
            else:
                v = mem if dc["sticky"] else 0.0
            self.mem[id(comp)] = v
            return v
        if k == "actionpenalty":
            return dbl(dc["dn"]) if item.action == "do-nothing" else dbl(dc["ap"])
        if k == "shared":
            other = game.agents.get(dc["agent"])
            return other.reward_function.current_reward if other is not None else None
        raise ValueError(k)

    def after_step(self, game, tap: "CalcTap", desc: Dict[str, dict], step_no: int):
        order = [r for r in game._reward_calculation_order if r in game.agents and r in desc]
        for ref in order:
            agent = game.agents[ref]
            comps = agent.reward_function.reward_components
            if len(comps) != len(desc[ref]["comps"]):
                continue
            for (comp, _w), dc in zip(comps, desc[ref]["comps"]):
                got = tap.last.get(id(comp))
                try:
                    want = self.expected(game, agent, comp, dc)
                except Exception as e:  # the oracle itself must not hide a problem
                    want = f"oracle error {type(e).__name__}: {e}"
                self.checked += 1
                if want != got and len(self.problems) < 3:
                    self.problems.append(f"step {step_no}: {dc['kind']} component of {ref} ({ {k2: v for k2, v in dc.items() if k2 in ('node', 'folder', 'file', 'service', 'sticky', 'agent')} }) "
                                         f"returned {got!r} but the live simulator objects at the end of the step give {want!r}")


def real_paths(game) -> List[List[str]]:
    """The `location_in_state` key paths the REAL component objects computed in their latest `calculate`."""
    out = []
    for ag in game.agents.values():
        for comp, _w in ag.reward_function.reward_components:
            loc = getattr(comp, "location_in_state", None)
            if loc is not None and loc != [""] and [str(x) for x in loc] not in out:
                out.append([str(x) for x in loc])
    return out


def perturbed_paths(rng: Rng, paths: List[List[str]], state: dict) -> List[List[str]]:
    """Key paths for the `access` differential: the components' own, their prefixes, one key changed / appended, the root."""
    out: List[List[str]] = [[]]
    for p in paths:
        out.append(list(p))
        if len(p) > 1:
            out.append(p[:rng.range(1, len(p) - 1)])
        out.append(p[:-1] + [p[-1] + "_x"])
        out.append(p + [rng.choice(["health_status", "history", "response_codes_this_timestep", "zz"])])
        out.append(p + ["history", "outcome"])
    return out[:40]


def marl_env_class():
    """`primaite.session.ray_envs.PrimaiteRayMARLEnv` — its real `__init__` / `reset` / `step`. The module needs exactly one name of
    ray (`ray.rllib.env.multi_agent_env.MultiAgentEnv`, the base class); rllib cannot be imported in this sandbox (`dm_tree` is
    missing) and costs ~9 s to try, so the module is imported over a stub of that base class (a plain `gymnasium.Env`), and the stub
    modules are removed from `sys.modules` again."""
    import importlib
    import sys
    import types
    if "primaite.session.ray_envs" in sys.modules:
        return sys.modules["primaite.session.ray_envs"].PrimaiteRayMARLEnv
    import gymnasium

    class MultiAgentEnv(gymnasium.Env):
        def __init__(self):
            pass
    names = ["ray", "ray.rllib", "ray.rllib.env", "ray.rllib.env.multi_agent_env"]
    saved = {n: sys.modules.get(n) for n in names}
    try:
        for n in names:
            m = types.ModuleType(n)
            m.__path__ = []
            sys.modules[n] = m
        sys.modules["ray.rllib.env.multi_agent_env"].MultiAgentEnv = MultiAgentEnv
        mod = importlib.import_module("primaite.session.ray_envs")
    finally:
        for n in names:
            if saved[n] is None:
                sys.modules.pop(n, None)
            else:
                sys.modules[n] = saved[n]
    return mod.PrimaiteRayMARLEnv


def run_env(case: dict) -> Tuple[List[str], dict]:
    import random
    import shutil
    import tempfile
    from pathlib import Path
    import numpy as np
    from primaite import PRIMAITE_PATHS
    import primaite.game.game as G
    from primaite.session.environment import PrimaiteGymEnv
    import logging
    cfg, agents = _env_cfg(case)
    first_agents = agents
    logging.disable(logging.CRITICAL)
    random.seed(case["seed"])
    np.random.seed(case["seed"] % (1 << 31))
    tmp = Path(tempfile.mkdtemp(prefix="c10env"))
    old_path = PRIMAITE_PATHS.user_sessions_path
    PRIMAITE_PATHS.user_sessions_path = tmp
    states: List[dict] = []
    orig_update = G.PrimaiteGame.update_agents

    in_update = [False]

    def tapped(self, state):
        states.append(state)
        in_update[0] = True
        r = orig_update(self, state)
        in_update[0] = False
        return r
    G.PrimaiteGame.update_agents = tapped
    out: List[str] = []
    steps = []
    capture: Dict[str, Any] = {"setorders": [], "aux": []}
    check = StepCheck(agents)
    live = LiveOracle()
    hostnames = {c["node"] for a in agents for c in a["comps"] if "node" in c}
    n_comps = sum(len(a["comps"]) for a in surviving(agents).values())
    scheduled = isinstance(cfg, str)
    n_proxies = 1 if scheduled else sum(1 for a in cfg["agents"] if a.get("type") == "proxy-agent")
    arng = Rng(case["seed"] + 17)
    reset_at = set(case.get("reset_at", []))
    full_at = set(case.get("full_state_at", [1]))
    try:
        with GraphTap() as tap, CalcTap() as ctap, live:
            env = None
            marl = None
            try:
                if n_proxies == 1 and not case.get("game_loop"):
                    env = PrimaiteGymEnv(env_config=cfg)
                    game = env.game
                elif n_proxies > 1 and case.get("marl"):   # (only the cases prepared for it by _env_cfg: action masking off)
                    # several RL agents: the multi-agent environment (its OWN step pipeline: pre_timestep / apply_agent_actions /
                    # advance_timestep / update_agents, and the dictionary of rewards it returns)
                    marl = marl_env_class()(env_config=cfg)
                    game = marl.game
                else:  # several RL agents (or none): the game loop itself, every RL agent given a random action of its map
                    game = G.PrimaiteGame.from_config(cfg)
            except Exception as e:  # a shipped / generated scenario that does not load: reported, not a crash of the check
                import traceback
                in_update[0] = False
                capture["observed"] = {"agents": first_agents, "steps": [], "exact": True}
                capture["bounds"] = {}
                capture["step_problems"] = [f"scenario does not load: {case.get('source')}: {type(e).__name__}: {e} | "
                                            + traceback.format_exc()[-600:].replace("\n", " | ")]
                return [f"raised other:{type(e).__name__}", "no-game"], capture
            if not tap.graphs:
                # the scenario loaded without `graph_has_cycle` ever being asked: a failing input (an unchecked sharing graph), not a
                # crash of the check; the graph is taken from the `topological_sort` call if there was one
                check._bad(f"sharing graph: setup_reward_sharing never called graph_has_cycle while loading {case.get('source')}")
            graph = tap.graphs[0] if tap.graphs else (tap.sorted_graphs[0] if tap.sorted_graphs else {})
            capture["graph"] = {k: list(v) for k, v in graph.items()}
            for ref, ins in declared_graph(agents).items():
                if ref in graph:
                    capture["setorders"].append((ins, list(graph[ref])))
            out.append("ok order=" + ",".join(esc(x) for x in game._reward_calculation_order) + " " + show_agents(game))
            check.after_load(game)
            ctap.last.clear()
            if env is not None:
                env.action_space.seed(case["seed"])
            for k in range(case["n_steps"]):
                n_before = len(states)
                live.begin_step()
                try:
                    if env is not None:
                        _obs, rew, _term, _trunc, _info = env.step(env.action_space.sample())
                        if Fraction(rew) != Fraction(env.agent.reward_function.current_reward):
                            check._bad("env.step reward: env.step returned a reward different from the agent's current_reward")
                    elif marl is not None:
                        acts = {nm: arng.below(len(ag.action_manager.action_map)) for nm, ag in marl.agents.items()}
                        _obs, rews, _term, _trunc, _info = marl.step(acts)
                        if set(rews) != set(marl.agents):
                            check._bad(f"env.step reward: the multi-agent step returned rewards for {sorted(rews)}, the RL agents are {sorted(marl.agents)}")
                        for nm, ag in marl.agents.items():
                            if nm in rews and Fraction(rews[nm]) != Fraction(ag.reward_function.current_reward):
                                check._bad(f"env.step reward: the multi-agent step returned {rews[nm]!r} for {nm}, whose current_reward is "
                                           f"{ag.reward_function.current_reward!r}")
                    else:
                        for ag in game.rl_agents.values():
                            ag.store_action(arng.below(len(ag.action_manager.action_map)))
                        game.step()
                except Exception as e:
                    if in_update[0]:
                        # inside update_agents on a REAL state dictionary: the reward layer (or the observation update it shares
                        # access_from_nested_dict with) raised where the model computes a value — a failing input, not a crash
                        in_update[0] = False
                        import traceback
                        check._bad(f"update_agents raised: step {k + 1} of {case.get('source')}: {type(e).__name__}: {e} on the real "
                                   f"describe_state() dictionary | " + traceback.format_exc()[-600:].replace("\n", " | "))
                        break
                    # an exception of the simulator / an agent, outside the reward layer (C01's subject): the run ends here and
                    # what was observed so far is compared; the traceback goes into the evidence notes
                    import traceback
                    capture["sim_exception"] = f"{case.get('source')} seed {case['seed']} step {k + 1}: " + traceback.format_exc()[-1500:]
                    break
                assert len(states) == n_before + 1, "update_agents must run exactly once per step"
                items = {}
                for ref, ag in game.agents.items():
                    h = ag.history[-1]
                    items[ref] = {"action": str(h.action), "request": list(h.request), "status": h.response.status,
                                  "timestep": h.timestep}
                paths = real_paths(game)
                stp = {"dict": py_restrict(states[-1], paths), "items": items, "truth": live_truth(game, hostnames)}
                live.after_step(game, ctap, check.desc, k + 1)
                out.append(f"same {n_comps}")  # the answer expected from the driver's `truthcheck` (asked before its `step`)
                if (k + 1) in full_at:  # the WHOLE real dictionary: serialisation, access_from_nested_dict, projection
                    capture["aux"].append({"family": "access", "state": states[-1], "paths": perturbed_paths(arng, paths, states[-1]),
                                           "restrict": paths, "from": f"{case.get('source')} step {k + 1}"})
                out.append("ok " + show_agents(game))
                out.append(show_mem(game))
                out.append(show_info(game))
                check.after_step(game, ctap, k + 1)
                if (k + 1) in reset_at and marl is not None:
                    # end of an episode in the multi-agent environment: a new game, totals restart
                    check.episode_end(game)
                    try:
                        marl.reset()
                    except Exception:
                        import traceback
                        capture["sim_exception"] = f"{case.get('source')} seed {case['seed']} reset after step {k + 1}: " + traceback.format_exc()[-1500:]
                        steps.append(stp)
                        break
                    game = marl.game
                    stp["reset_after"] = True
                    out.append("ok order=" + ",".join(esc(x) for x in game._reward_calculation_order) + " " + show_agents(game))
                    check.after_reset(game)
                    live.mem.clear()
                    ctap.last.clear()
                if (k + 1) in reset_at and env is not None:
                    # end of an episode: the environment's record of the episode total, then a new game
                    check.episode_end(game)
                    ep = env.episode_counter
                    before = env.agent.reward_function.total_reward
                    try:
                        env.reset()
                    except Exception:
                        import traceback
                        capture["sim_exception"] = f"{case.get('source')} seed {case['seed']} reset after step {k + 1}: " + traceback.format_exc()[-1500:]
                        steps.append(stp)
                        break
                    if env.total_reward_per_episode.get(ep) != before:
                        check._bad(f"episode record: total_reward_per_episode[{ep}] = {env.total_reward_per_episode.get(ep)!r} "
                                   f"but the agent's total at the end of that episode was {before!r}")
                    game = env.game
                    stp["reset_after"] = True
                    if scheduled:  # the next episode has its own configuration: agents, components, sharing graph
                        agents = agents_desc(env.episode_scheduler(env.episode_counter))
                        stp["new_agents"] = agents
                        g2 = (tap.graphs or tap.sorted_graphs or [{}])[-1]
                        stp["new_setorders"] = [(ins, list(g2[ref])) for ref, ins in declared_graph(agents).items() if ref in g2]
                        check.reconfigure(agents)
                        hostnames = {c["node"] for a in agents for c in a["comps"] if "node" in c}
                        n_comps = sum(len(a["comps"]) for a in surviving(agents).values())
                    out.append("ok order=" + ",".join(esc(x) for x in game._reward_calculation_order) + " " + show_agents(game))
                    check.after_reset(game)
                    live.mem.clear()
                    ctap.last.clear()
                steps.append(stp)
            out.append(locs_answer(game))
            capture["game"] = game
            capture["leaks"] = list(ctap.leaks)
            capture["rechecked"] = ctap.rechecked
            capture["live_checked"] = live.checked
            capture["live_problems"] = list(live.problems)
            capture["marl"] = marl is not None
            if env is not None:
                env.close()
    finally:
        logging.disable(logging.NOTSET)
        G.PrimaiteGame.update_agents = orig_update
        PRIMAITE_PATHS.user_sessions_path = old_path
        shutil.rmtree(tmp, ignore_errors=True)
    # exact comparison is meaningful only if every number the run met is dyadic (weights, penalties, 404 averages)
    def code_lists(d):
        if isinstance(d, dict):
            for k2, v in d.items():
                if k2 == "response_codes_this_timestep" and isinstance(v, list):
                    yield v
                else:
                    yield from code_lists(v)
    exact = case.get("weights", "dyadic") == "dyadic" \
        and all(_dyadic(c.get(f)) for a in agents for c in a["comps"] for f in ("weight", "ap", "dn") if f in c) \
        and all(len(cl) in (0, 1, 2, 4, 8, 16, 32) for st in steps for cl in code_lists(st["dict"]))
    capture["observed"] = {"agents": first_agents, "steps": steps, "exact": exact and not scheduled}
    capture["bounds"] = check.bounds
    capture["step_problems"] = list(check.problems.values())
    return out, capture
