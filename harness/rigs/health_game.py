"""R-health, game layer: whole episodes through PrimaiteGymEnv (agent actions -> requests -> simulation tick) on shipped and
generated scenarios, checked by an oracle that identifies every service, application, file and folder of every node by
object identity (so duplicate software names - F-22 - and files/folders created, deleted and re-created during the episode
are all covered). Implementation-only (testing): it validates the statement's clauses on the layer the Lean model does not
reach; it does not replace a theorem.

Per step three snapshots are taken: before the step, after the agents' requests were applied (in-process wrapper around
`PrimaiteGame.advance_timestep`, removed afterwards), after the simulation tick.

Clauses:
  V1  a visible health value changes between `before` and `mid` only if a request of this step addressed a scan to that very
      item and was answered `success`; the new value is the item's actual health before or after the requests;
  V2  a visible value changes between `mid` and `after` (the tick) only if a scan covering the item can complete in this tick:
      the node-scan countdown stood at 1, or (files / folders) the folder's scan countdown stood at 1; a software item / file
      then shows its actual health at `mid` (or GOOD for software that was UNUSED and is started by the node's power phase);
  V3  a new item shows UNUSED / NONE, or (file) a value some file of that name on that node showed before;
  T   after a `fix` request answered `success` the item is FIXING until exactly the max(1, fixing_duration)-th tick in which
      its node is ON, and GOOD after that tick - unless its health is written by something else meanwhile (then the watch ends).
"""
from __future__ import annotations

import contextlib
import io
from typing import Dict, List, Optional


def _snap(sim) -> dict:
    out = {"sw": {}, "file": {}, "folder": {}, "node": {}}
    for node in sim.network.nodes.values():
        host = node.config.hostname
        out["node"][host] = (node.operating_state.name, getattr(node, "node_scan_countdown", 0))
        for s in list(getattr(node, "services", {}).values()) + list(getattr(node, "applications", {}).values()):
            out["sw"][s.uuid] = (host, s.name, s.health_state_actual.name, s.health_state_visible.name, s.config.fixing_duration)
        fs = getattr(node, "file_system", None)
        if fs is None:
            continue
        for fo in list(fs.folders.values()) + list(fs.deleted_folders.values()):
            out["folder"][fo.uuid] = (host, fo.name, fo.health_status.name, fo.visible_health_status.name, fo.scan_countdown,
                                      fo.deleted)
            for f in list(fo.files.values()) + list(fo.deleted_files.values()):
                out["file"][f.uuid] = (host, fo.name, f.name, f.health_status.name, f.visible_health_status.name, fo.uuid)
    return out


def _scan_requests(reqs: List[tuple]) -> dict:
    """successful scan requests of this step, by what they address"""
    out = {"sw": set(), "file": set(), "os": set(), "folder": set(), "fix": set()}
    for req, status in reqs:
        if status != "success" or len(req) < 4 or req[0] != "network" or req[1] != "node":
            continue
        host, rest = req[2], list(req[3:])
        if rest[:2] == ["os", "scan"]:
            out["os"].add(host)
        elif rest[0] in ("service", "application") and len(rest) == 3 and rest[2] == "scan":
            out["sw"].add((host, rest[1]))
        elif rest[0] in ("service", "application") and len(rest) == 3 and rest[2] == "fix":
            out["fix"].add((host, rest[1]))
        elif rest[0] == "file_system" and rest[1:2] == ["folder"] and len(rest) >= 4:
            if len(rest) == 4 and rest[3] == "scan":
                out["folder"].add((host, rest[2]))
            elif len(rest) == 6 and rest[3] == "file" and rest[5] == "scan":
                out["file"].add((host, rest[2], rest[4]))
        elif rest[0] == "file_system" and rest[1:2] == ["file"] and len(rest) == 5 and rest[4] == "scan":
            out["file"].add((host, rest[2], rest[3]))
    return out


def check_step(t: int, before: dict, mid: dict, after: dict, reqs: List[tuple], watch: dict) -> List[dict]:
    bad = []
    sr = _scan_requests(reqs)
    # ---- software
    for uid, (host, name, a2, v2, fd) in after["sw"].items():
        if uid not in before["sw"]:
            if v2 != "UNUSED" and (uid not in mid["sw"] or mid["sw"][uid][3] != "UNUSED" and (host, name) not in sr["sw"]):
                bad.append({"clause": "V3", "t": t, "item": f"sw:{host}/{name}", "visible": v2})
            continue
        _, _, a0, v0, _ = before["sw"][uid]
        _, _, a1, v1, _ = mid.get("sw", {}).get(uid, before["sw"][uid])
        if v1 != v0 and not ((host, name) in sr["sw"] and v1 in (a0, a1)):
            bad.append({"clause": "V1", "t": t, "item": f"sw:{host}/{name}", "visible": [v0, v1], "actual": [a0, a1]})
        if v2 != v1:
            ncd = mid["node"].get(host, ("?", 0))[1]
            ok_val = v2 == a1 or (a1 == "UNUSED" and v2 == "GOOD")
            if ncd != 1 or not ok_val:
                bad.append({"clause": "V2", "t": t, "item": f"sw:{host}/{name}", "visible": [v1, v2], "actual_mid": a1,
                            "node_scan_countdown": ncd})
        # ---- fix timing
        if (host, name) in sr["fix"] and a1 == "FIXING":
            # a duplicate-named twin is not reached by the request: only the item that actually went FIXING is watched
            if a0 != "FIXING" or uid not in watch:
                watch[uid] = {"need": max(1, fd), "got": 0, "since": t}
        w = watch.get(uid)
        if w is not None:
            if a1 != "FIXING":
                watch.pop(uid)  # written by something else during the requests of this step
                continue
            if after["node"].get(host, ("?", 0))[0] == "ON":
                w["got"] += 1
            if w["got"] < w["need"]:
                if a2 == "GOOD":
                    bad.append({"clause": "T", "t": t, "item": f"sw:{host}/{name}", "what": "fix completed early",
                                "ticks": w["got"], "need": w["need"], "since": w["since"]})
                    watch.pop(uid)
                elif a2 != "FIXING":
                    watch.pop(uid)  # overwritten inside the tick (attack)
            else:
                if a2 == "FIXING":
                    bad.append({"clause": "T", "t": t, "item": f"sw:{host}/{name}", "what": "fix not completed on time",
                                "ticks": w["got"], "need": w["need"], "since": w["since"]})
                watch.pop(uid)
    for uid in [u for u in watch if u not in after["sw"]]:
        watch.pop(uid)
    # ---- files
    for uid, (host, fo, name, a2, v2, fuid) in after["file"].items():
        if uid not in before["file"]:
            if v2 != "NONE":
                seen = {x[4] for x in before["file"].values() if x[0] == host and x[2] == name}
                covered = (host, fo, name) in sr["file"] or mid["node"].get(host, ("?", 0))[1] == 1 or \
                    mid["folder"].get(fuid, (0, 0, 0, 0, 0, 0))[4] == 1
                if v2 not in seen and not (covered and v2 == a2):
                    bad.append({"clause": "V3", "t": t, "item": f"file:{host}/{fo}/{name}", "visible": v2})
            continue
        _, _, _, a0, v0, _ = before["file"][uid]
        _, _, _, a1, v1, _ = mid.get("file", {}).get(uid, before["file"][uid])
        if v1 != v0 and not ((host, fo, name) in sr["file"] and v1 in (a0, a1)):
            bad.append({"clause": "V1", "t": t, "item": f"file:{host}/{fo}/{name}", "visible": [v0, v1], "actual": [a0, a1]})
        if v2 != v1:
            ncd = mid["node"].get(host, ("?", 0))[1]
            fcd = mid["folder"].get(fuid, (0, 0, 0, 0, 0, 0))[4]
            if not (ncd == 1 or fcd == 1) or v2 not in (a1, a2):
                bad.append({"clause": "V2", "t": t, "item": f"file:{host}/{fo}/{name}", "visible": [v1, v2], "actual": [a1, a2],
                            "node_scan_countdown": ncd, "folder_scan_countdown": fcd})
    # ---- folders
    for uid, (host, name, a2, v2, cd2, _) in after["folder"].items():
        if uid not in before["folder"]:
            continue
        v0 = before["folder"][uid][3]
        v1 = mid.get("folder", {}).get(uid, before["folder"][uid])[3]
        cd1 = mid.get("folder", {}).get(uid, before["folder"][uid])[4]
        if v1 != v0:
            bad.append({"clause": "V1", "t": t, "item": f"folder:{host}/{name}", "visible": [v0, v1]})
        if v2 != v1 and not (mid["node"].get(host, ("?", 0))[1] == 1 or cd1 == 1):
            bad.append({"clause": "V2", "t": t, "item": f"folder:{host}/{name}", "visible": [v1, v2], "folder_scan_countdown": cd1})
    return bad


def run_episode(cfg: dict, rng, steps: int, counts: Optional[Dict[str, int]] = None) -> List[dict]:
    """one episode with uniformly random actions of the RL agent (scripted agents act by themselves); returns complaints"""
    from harness.lib.scen import make_env
    counts = counts if counts is not None else {}
    with contextlib.redirect_stdout(io.StringIO()):
        env = make_env(cfg)
    game = env.game
    sim = game.simulation
    reqs: List[tuple] = []
    state = {"mid": None}
    orig_apply, orig_adv = sim.apply_request, game.advance_timestep

    def apply_request(request, context=None):
        resp = orig_apply(request, context) if context is not None else orig_apply(request)
        reqs.append((list(request), resp.status))
        return resp

    def advance_timestep():
        state["mid"] = _snap(sim)
        return orig_adv()

    bad: List[dict] = []
    watch: dict = {}
    try:
        sim.__dict__["apply_request"] = apply_request        # instance attribute shadows the method; removed in `finally`
        game.__dict__["advance_timestep"] = advance_timestep
        n_act = getattr(env.action_space, "n", None)
        for t in range(steps):
            before = _snap(sim)
            reqs.clear()
            state["mid"] = None
            a = rng.below(int(n_act)) if n_act else 0
            with contextlib.redirect_stdout(io.StringIO()):
                _, _, term, trunc, _ = env.step(a)
            after = _snap(sim)
            mid = state["mid"] or before
            sr = _scan_requests(reqs)
            for k in ("os", "sw", "file", "folder", "fix"):
                if sr[k]:
                    counts["game:accepted-" + k + "-scan" if k != "fix" else "game:accepted-fix"] = \
                        counts.get("game:accepted-" + k + "-scan" if k != "fix" else "game:accepted-fix", 0) + len(sr[k])
            nchg = sum(1 for u, x in after["sw"].items() if u in before["sw"] and before["sw"][u][3] != x[3]) + \
                sum(1 for u, x in after["file"].items() if u in before["file"] and before["file"][u][4] != x[4])
            if nchg:
                counts["game:visible-changes"] = counts.get("game:visible-changes", 0) + nchg
            counts["game:steps"] = counts.get("game:steps", 0) + 1
            counts["game:requests"] = counts.get("game:requests", 0) + len(reqs)
            bad += check_step(t, before, mid, after, list(reqs), watch)
            if term or trunc:
                break
    finally:
        sim.__dict__.pop("apply_request", None)
        game.__dict__.pop("advance_timestep", None)
        with contextlib.suppress(Exception):
            env.close()
    return bad
