"""R-acl: drive the real AccessControlList (Python API, request API, Router.from_config) and the Lean model
(Drivers/C07.lean) with the same operation sequences and diff every answer and the final list."""
from __future__ import annotations

from ipaddress import IPv4Address
from typing import List, Optional, Tuple

from harness.lib.core import Rng

ADDRS = ["192.168.1.10", "192.168.1.23", "192.168.2.10", "10.0.0.1", "0.0.0.0", "255.255.255.255", "192.168.0.10"]
MASKS = ["0.0.0.255", "0.0.255.255", "0.0.0.0", "255.255.255.255", "0.0.1.0", "0.0.0.13"]
PORTS = [0, 21, 80, 443, 5432, 65535, 219]
PROTOS = ["none", "tcp", "udp", "icmp"]
PORT_NAMES = {21: "FTP", 80: "HTTP", 443: "HTTPS", 5432: "POSTGRES_SERVER", 219: "ARP", 0: "NONE"}
PROTO_NAMES = {"tcp": "TCP", "udp": "UDP", "icmp": "ICMP", "none": "NONE"}


def o(x) -> str:
    return "-" if x is None else str(x)


def verdict(acl, frame) -> str:
    """`is_permitted` on the implementation as a canonical answer.  An exception raised while the list evaluates its rules is
    an ANSWER of the implementation on this input (the proved model has a verdict for every packet), not a harness error."""
    try:
        permitted, rule = acl.is_permitted(frame)
    except Exception as e:  # noqa: BLE001
        return f"exception:{type(e).__name__}"
    if rule is acl.implicit_rule:
        who = "implicit"
    else:
        idx = [i for i, x in enumerate(acl.acl) if x is rule]
        who = str(idx[0]) if len(idx) == 1 else f"?{idx}"
    return f"{1 if permitted else 0} {who}"


WILD_SWEEP_MASKS = MASKS + ["0.0.255.0", "255.0.0.255", "0.255.255.255", "128.0.0.0", "0.0.0.1"]


def wildcard_sweep_case(side: str = "src") -> dict:
    """Deterministic: one rule per mask (boundary masks 0.0.0.0 and 255.255.255.255, contiguous and NON-contiguous ones) at position
    0 on a DENY list, then packets inside and outside its range: the base itself, the base with a wild bit flipped, with a fixed
    bit flipped, and a far address."""
    from ipaddress import IPv4Address
    base_ip = "192.168.1.10"
    b = int(IPv4Address(base_ip))
    ops = []
    for m in WILD_SWEEP_MASKS:
        w = int(IPv4Address(m))
        wild = [i for i in range(32) if w >> i & 1]
        fixed = [i for i in range(32) if not w >> i & 1]
        addrs = [b, 0x0A000001]
        if wild:
            addrs += [b ^ (1 << wild[0]), b ^ (1 << wild[-1])]
        if fixed:
            addrs += [b ^ (1 << fixed[0]), b ^ (1 << fixed[-1])]
        r = {"action": "PERMIT", "proto": None, "src_ip": None, "src_wc": None, "dst_ip": None, "dst_wc": None, "src_port": None, "dst_port": None}
        r[f"{side}_ip"], r[f"{side}_wc"] = base_ip, m
        ops.append({"op": "add", "pos": 0, "rule": r})
        for a in addrs:
            pkt = {"proto": "tcp", "hdr": "tcp", "src": "10.9.9.9", "dst": "10.9.9.8", "sport": 1, "dport": 2}
            pkt[side] = str(IPv4Address(a))
            ops.append({"op": "check", "pkt": pkt})
    return {"surface": "api", "implicit": "DENY", "ops": ops}


# ------------------------------------------------------------------------------------------ generation
def gen_rule(rng: Rng) -> dict:
    def opt(xs, p_none=2):
        return None if rng.below(4) < p_none else rng.choice(xs)
    r = {"action": rng.choice(["PERMIT", "DENY"]), "proto": opt(PROTOS), "src_ip": opt(ADDRS), "src_wc": None,
         "dst_ip": opt(ADDRS), "dst_wc": None, "src_port": opt(PORTS, 3), "dst_port": opt(PORTS, 2)}
    if r["src_ip"] is not None and rng.chance(1, 2):
        r["src_wc"] = rng.choice(MASKS)
    if r["dst_ip"] is not None and rng.chance(1, 2):
        r["dst_wc"] = rng.choice(MASKS)
    if rng.chance(1, 12):  # wildcard without base address (ignored by the code)
        r["src_wc"] = rng.choice(MASKS)
    return r


def gen_packet(rng: Rng) -> dict:
    proto = rng.choice(PROTOS)
    hdr = {"tcp": "tcp", "udp": "udp", "icmp": None, "none": rng.choice([None, "tcp", "udp"])}[proto]
    if proto == "icmp" and rng.chance(1, 6):
        hdr = "udp"  # constructible mismatch: ICMP protocol with a UDP header as well
    return {"proto": proto, "hdr": hdr, "src": rng.choice(ADDRS), "dst": rng.choice(ADDRS),
            "sport": rng.choice(PORTS) if hdr else None, "dport": rng.choice(PORTS) if hdr else None}


def packet_for(rng: Rng, r: dict) -> dict:
    """A packet aimed at rule r (matches it unless the rule is unsatisfiable, e.g. a port on an ICMP-only rule)."""
    p = gen_packet(rng)
    if r["proto"] is not None:
        p["proto"] = r["proto"]
        p["hdr"] = {"tcp": "tcp", "udp": "udp", "icmp": None, "none": p["hdr"]}[r["proto"]]
    if (r["src_port"] is not None or r["dst_port"] is not None) and p["hdr"] is None and p["proto"] in ("none", "icmp"):
        p["hdr"] = "udp" if p["proto"] == "icmp" else rng.choice(["tcp", "udp"])
    if p["hdr"] is None:
        p["sport"] = p["dport"] = None
    else:
        p["sport"] = r["src_port"] if r["src_port"] is not None else rng.choice(PORTS)
        p["dport"] = r["dst_port"] if r["dst_port"] is not None else rng.choice(PORTS)
    if r["src_ip"] is not None:
        p["src"] = r["src_ip"]
    if r["dst_ip"] is not None:
        p["dst"] = r["dst_ip"]
    return p


def gen_case(rng: Rng, max_ops: int = 30) -> dict:
    surface = rng.choice(["api", "api", "request", "config", "action", "action"])
    ops = []
    n = rng.range(3, max_ops)
    dense = rng.chance(1, 3)
    for _ in range(n):
        k = rng.below(10)
        if k < (5 if dense else 3):
            pos = rng.choice([0, 1, 2, 3, 5, 11, 22, 23]) if not rng.chance(1, 8) else rng.choice([-1, 24, 25, 26, 100])
            ops.append({"op": "add", "pos": pos, "rule": gen_rule(rng)})
        elif k < (6 if dense else 4):
            pos = rng.choice([0, 1, 2, 3, 5, 11, 22, 23]) if not rng.chance(1, 8) else rng.choice([-1, 24, 25, 100])
            ops.append({"op": "remove", "pos": pos})
        else:
            added = [x["rule"] for x in ops if x["op"] == "add"]
            if added and rng.chance(3, 5):
                ops.append({"op": "check", "pkt": packet_for(rng, rng.choice(added))})
            else:
                ops.append({"op": "check", "pkt": gen_packet(rng)})
    return {"surface": surface, "implicit": rng.choice(["PERMIT", "DENY"]), "ops": ops}


# ------------------------------------------------------------------------------------------ model side
def rule_line(pos: int, r: dict) -> str:
    return (f"add {pos} {r['action']} {o(r['proto'])} {o(r['src_ip'])} {o(r['src_wc'])} {o(r['dst_ip'])} "
            f"{o(r['dst_wc'])} {o(r['src_port'])} {o(r['dst_port'])}")


def model_lines(case: dict, slots: int, preload: List[Tuple[int, dict]]) -> List[str]:
    lines = ["reset", f"new {slots} {case['implicit']}"]
    for pos, r in preload:
        lines.append(rule_line(pos, r))
    for op in case["ops"]:
        if op["op"] == "add":
            lines.append(rule_line(op["pos"], op["rule"]))
        elif op["op"] == "remove":
            lines.append(f"remove {op['pos']}")
        else:
            p = op["pkt"]
            lines.append(f"check {p['proto']} {p['src']} {p['dst']} {o(p['sport'])} {o(p['dport'])}")
    lines.append("dump")
    return lines


# ------------------------------------------------------------------------------------------ implementation side
def make_frame(p: dict):
    from primaite.simulator.network.protocols.icmp import ICMPPacket
    from primaite.simulator.network.transmission.data_link_layer import EthernetHeader, Frame
    from primaite.simulator.network.transmission.network_layer import IPPacket
    from primaite.simulator.network.transmission.transport_layer import TCPHeader, UDPHeader
    kw = {}
    if p["hdr"] == "tcp":
        kw["tcp"] = TCPHeader(src_port=p["sport"], dst_port=p["dport"])
    elif p["hdr"] == "udp":
        kw["udp"] = UDPHeader(src_port=p["sport"], dst_port=p["dport"])
    if p["proto"] == "icmp":
        kw["icmp"] = ICMPPacket()
    return Frame(ethernet=EthernetHeader(src_mac_addr="aa:bb:cc:dd:ee:01", dst_mac_addr="aa:bb:cc:dd:ee:02"),
                 ip=IPPacket(src_ip_address=IPv4Address(p["src"]), dst_ip_address=IPv4Address(p["dst"]), protocol=p["proto"]),
                 **kw)


def dump_impl(acl) -> str:
    out = []
    for r in acl.acl:
        if r is None:
            out.append("-")
        else:
            out.append(",".join([r.action.name, o(r.protocol), o(r.src_ip_address), o(r.src_wildcard_mask), o(r.dst_ip_address),
                                 o(r.dst_wildcard_mask), o(r.src_port), o(r.dst_port), str(r.match_count)]))
    return " ".join(out) + f" | {acl.implicit_action.name} {acl.implicit_rule.match_count}"


def read_rules(acl) -> List[Tuple[int, dict]]:
    res = []
    for i, r in enumerate(acl.acl):
        if r is not None:
            res.append((i, {"action": r.action.name, "proto": r.protocol, "src_ip": r.src_ip_address and str(r.src_ip_address),
                            "src_wc": r.src_wildcard_mask and str(r.src_wildcard_mask),
                            "dst_ip": r.dst_ip_address and str(r.dst_ip_address),
                            "dst_wc": r.dst_wildcard_mask and str(r.dst_wildcard_mask),
                            "src_port": r.src_port, "dst_port": r.dst_port}))
    return res


def _config_entry(r: dict) -> Optional[dict]:
    """The scenario-file spelling of a rule, when it has one (named ports/protocols only)."""
    e = {"action": r["action"]}
    for k in ("src_port", "dst_port"):
        if r[k] is not None:
            if r[k] not in PORT_NAMES or r[k] == 0:
                return None
            e[k] = PORT_NAMES[r[k]]
    if r["proto"] is not None:
        if r["proto"] == "none":
            return None
        e["protocol"] = PROTO_NAMES[r["proto"]]
    for k, ck in (("src_ip", "src_ip"), ("src_wc", "src_wildcard_mask"), ("dst_ip", "dst_ip"), ("dst_wc", "dst_wildcard_mask")):
        if r[k] is not None:
            e[ck] = r[k]
    return e


def _via_action(acl, kind: str, op: dict) -> str:
    """Form the request exactly as the agent actions do (router and firewall variants alternate), strip the route that
    leads to the ACL, and hand the rest to the ACL's own request manager."""
    import primaite.game.game  # noqa: F401
    from primaite.game.agent.actions.abstract import AbstractAction
    reg = AbstractAction._registry
    fw = (op["pos"] % 2 == 1)
    if kind == "add":
        r = op["rule"]
        ident = "firewall-acl-add-rule" if fw else "router-acl-add-rule"
        opts = {"position": op["pos"], "permission": r["action"],
                "src_ip": "ALL" if r["src_ip"] is None else r["src_ip"], "src_wildcard": "NONE" if r["src_wc"] is None else r["src_wc"],
                "src_port": "ALL" if r["src_port"] is None else r["src_port"],
                "dst_ip": "ALL" if r["dst_ip"] is None else r["dst_ip"], "dst_wildcard": "NONE" if r["dst_wc"] is None else r["dst_wc"],
                "dst_port": "ALL" if r["dst_port"] is None else r["dst_port"],
                "protocol_name": "ALL" if r["proto"] is None else r["proto"]}
    else:
        ident = "firewall-acl-remove-rule" if fw else "router-acl-remove-rule"
        opts = {"position": op["pos"]}
    if fw:
        opts.update(target_firewall_nodename="fw", firewall_port_name="internal", firewall_port_direction="inbound")
        strip = ["network", "node", "fw", "internal", "inbound", "acl"]
    else:
        opts.update(target_router="rt")
        strip = ["network", "node", "rt", "acl"]
    req = reg[ident].form_request(reg[ident].ConfigSchema(type=ident, **opts))
    if req[:len(strip)] != strip:
        return f"odd-route {req[:len(strip)]}"
    resp = acl.apply_request(req[len(strip):], {})
    return "ok" if resp.status == "success" else "raised"


def run_impl(case: dict) -> Tuple[List[str], int, List[Tuple[int, dict]]]:
    """Returns the output lines (aligned with model_lines), the number of slots, and rules preloaded by the surface."""
    from primaite.simulator.network.hardware.nodes.network.router import ACLAction, AccessControlList, Router
    from primaite.simulator.system.core.sys_log import SysLog
    preload: List[Tuple[int, dict]] = []
    ops = list(case["ops"])
    if case["surface"] == "config":
        # leading adds with a scenario-file spelling and distinct, in-range positions go through Router.from_config
        cfg_acl, k = {}, 0
        while k < len(ops) and ops[k]["op"] == "add":
            e = _config_entry(ops[k]["rule"])
            if e is None or not (0 <= ops[k]["pos"] < 24):
                break
            cfg_acl[ops[k]["pos"]] = e  # a repeated position overwrites, like the model's second add
            k += 1
        base = Router.from_config({"type": "router", "hostname": "r_base", "num_ports": 2})
        preload = read_rules(base.acl)
        router = Router.from_config({"type": "router", "hostname": "r_cfg", "num_ports": 2, "acl": cfg_acl})
        acl = router.acl
        case["implicit"] = acl.implicit_action.name
        out = ["ok", "ok"] + ["ok"] * len(preload) + ["ok"] * k
        rest = ops[k:]
    else:
        acl = AccessControlList(sys_log=SysLog("verif"), implicit_action=ACLAction[case["implicit"]], name="verif")
        out = ["ok", "ok"]
        rest = ops
    for op in rest:
        try:
            if op["op"] == "add" and case["surface"] == "action":
                out.append(_via_action(acl, "add", op))
            elif op["op"] == "remove" and case["surface"] == "action":
                out.append(_via_action(acl, "remove", op))
            elif op["op"] == "add":
                r = op["rule"]
                if case["surface"] == "request":
                    req = ["add_rule", r["action"], "ALL" if r["proto"] is None else r["proto"],
                           "ALL" if r["src_ip"] is None else r["src_ip"], "NONE" if r["src_wc"] is None else r["src_wc"],
                           "ALL" if r["src_port"] is None else r["src_port"],
                           "ALL" if r["dst_ip"] is None else r["dst_ip"], "NONE" if r["dst_wc"] is None else r["dst_wc"],
                           "ALL" if r["dst_port"] is None else r["dst_port"], op["pos"]]
                    resp = acl.apply_request(req, {})
                    out.append("ok" if resp.status == "success" else "raised")
                else:
                    ok = acl.add_rule(action=ACLAction[r["action"]], protocol=r["proto"], src_ip_address=r["src_ip"],
                                      src_wildcard_mask=r["src_wc"], dst_ip_address=r["dst_ip"], dst_wildcard_mask=r["dst_wc"],
                                      src_port=r["src_port"], dst_port=r["dst_port"], position=op["pos"])
                    out.append("ok" if ok else "raised")
            elif op["op"] == "remove":
                if case["surface"] == "request":
                    resp = acl.apply_request(["remove_rule", op["pos"]], {})
                    out.append("ok" if resp.status == "success" else "raised")
                else:
                    out.append("ok" if acl.remove_rule(op["pos"]) else "raised")
            else:
                out.append(verdict(acl, make_frame(op["pkt"])))
        except (ValueError, IndexError) as e:
            out.append("raised")
    out.append(dump_impl(acl))
    return out, len(acl.acl), preload
