"""R-callers: a refused agent action is, for the simulation, a step in which that agent did nothing.

The request layer leaves the state alone when it refuses (Props/C05.lean, R-req live mode).  What the CALLER does with the
non-success response (`apply_agent_actions` -> `process_action_response`, reward components, scripted agents reading their history)
is pinned by Gen/RequestCallers; this rig searches for a concrete input: two environments of the same scenario, same seed, same
history; in one the agent takes an action the request layer refuses (`failure` by a permission rule / `unreachable`), in the other
`do-nothing`; after the step — and after two more idle steps, so that a reaction deferred to the next `get_action` / `pre_timestep`
shows — `simulation.describe_state()` must be identical."""
from __future__ import annotations

import json
import re
from typing import Any, Dict, List, Optional

from harness.lib import scen

SCEN = ["data_manipulation", "test_primaite_session"]


_UUID = re.compile(r"^([0-9a-f]{8}-[0-9a-f]{4}-[0-9a-f]{4}-[0-9a-f]{4}-[0-9a-f]{12}|([0-9a-f]{2}:){5}[0-9a-f]{2})$")   # uuid4 or MAC address


def _canon(x):
    """uuids and MAC addresses are drawn afresh by every build: drop `uuid` fields, turn uuid-keyed dicts into lists ordered by content, blank uuid values"""
    if isinstance(x, dict):
        items = {k: _canon(v) for k, v in x.items() if k != "uuid"}
        drawn = sorted((v for k, v in items.items() if isinstance(k, str) and _UUID.match(k)),
                       key=lambda v: json.dumps(v, sort_keys=True, default=str))
        kept = {k: v for k, v in items.items() if not (isinstance(k, str) and _UUID.match(k))}
        kept.update({"#%03d" % i: v for i, v in enumerate(drawn)})   # also a folder NAMED after a uuid among ordinary names
        return kept
    if isinstance(x, (list, tuple)):
        return [_canon(v) for v in x]
    if isinstance(x, str) and _UUID.match(x):
        return "<uuid>"
    return x


def _state(env) -> str:
    return json.dumps(_canon(env.game.simulation.describe_state()), sort_keys=True, default=str)


def _run(cfg, seed: int, plan: List[int], last: int, tail: int, idle: int):
    env = scen.make_env(cfg)
    env.reset(seed=seed)
    for a in plan:
        env.step(a)
    env.step(last)
    item = env.agent.history[-1]
    st = getattr(item.response, "status", None)
    states = [_state(env)]
    for _ in range(tail):
        env.step(idle)
        states.append(_state(env))
    env.close()
    return st, states


def first_difference(a: str, b: str) -> str:
    da, db = json.loads(a), json.loads(b)
    path = []
    while isinstance(da, dict) and isinstance(db, dict):
        k = next((k for k in sorted(set(da) | set(db), key=str) if da.get(k) != db.get(k)), None)
        if k is None:
            break
        path.append(str(k))
        da, db = da.get(k), db.get(k)
    return "/".join(path) + f": {str(da)[:60]} != {str(db)[:60]}"


def check_one(cfg, seed: int, plan: List[int], a: int, idle: int) -> Optional[Dict[str, Any]]:
    st, sa = _run(cfg, seed, plan, a, 2, idle)
    if st not in ("failure", "unreachable"):
        return {"judged": False, "status": st}
    _, sb = _run(cfg, seed, plan, idle, 2, idle)
    for k, (x, y) in enumerate(zip(sa, sb)):
        if x != y:
            return {"judged": True, "status": st, "after": k, "diff": first_difference(x, y)}
    return {"judged": True, "status": st, "after": None}


def refused_step_is_noop(ctx) -> None:
    rng = ctx.rng.fork("callers")
    shipped = scen.shipped()
    judged = 0
    for name in [n for n in SCEN if n in shipped][: ctx.scale(1, 2)]:
        cfg = scen.load_cfg(shipped[name])
        probe = scen.make_env(cfg)
        probe.reset(seed=1)
        amap = dict(probe.agent.action_manager.action_map)
        probe.close()
        idle = next((i for i, (ident, _) in amap.items() if ident == "do-nothing"), None)
        if idle is None:
            continue
        setups = [i for i, (ident, _) in amap.items() if ident in ("node-shutdown", "node-service-stop", "node-application-close",
                                                                   "host-nic-disable", "node-file-delete")]
        kinds = sorted({amap[i][0] for i in setups})
        for n in range(ctx.scale(6, 18)):
            seed = rng.below(10 ** 6)
            # every kind of setup gets its turn (a refusal on a node that is ON — second stop of a service, second delete of a file — is
            # where a reaction of the caller can have an effect; on a node that is off everything is refused)
            of_kind = [i for i in setups if amap[i][0] == kinds[n % len(kinds)]] if kinds else []
            s = rng.choice(of_kind) if of_kind else idle
            node = amap[s][1].get("node_name")
            same = [i for i, (ident, o) in amap.items() if o.get("node_name") == node and i != s and ident != "do-nothing"]
            a = rng.choice(same) if same and not rng.chance(1, 4) else rng.below(len(amap))
            if amap[s][0] != "node-shutdown" and rng.chance(1, 2):
                a = s   # the same action again: refused by its own rule (already stopped / deleted / disabled) with the node ON
            plan = [s] + [idle] * rng.below(3)
            r = check_one(cfg, seed, plan, a, idle)
            ctx.count("callers:" + ("refused-step-compared" if r["judged"] else "not-refused:" + str(r["status"])))
            if r["judged"]:
                judged += 1
                ctx.case({"callers": name, "seed": seed, "plan": plan, "a": a}, True)
                if r["after"] is not None:
                    ctx.violation({"kind": "refused-action-changed-simulation", "action": amap[a][0], "status": r["status"]},
                                  f"{name} seed {seed}: after {[amap[x][0] for x in plan]}, env.step({a}) = {amap[a][0]} {amap[a][1]} was answered "
                                  f"{r['status']}, yet {r['after']} idle step(s) later the simulation differs from the run in which the agent did "
                                  f"nothing instead: {r['diff']}",
                                  {"mode": "refused-noop", "scenario": name, "seed": seed, "plan": plan, "action_index": a, "idle": idle})
    ctx.cov["refused_steps_compared_with_do_nothing"] = judged


def replay(rp: dict) -> bool:
    cfg = scen.load_cfg(scen.shipped()[rp["scenario"]])
    r = check_one(cfg, rp["seed"], rp["plan"], rp["action_index"], rp["idle"])
    return not (r["judged"] and r["after"] is not None)
