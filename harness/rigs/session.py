"""R-sess: drive real nodes (Computer x N on one Switch, inside a Simulation) and the Lean model (Drivers/C16.lean)
with the same operation sequences; diff every answer and the complete session-relevant state after every operation.

An operation is a small dict; `op_line` renders the model's protocol line, `Impl.apply` performs it on the real objects
(through `Simulation.apply_request` wherever a request exists, the public Python API of Node otherwise).
"""
from __future__ import annotations

import re
from typing import Dict, List, Optional, Tuple

from harness.lib.core import Rng

USERS = ["admin", "u1", "u2"]
PASSWORDS = ["admin", "pw1", "pw2"]
SVC = ["terminal", "user-manager", "user-session-manager"]
VERBS = ["stop", "start", "pause", "resume", "restart", "disable", "enable"]


def ip_of(i: int, topo: str = "switch") -> str:
    """switch: all hosts in one subnet; routed / routed2: host i alone in subnet 10.0.<i+1>.0/24 behind its own router port"""
    return f"10.0.{i + 1}.10" if topo in ("routed", "routed2") else f"192.168.0.{10 + i}"


def _ip_index(ip) -> int:
    """inverse of ip_of (also for addresses no node owns)"""
    parts = str(ip).split(".")
    return int(parts[2]) - 1 if parts[0] == "10" else int(parts[3]) - 10


# ------------------------------------------------------------------------------------------ protocol lines
# A *command* is a node-relative request (dict without the executing node); terminal commands carry a command, so they nest.
# A top-level operation names the executing node: `x` for the terminal's remote requests (whose target is `y`), `y` otherwise.
NO_SUCH_SESSION = "00000000-0000-0000-0000-00000000dead"
FILE = {"op": "file"}


def cmd_tokens(c: dict) -> List[str]:
    k = c["op"]
    if k == "file":
        return ["file", str(c["k"])]
    if k == "adduser":
        return ["adduser", c["u"], c["p"], "1" if c["admin"] else "0"]
    if k == "disable":
        return ["disable", c["u"]]
    if k == "chpw":
        return ["chpw", c["u"], c["old"], c["new"]]
    if k == "lcmd":
        return ["lcmd", c["u"], c["p"]] + cmd_tokens(c.get("cmd", FILE))
    if k == "rlogin":
        return ["rlogin", str(c["y"]), c["u"], c["p"]]
    if k == "rcmd":
        return ["rcmd", str(c["y"])] + cmd_tokens(c.get("cmd", FILE))
    if k == "rlogoff":
        return ["rlogoff", str(c["y"])]
    if k == "usmlogin":
        return ["usmlogin", c["u"], c["p"], str(c["peer"])]
    if k == "usmlogout":
        return ["usmlogout", str(c["i"])]
    if k == "svc":
        return ["svc", c["s"], c["v"]]
    if k in ("shutdown", "startup", "reset"):
        return [k]
    raise ValueError(k)


# the agent actions that build the requests of the model's operations (discriminators of primaite.game.agent.actions)
ACTION_OF = {"rlogin": "node-session-remote-login", "rlogoff": "node-session-remote-logoff", "chpw": "node-account-change-password",
             "adduser": "node-account-add-user", "disable": "node-account-disable-user", "lcmd": "node-send-local-command",
             "rcmd": "node-send-remote-command"}
ACTION_SAMPLES = [
    {"op": "rlogin", "x": 0, "y": 1, "u": "user-a", "p": "pass-b"}, {"op": "rlogoff", "x": 1, "y": 0},
    {"op": "chpw", "y": 1, "u": "user-a", "old": "old-b", "new": "new-c"}, {"op": "adduser", "y": 0, "u": "user-a", "p": "pass-b", "admin": True},
    {"op": "adduser", "y": 1, "u": "user-a", "p": "pass-b", "admin": False}, {"op": "disable", "y": 0, "u": "user-a"},
    {"op": "lcmd", "y": 0, "u": "user-a", "p": "pass-b", "cmd": {"op": "file", "k": 3}},
    {"op": "rcmd", "x": 0, "y": 1, "cmd": {"op": "lcmd", "u": "user-a", "p": "pass-b", "cmd": {"op": "file", "k": 4}}}]
REMOTE = ("rlogin", "rcmd", "rlogoff")
MEDIUM_OPS = ("block", "rpower", "arpblock", "arpclear")
# operations on connection OBJECTS somebody kept (Python API: what `Terminal.login` returns): `take x i` keeps a reference to the i-th
# object of node x's `Terminal._connections`, `hexec k cmd` = held[k].execute(cmd), `hdisc k` = held[k].disconnect()
HANDLE_OPS = ("take", "hexec", "hdisc")
NONREQ = ("tick", "llogin", "llogout", "enable", "cfguser", "take", "hdisc") + MEDIUM_OPS   # operations that are not a request to a host


def exec_node(op: dict) -> int:
    """the node a top-level request operation is sent to"""
    return op["x"] if op["op"] in REMOTE else op["y"]


def router_of(cfg: dict, i: int) -> int:
    """routed: one router (0); routed2: hosts with an even index behind router 0, odd ones behind router 1 (routers in a chain)"""
    return i % 2 if cfg.get("topo") == "routed2" else 0


def path_routers(cfg: dict, x: int, y: int) -> List[int]:
    rx, ry = router_of(cfg, x), router_of(cfg, y)
    return [rx] if rx == ry else [rx, ry]


class Medium:
    """What lies between the hosts, as far as the model's `blocked` input is concerned (the rig's abstraction of the routers):
    DENY rules per router and router power.  A direction x -> y (x = y: the gateway hairpin) is closed iff some router on its path
    denies the pair or is off.  A DENY rule for ARP closes nothing, even with every ARP cache emptied: `Router.subject_to_acl`
    exempts ARP frames from the ACL (operation `arpblock` is therefore a decoy, like a rule for another port); an ACL request sent to
    a router that is off is refused and edits nothing."""

    def __init__(self, cfg: dict):
        self.cfg = cfg
        self.nr = 2 if cfg.get("topo") == "routed2" else 1
        self.acl = [set() for _ in range(self.nr)]
        self.on = [True] * self.nr

    def apply(self, op: dict):
        k = op["op"]
        if k == "block" and op.get("how") != "decoy":
            r = op.get("at", router_of(self.cfg, op["x"]))
            if self.on[r]:
                (self.acl[r].add if op["on"] else self.acl[r].discard)((op["x"], op["y"]))
        elif k == "rpower":
            self.on[op["r"]] = op["on"]

    def closed(self, x: int, y: int) -> bool:
        return any((x, y) in self.acl[r] or not self.on[r] for r in path_routers(self.cfg, x, y))

    def matrix(self) -> str:
        n = self.cfg["n"]
        return "/".join("".join("1" if self.closed(x, y) else "0" for y in range(n)) for x in range(n))




def op_line(op: dict, medium: Optional[Medium] = None) -> str:
    k = op["op"]
    if k in MEDIUM_OPS and medium is not None:
        # the model is told the set of closed directions after the edit (`blockset` = a run of `setBlock` operations);
        # an edit that closes / opens nothing (decoy rule, ARP cache cleared, rule on a router off the path) is `blockset` of the same set
        medium.apply(op)
        return "blockset " + medium.matrix()
    if k == "enable":
        return f"enable {op['y']} {op['u']}"
    if k == "cfguser":
        return f"cfguser {op['y']} {op['u']} {op['p']} {1 if op['admin'] else 0}"
    if k == "llogin":
        return f"llogin {op['y']} {op['u']} {op['p']}"
    if k == "llogout":
        return f"llogout {op['y']}"
    if k == "tick":
        return "tick"
    if k == "block":
        # a DENY rule for another port (decoy) blocks nothing the terminal sends
        return "noop" if op.get("how") == "decoy" else f"block {op['x']} {op['y']} {int(op['on'])}"
    if k in ("rpower", "arpblock"):
        return f"{k} {op['r']} {int(op['on'])}"
    if k == "arpclear":
        return f"arpclear {op['j']}"
    if k == "take":
        return f"take {op['x']} {op['i']}"
    if k == "hdisc":
        return f"hdisc {op['k']}"
    if k == "hexec":
        return " ".join(["hexec", str(op["k"])] + cmd_tokens(op.get("cmd", FILE)))
    return " ".join(["req", str(exec_node(op))] + cmd_tokens(op))


def new_line(cfg: dict) -> str:
    # last token: routed topology = a frame a host addresses to itself comes back through its gateway
    return (f"new {cfg['n']} {cfg['su']} {cfg['sd']} {cfg['rd']} {cfg['max']} {cfg['lto']} {cfg['rto']} "
            f"{1 if cfg.get('topo') in ('routed', 'routed2') else 0}")


def model_lines(case: dict) -> List[str]:
    ops = number_commands(case["ops"])
    medium = Medium(case["cfg"])
    return ["reset", new_line(case["cfg"])] + [op_line(o, medium) for o in ops]


def _number(c: dict, i: int) -> dict:
    if c["op"] == "file":
        return dict(c, k=i)
    if c["op"] in ("rcmd", "lcmd", "hexec"):
        return dict(c, cmd=_number(c.get("cmd", FILE), i))
    return c


def number_commands(ops: List[dict]) -> List[dict]:
    """The file command inside operation i creates the file named i (fresh names: no duplicate-create)."""
    return [_number(o, i) for i, o in enumerate(ops)]


def leaf(c: dict) -> dict:
    """the innermost command of a (nested) terminal command"""
    while c["op"] in ("rcmd", "lcmd"):
        c = c.get("cmd", FILE)
    return c


def depth(c: dict) -> int:
    d = 0
    while c["op"] in ("rcmd", "lcmd"):
        c = c.get("cmd", FILE)
        d += 1
    return d


# ------------------------------------------------------------------------------------------ implementation side
class Impl:
    def __init__(self, cfg: dict):
        from primaite.simulator.network.hardware.nodes.host.computer import Computer
        from primaite.simulator.network.hardware.nodes.network.switch import Switch
        from primaite.simulator.sim_container import Simulation

        self.cfg = cfg
        self.topo = cfg.get("topo", "switch")
        self.sim = Simulation()
        net = self.sim.network
        n = cfg["n"]
        self.nodes = []
        self.router = None
        self.routers = []
        if self.topo in ("routed", "routed2"):
            # every host alone in its own subnet behind a router port: all terminal traffic crosses the ACL of one router
            # (routed) or of one or two routers in a chain (routed2: even hosts behind router 0, odd hosts behind router 1)
            from primaite.simulator.network.hardware.nodes.network.router import ACLAction, Router
            from primaite.utils.validation.ip_protocol import PROTOCOL_LOOKUP
            from primaite.utils.validation.port import PORT_LOOKUP
            nr = 2 if self.topo == "routed2" else 1
            for k in range(nr):
                r = Router.from_config({"type": "router", "hostname": "router" if k == 0 else f"router{k}", "num_ports": max(n, 2) + 1,
                                        "start_up_duration": 0, "shut_down_duration": 0})
                r.power_on()
                self.routers.append(r)
            for i in range(n):
                r = self.routers[router_of(cfg, i)]
                r.configure_port(i + 1, f"10.0.{i + 1}.1", "255.255.255.0")
                c = Computer.from_config({"type": "computer", "hostname": f"n{i}", "ip_address": ip_of(i, "routed"),
                                          "subnet_mask": "255.255.255.0", "default_gateway": f"10.0.{i + 1}.1",
                                          "start_up_duration": 0, "shut_down_duration": cfg["sd"]})
                c.power_on()
                net.add_node(c)
                self.nodes.append(c)
            for r in self.routers:
                net.add_node(r)
            for i, c in enumerate(self.nodes):
                r = self.routers[router_of(cfg, i)]
                net.connect(c.network_interface[1], r.network_interface[i + 1])
                r.enable_port(i + 1)
            if nr == 2:
                r0, r1 = self.routers
                last = max(n, 2) + 1
                r0.configure_port(last, "10.0.100.1", "255.255.255.252")
                r1.configure_port(last, "10.0.100.2", "255.255.255.252")
                net.connect(r0.network_interface[last], r1.network_interface[last])
                r0.enable_port(last)
                r1.enable_port(last)
                for i in range(n):
                    other = self.routers[1 - router_of(cfg, i)]
                    other.route_table.add_route(f"10.0.{i + 1}.0", "255.255.255.0", "10.0.100.1" if router_of(cfg, i) == 0 else "10.0.100.2")
            for r in self.routers:
                r.acl.add_rule(action=ACLAction.PERMIT, src_port=PORT_LOOKUP["ARP"], dst_port=PORT_LOOKUP["ARP"], position=22)
                r.acl.add_rule(action=ACLAction.PERMIT, protocol=PROTOCOL_LOOKUP["ICMP"], position=23)
                r.acl.add_rule(action=ACLAction.PERMIT, position=21)
            self.router = self.routers[0]
        else:
            sw = Switch.from_config({"type": "switch", "hostname": "sw", "num_ports": max(n, 2) + 1, "start_up_duration": 0})
            sw.power_on()
            for i in range(n):
                c = Computer.from_config({"type": "computer", "hostname": f"n{i}", "ip_address": ip_of(i),
                                          "subnet_mask": "255.255.255.0", "start_up_duration": 0, "shut_down_duration": cfg["sd"]})
                c.power_on()
                net.add_node(c)
                self.nodes.append(c)
            net.add_node(sw)
            for i, c in enumerate(self.nodes):
                net.connect(c.network_interface[1], sw.network_interface[i + 1])
        for c in self.nodes:
            c.config.start_up_duration = cfg["su"]
            usm = c.user_session_manager
            usm.max_remote_sessions = cfg["max"]
            usm.local_session_timeout_steps = cfg["lto"]
            usm.remote_session_timeout_steps = cfg["rto"]
            for s in SVC:
                c.software_manager.software[s].restart_duration = cfg["rd"]
        self.t = 0
        self.ip_index = {self.ip(i): i for i in range(n)}
        self.held = []     # (node index, connection object) in the order they were taken

    def ip(self, i: int) -> str:
        return ip_of(i, self.topo)

    def _denied(self, r) -> List[Tuple[int, int]]:
        """Directed pairs router `r`'s ACL denies for the terminal's frames (TCP, port 22 both ways), read back from the ACL itself:
        a DENY rule above the catch-all PERMIT whose address pair is two hosts and whose protocol / ports admit SSH."""
        out = []
        for rule in r.acl.acl[:20]:
            if rule is None or rule.action.name != "DENY" or rule.src_ip_address is None or rule.dst_ip_address is None:
                continue
            if rule.protocol not in (None, "tcp") or rule.src_port not in (None, 22) or rule.dst_port not in (None, 22):
                continue
            x, y = self.ip_index.get(str(rule.src_ip_address)), self.ip_index.get(str(rule.dst_ip_address))
            if x is not None and y is not None:
                out.append((x, y))
        return out

    def blocked(self) -> List[Tuple[int, int]]:
        """The closed directions, read back from the routers themselves (ACL rules, power state): x -> y is closed iff a router on
        its path denies the pair or is not ON (x = y: the gateway hairpin)."""
        if not self.routers:
            return []
        n = len(self.nodes)
        bad = [set(self._denied(r)) for r in self.routers]
        down = [r.operating_state.name != "ON" for r in self.routers]
        return [(x, y) for x in range(n) for y in range(n)
                if any((x, y) in bad[k] or down[k] for k in path_routers(self.cfg, x, y))]

    # -- observation
    def snap(self) -> dict:
        nodes = []
        for c in self.nodes:
            usm, um, term = c.user_session_manager, c.user_manager, c.terminal
            loc = usm.local_session
            folder = c.file_system.get_folder("root")
            files = [int(f.name) for f in folder.files.values()] if folder else []
            # what an observer sees (`describe_state`) must be the sessions the manager really holds
            ds = usm.describe_state()
            ds_ok = (ds.get("current_local_user") == (None if loc is None else loc.user.username)
                     and list(ds.get("active_remote_sessions", [])) == list(usm.remote_sessions.keys()))
            nodes.append({
                "ds_ok": ds_ok,
                "power": c.operating_state.name,
                "nic": bool(c.network_interface[1].enabled),
                "T": term.operating_state.name, "UM": um.operating_state.name, "USM": usm.operating_state.name,
                "users": [(u.username, u.password, bool(u.disabled), bool(u.is_admin)) for u in um.users.values()],
                "loc": None if loc is None else (loc.uuid, loc.user.username, loc.last_active_step),
                "rem": [(k, s.user.username, s.last_active_step, _ip_index(s.remote_ip_address))
                        for k, s in usm.remote_sessions.items()],
                "conns": [(k, self.ip_index.get(str(v.ip_address))) for k, v in term._connections.items()],
                "files": files,
                "max": usm.max_remote_sessions,
            })
        held = [(x, o.connection_uuid, self.ip_index.get(str(o.ip_address)), bool(o.is_active)) for x, o in self.held]
        return {"nodes": nodes, "t": self.t, "blk": self.blocked(), "held": held}

    # -- operations
    def _req(self, i: int, path: list) -> str:
        r = self.sim.apply_request(["network", "node", f"n{i}", *path])
        if r is None:
            return "none"
        return r.status

    def cmd_request(self, node: int, c: dict) -> list:
        """the node-relative request list of command `c` when executed on node `node`"""
        k = c["op"]
        if k == "file":
            return ["file_system", "create", "file", "root", str(c["k"]), False]
        if k == "adduser":
            return ["service", "user-manager", "add_user", c["u"], c["p"], c["admin"]]
        if k == "disable":
            return ["service", "user-manager", "disable_user", c["u"]]
        if k == "chpw":
            return ["service", "user-manager", "change_password", c["u"], c["old"], c["new"]]
        if k == "lcmd":
            return ["service", "terminal", "send_local_command", c["u"], c["p"], {"command": self.cmd_request(node, c.get("cmd", FILE))}]
        if k == "rlogin":
            return ["service", "terminal", "node_session_remote_login", c["u"], c["p"], self.ip(c["y"])]
        if k == "rcmd":
            return ["service", "terminal", "send_remote_command", self.ip(c["y"]), {"command": self.cmd_request(c["y"], c.get("cmd", FILE))}]
        if k == "rlogoff":
            return ["service", "terminal", "remote_logoff", self.ip(c["y"])]
        if k == "usmlogin":
            return ["service", "user-session-manager", "remote_login", c["u"], c["p"], self.ip(c["peer"])]
        if k == "usmlogout":
            return ["service", "user-session-manager", "remote_logout", _SessionRef(self, node, c["i"])]
        if k == "svc":
            return ["service", c["s"], c["v"]]
        if k in ("shutdown", "startup", "reset"):
            return [k]
        raise ValueError(k)

    def apply(self, op: dict) -> str:
        k = op["op"]
        if k in ("llogin", "llogout", "enable", "cfguser") and op["y"] >= len(self.nodes):
            return "unreachable"
        if k == "cfguser":   # how Node.__init__ / PrimaiteGame.from_config load the configured users
            ok = self.nodes[op["y"]].user_manager.add_user(username=op["u"], password=op["p"], is_admin=op["admin"],
                                                           bypass_can_perform_action=True)
            return "success" if ok else "failure"
        if k == "llogin":
            return "success" if self.nodes[op["y"]].local_login(op["u"], op["p"]) else "failure"
        if k == "llogout":
            return "success" if self.nodes[op["y"]].local_logout() else "failure"
        if k == "enable":
            return "success" if self.nodes[op["y"]].user_manager.enable_user(op["u"]) else "failure"
        if k == "take":
            if op["x"] >= len(self.nodes):
                return "unreachable"
            c = self.nodes[op["x"]]
            objs = list(c.terminal._connections.values())
            if op["i"] >= len(objs):
                return "failure"
            o = objs[op["i"]]
            if o.connection_uuid in c.user_session_manager.remote_sessions:
                return "failure"     # a server-side object / a node logged in to itself: not taken (see Model/SessionHandle.lean)
            self.held.append((op["x"], o))
            return "success"
        if k in ("hexec", "hdisc"):
            if op["k"] >= len(self.held):
                return "unreachable"
            x, o = self.held[op["k"]]
            is_local = type(o).__name__ == "LocalTerminalConnection"
            if k == "hdisc":
                if is_local:
                    return "unreachable"     # outside the operation set: nothing is done
                return "success" if o.disconnect() else "failure"
            if is_local:
                r = o.execute(_resolve(self.cmd_request(x, op.get("cmd", FILE))))
                return "failure" if r is None else r.status
            y = self.ip_index.get(str(o.ip_address))
            term = self.nodes[x].terminal
            term._last_response = None          # what the handler of send_remote_command does before `execute`
            o.execute(_resolve(self.cmd_request(y, op.get("cmd", FILE))))
            r = term.last_response
            return "failure" if r is None else r.status
        if k == "tick":
            self.t += 1
            self.sim.apply_timestep(self.t)
            self.sim.pre_timestep(self.t)
            return "success"
        if k == "block":
            return self.block(op)
        if k == "rpower":     # Python API: Router.power_off / power_on (durations 0: immediate)
            r = self.routers[op["r"]]
            ok = r.power_on() if op["on"] else r.power_off()
            return "success"
        if k == "arpclear":   # ARP caches emptied: of one host (j < n), of router j - n, or of everything ("all")
            for nd in self._arp_targets(op["j"]):
                nd.software_manager.arp.clear()
            return "success"
        if k == "arpblock":   # ARP "denied" at router r (a rule above the ARP permit) and every cache emptied; off: rule removed
            r = self.routers[op["r"]]
            if r.operating_state.name != "ON":
                return "success"        # ACL requests to a router that is off are refused
            if r.acl.acl[20] is not None:
                if self.sim.apply_request(["network", "node", r.config.hostname, "acl", "remove_rule", 20]).status != "success":
                    return "rig-error"
            if op["on"]:
                if self.sim.apply_request(["network", "node", r.config.hostname, "acl", "add_rule", "DENY", "UDP", "ALL", "NONE", "ARP",
                                           "ALL", "NONE", "ARP", 20]).status != "success":
                    return "rig-error"
                for nd in self._arp_targets("all"):
                    nd.software_manager.arp.clear()
            return "success"
        node = exec_node(op)
        if self.cfg.get("via") == "action" and k in ACTION_OF:
            # the request is built by the agent ACTION class (`ActionManager.form_request`: ConfigSchema(**options), then form_request),
            # not by the rig's own table: the action layer is part of what the model is compared with
            r = self.sim.apply_request(_resolve(self.action_request(node, op)))
            return "none" if r is None else r.status
        return self._req(node, _resolve(self.cmd_request(node, op)))

    def action_request(self, node: int, c: dict) -> list:
        """what the agent action for command `c` on node `node` sends (full path)"""
        import primaite.game.agent.actions  # noqa: F401  (registers the action classes)
        from primaite.game.agent.actions.abstract import AbstractAction
        k = c["op"]
        name = f"n{node}"
        if k == "rlogin":
            opts = {"node_name": name, "username": c["u"], "password": c["p"], "remote_ip": self.ip(c["y"])}
        elif k == "rlogoff":
            opts = {"node_name": name, "remote_ip": self.ip(c["y"])}
        elif k == "chpw":
            opts = {"node_name": name, "username": c["u"], "current_password": c["old"], "new_password": c["new"]}
        elif k == "adduser":
            opts = {"node_name": name, "username": c["u"], "password": c["p"], "is_admin": c["admin"]}
        elif k == "disable":
            opts = {"node_name": name, "username": c["u"]}
        elif k == "lcmd":
            opts = {"node_name": name, "username": c["u"], "password": c["p"], "command": _resolve(self.cmd_request(node, c.get("cmd", FILE)))}
        elif k == "rcmd":
            opts = {"node_name": name, "remote_ip": self.ip(c["y"]), "command": _resolve(self.cmd_request(c["y"], c.get("cmd", FILE)))}
        else:
            raise ValueError(k)
        cls = AbstractAction._registry[ACTION_OF[k]]
        return cls.form_request(config=cls.ConfigSchema(**opts))


    def _arp_targets(self, j):
        if j == "all":
            return self.nodes + self.routers
        return [self.nodes[j]] if j < len(self.nodes) else [self.routers[(j - len(self.nodes)) % len(self.routers)]]

    def block(self, op: dict) -> str:
        """One ACL position per directed pair (decoys use their own); through the router's own `acl` requests.
        how = "pair": every protocol between the two addresses; "ssh": TCP port 22 only; "decoy": TCP port 80 only (blocks nothing
        the terminal sends: the model line is `noop`)."""
        x, y, n = op["x"], op["y"], len(self.nodes)
        how = op.get("how", "pair")
        pos = 1 + x * n + y + (9 if how == "decoy" else 0)
        router = self.routers[op.get("at", router_of(self.cfg, x))]
        if router.operating_state.name != "ON":
            return "success"            # ACL requests to a router that is off are refused: nothing is edited
        rname = router.config.hostname
        acl = router.acl
        if acl.acl[pos] is not None:
            r = self.sim.apply_request(["network", "node", rname, "acl", "remove_rule", pos])
            if r.status != "success":
                return "rig-error"
        if op["on"]:
            proto, port = ("ALL", "ALL") if how == "pair" else ("TCP", "HTTP" if how == "decoy" else "SSH")
            r = self.sim.apply_request(["network", "node", rname, "acl", "add_rule", "DENY", proto, self.ip(x), "NONE", port,
                                        self.ip(y), "NONE", port, pos])
            if r.status != "success":
                return "rig-error"
        return "success"


class _SessionRef:
    """`remote_logout` takes a session id; the operation names it by position (i-th remote session of the node at the moment
    the request is executed there), so that the model and the implementation can be given the same operation."""

    def __init__(self, impl: "Impl", node: int, i: int):
        self.impl, self.node, self.i = impl, node, i

    def resolve(self) -> str:
        if self.node >= len(self.impl.nodes):
            return NO_SUCH_SESSION
        ids = list(self.impl.nodes[self.node].user_session_manager.remote_sessions)
        return ids[self.i] if self.i < len(ids) else NO_SUCH_SESSION


def _resolve(path):
    """Session references are resolved when the request is sent.  (For a reference inside a terminal command this is the
    moment the outer request is sent; generators only nest `usmlogout` where nothing on the way changes the target's sessions.)"""
    out = []
    for x in path:
        if isinstance(x, _SessionRef):
            out.append(x.resolve())
        elif isinstance(x, dict):
            out.append({k: _resolve(v) if isinstance(v, list) else v for k, v in x.items()})
        else:
            out.append(x)
    return out


def render(status: str, snap: dict) -> str:
    def o(x):
        return "-" if x is None else str(x)
    parts = []
    for nd in snap["nodes"]:
        users = ",".join(f"{u}:{p}:{int(d)}:{int(a)}" for u, p, d, a in nd["users"])
        loc = "-" if nd["loc"] is None else f"#{nd['loc'][0]}:{nd['loc'][1]}:{nd['loc'][2]}"
        rem = ",".join(f"#{i}:{u}:{l}:{p}" for i, u, l, p in nd["rem"])
        conns = ",".join(f"#{i}:{o(p)}" for i, p in nd["conns"])
        files = ",".join(str(f) for f in nd["files"])
        parts.append(f"{nd['power']} nic={int(nd['nic'])} T={nd['T']} UM={nd['UM']} USM={nd['USM']} users=[{users}] loc={loc} "
                     f"rem=[{rem}] conns=[{conns}] files=[{files}]")
    k = len(snap["nodes"])
    blk = "/".join("".join("1" if (x, y) in snap.get("blk", []) else "0" for y in range(k)) for x in range(k))
    return f"{status} | " + " ; ".join(parts) + f" ; t={snap['t']} stuck=0 blk={blk}"


_ID = re.compile(r"#([0-9a-f-]+)")


def canon_ids(lines: List[str]) -> List[str]:
    """uuids (implementation) / counters (model) -> index of first appearance in the stream."""
    seen: Dict[str, int] = {}

    def sub(m):
        return "#" + str(seen.setdefault(m.group(1), len(seen)))
    return [_ID.sub(sub, l) for l in lines]


def run_impl(case: dict) -> Tuple[List[str], List[dict], List[str]]:
    """Returns (canonical lines incl. the `reset`/`new` answers, snapshots (index 0 = initial), statuses)."""
    im = Impl(case["cfg"])
    ops = number_commands(case["ops"])
    s0 = im.snap()
    lines = ["ok", render("ok", s0)]
    snaps = [s0]
    stats = []
    for op in ops:
        try:
            st = im.apply(op)
        except Exception as e:  # a Python exception escaping a request / timestep: the trace ends here
            lines.append(f"raised:{type(e).__name__}")
            stats.append(f"raised:{type(e).__name__}")
            break
        sn = im.snap()
        snaps.append(sn)
        stats.append(st)
        lines.append(render(st, sn))
    return canon_ids(lines), snaps, stats


# ------------------------------------------------------------------------------------------ the property's oracle on the implementation
def _cred_ok(b: dict, u: str, p: str) -> bool:
    return any(n == u and pw == p and not d for n, pw, d, _ in b["users"]) and b["power"] == "ON"


TOUCHED: List[Tuple[int, str]] = []   # filled by walk(): (node, session id) of every accepted remote hop of the operation


def walk(op: dict, before: dict):
    """Follow a (nested) request through the terminals on the state BEFORE the operation.
    Returns (hops_ok, node the innermost command is executed on, innermost command, nodes where an `lcmd` hop logs in)."""
    nodes = before["nodes"]
    local_logins = []
    TOUCHED.clear()
    if op["op"] == "hexec":
        # the first hop is the kept object: a remote one needs its id to be a live session of its target AND still a key of the
        # holder's dictionary (not logged off / timed out); a local one needs its id to be the node's current local session
        held = before.get("held", [])
        c = op.get("cmd", FILE)
        if op["k"] >= len(held):
            return False, None, c, local_logins
        x, cid, peer, _active = held[op["k"]]
        if peer is None:
            ok = nodes[x]["loc"] is not None and nodes[x]["loc"][0] == cid
            cur = x
        else:
            ok = peer < len(nodes) and cid in [r[0] for r in nodes[peer]["rem"]] and any(q == cid for q, _ in nodes[x]["conns"])
            if ok:
                TOUCHED.append((peer, cid))
            cur = peer
    else:
        cur = exec_node(op)
        c = op
        ok = cur < len(nodes)
    while ok and c["op"] in ("rcmd", "lcmd"):
        if c["op"] == "rcmd":
            y = c["y"]
            first = next((cid for cid, peer in nodes[cur]["conns"] if peer == y), None)
            ok = y < len(nodes) and first is not None and first in [r[0] for r in nodes[y]["rem"]]
            if ok:
                TOUCHED.append((y, first))     # this hop is activity of session `first` of node y — and of no other session
            cur = y
        else:
            ok = _cred_ok(nodes[cur], c["u"], c["p"])
            if ok:
                local_logins.append((cur, c["u"]))
        c = c.get("cmd", FILE)
    return ok, cur, c, local_logins


HALF_OPEN = {"n": 0}
POWER_CYCLE = {"n": 0}   # commands executed on a session that had survived a power cycle of the target (observation)


def ctr_half_open(case: dict):
    """count (for the evidence histogram) logins that opened a session on the target while the client was told `failure`"""
    HALF_OPEN["n"] += 1


def oracle(case: dict, snaps: List[dict], stats: List[str]) -> Optional[Tuple[dict, str, int]]:
    """C16 evaluated directly on what the implementation did (independent of the Lean model).
    Returns (signature, message, op index) for the first failure."""
    ops = number_commands(case["ops"])
    ever: List[set] = [set() for _ in snaps[0]["nodes"]]   # remote session ids ever seen live per node
    dead: List[set] = [set() for _ in snaps[0]["nodes"]]
    orphans: List[Tuple[int, str]] = []                    # (target, session id) of logins whose reply was dropped
    cycled: List[set] = [set() for _ in snaps[0]["nodes"]]  # ids of sessions that saw their node not ON since they were opened
    for i, (op, st) in enumerate(zip(ops, stats)):
        if st.startswith("raised"):
            return ({"kind": "raised", "op": op["op"], "exc": st.split(":")[1]}, f"{op_line(op)} raised {st}", i)
        before, after = snaps[i], snaps[i + 1]
        k = op["op"]
        if k in NONREQ:
            TOUCHED.clear()
            ok_chain, final, inner, llogins = False, None, {"op": k}, []
        else:
            ok_chain, final, inner, llogins = walk(op, before)
        nested = k in ("rcmd", "lcmd")
        for j, (b, a) in enumerate(zip(before["nodes"], after["nodes"])):
            # commands run only on live sessions / valid local credentials (at every hop of a nested command)
            if a["files"] != b["files"]:
                ok = ok_chain and final == j and inner["op"] == "file" and b["power"] == "ON"
                if not ok:
                    return ({"kind": "command-without-live-session", "op": k}, f"op {i} {op_line(op)} changed files of node {j} "
                            f"without a live session / valid credentials", i)
            # sessions appear only through a valid login
            new_rem = [r for r in a["rem"] if r[0] not in [x[0] for x in b["rem"]]]
            if new_rem:
                ok = (ok_chain and len(new_rem) == 1 and _cred_ok(b, inner.get("u"), inner.get("p")) and len(b["rem"]) < b["max"]
                      and new_rem[0][1] == inner.get("u")
                      and ((inner["op"] == "rlogin" and inner["y"] == j) or (inner["op"] == "usmlogin" and final == j)))
                if not ok:
                    return ({"kind": "session-without-valid-login", "op": k}, f"op {i} {op_line(op)} created a remote session on "
                            f"node {j} without valid credentials / under the limit / power", i)
            if a["loc"] is not None and (b["loc"] is None or b["loc"][0] != a["loc"][0]):
                ok = (k == "llogin" and op["y"] == j and a["loc"][1] == op["u"] and _cred_ok(b, op["u"], op["p"])) or \
                     any(nd == j and u == a["loc"][1] for nd, u in llogins)
                if not ok:
                    return ({"kind": "session-without-valid-login", "op": k}, f"op {i} {op_line(op)} created a local session on "
                            f"node {j} without valid credentials", i)
            # ended ids never come back
            ids_a = {r[0] for r in a["rem"]}
            if ids_a & dead[j]:
                return ({"kind": "ended-session-revived", "op": k}, f"op {i} {op_line(op)}: an ended session id is valid again", i)
            ever[j] |= {r[0] for r in b["rem"]} | ids_a
            dead[j] |= ever[j] - ids_a
            if not a.get("ds_ok", True):
                return ({"kind": "describe-state-disagrees-with-sessions", "op": k}, f"op {i} {op_line(op)}: describe_state() of node {j}'s "
                        f"user-session-manager does not show its current local user / remote sessions", i)
            # limit, last admin
            if len(a["rem"]) > a["max"]:
                return ({"kind": "limit-exceeded", "op": k}, f"op {i} {op_line(op)}: more than max_remote_sessions on node {j}", i)
            if not any(adm and not d for _, _, d, adm in a["users"]):
                return ({"kind": "no-enabled-admin", "op": k, "nested": nested},
                        f"op {i} {op_line(op)}: node {j} has no enabled admin", i)
            # accounts are never removed, renamed, demoted or promoted: the old list is a prefix of the new one (name, admin flag)
            if [(u, adm) for u, _, _, adm in a["users"]][:len(b["users"])] != [(u, adm) for u, _, _, adm in b["users"]]:
                return ({"kind": "account-removed-or-flag-changed", "op": k}, f"op {i} {op_line(op)}: accounts of node {j} were "
                        f"removed / reordered / their admin flag changed", i)
            # a password change ends every session of the user on that node (whoever asked for it, at whatever depth)
            for (u, pw, _, _) in a["users"]:
                was = next((x for x in b["users"] if x[0] == u), None)
                if was is not None and was[1] != pw:
                    if any(r[1] == u for r in a["rem"]) or (a["loc"] is not None and a["loc"][1] == u):
                        return ({"kind": "session-survives-password-change", "op": k}, f"op {i} {op_line(op)}: a session of {u} "
                                f"is still open on node {j}", i)
            # one client per session id: connections with the same id on two nodes point at each other
            for cid, peer in a["conns"]:
                for j2, a2 in enumerate(after["nodes"]):
                    if j2 != j and any(c2 == cid and (peer != j2 or p2 != j) for c2, p2 in a2["conns"]):
                        return ({"kind": "connection-id-shared", "op": k}, f"op {i} {op_line(op)}: connection id held by nodes "
                                f"{j} and {j2} that are not each other's peer", i)
        # a successful login answer needs valid credentials on the target
        if k == "rlogin" and st == "success":
            y = op["y"]
            b = before["nodes"][y] if y < len(before["nodes"]) else None
            if b is None or not _cred_ok(b, op["u"], op["p"]):
                return ({"kind": "login-without-valid-credentials", "op": k}, f"op {i} {op_line(op)} answered success", i)
        # the credentials supplied WITH a local command / local login are checked every time (also while that user is logged in, after
        # the account was disabled, after its password changed): without them nothing at all changes on any node
        if k in ("lcmd", "llogin") and op["y"] < len(before["nodes"]) and not _cred_ok(before["nodes"][op["y"]], op["u"], op["p"]):
            if after["nodes"] != before["nodes"] or (k == "llogin" and st == "success"):
                why = "logged in locally" if (before["nodes"][op["y"]]["loc"] or (None, None))[1] == op["u"] else "not logged in"
                return ({"kind": "local-credentials-not-checked", "op": k, "user-was": why},
                        f"op {i} {op_line(op)}: accepted without the current password of an enabled account (user {why})", i)
        # which ending event needs which service: the direct logout and the local logout need the node ON and its user-session-manager
        # RUNNING — otherwise nothing changes; a password change needs the user-manager (not the session manager)
        if k in ("usmlogout", "llogout") and op["y"] < len(before["nodes"]):
            b = before["nodes"][op["y"]]
            if (b["power"] != "ON" or b["USM"] != "RUNNING") and (after["nodes"] != before["nodes"] or st == "success"):
                return ({"kind": "logout-without-running-session-manager", "op": k}, f"op {i} {op_line(op)}: took effect although the "
                        f"user-session-manager of node {op['y']} was {b['USM']} / the node {b['power']}", i)
        if k == "chpw" and st == "success":
            b = before["nodes"][op["y"]]
            if b["power"] != "ON" or b["UM"] != "RUNNING":
                return ({"kind": "password-change-without-user-manager", "op": k}, f"op {i} {op_line(op)} answered success", i)
        if k in ("llogin", "usmlogin") and st == "success":
            b = before["nodes"][op["y"]]
            if not _cred_ok(b, op["u"], op["p"]):
                return ({"kind": "login-without-valid-credentials", "op": k}, f"op {i} {op_line(op)} answered success", i)
        # observation (not a violation, see DESIGN 9.6.C16 addendum 4): sessions survive a power cycle of their node
        for j, a in enumerate(after["nodes"]):
            live = {r[0] for r in a["rem"]}
            cycled[j] &= live
            if a["power"] != "ON":
                cycled[j] |= live
        if k == "rcmd" and op.get("cmd", FILE)["op"] == "file" and op["y"] < len(before["nodes"]) and \
                after["nodes"][op["y"]]["files"] != before["nodes"][op["y"]]["files"] and TOUCHED and TOUCHED[0][1] in cycled[op["y"]]:
            POWER_CYCLE["n"] += 1
        # the answer of a remote command tells what happened on the target: success only if executed; an executed command is
        # answered success unless the answer could not travel back (reply direction blocked between the hosts)
        if k == "rcmd" and op.get("cmd", FILE)["op"] == "file":
            y = op["y"]
            changed = y < len(before["nodes"]) and after["nodes"][y]["files"] != before["nodes"][y]["files"]
            reply_blocked = (y, op["x"]) in before.get("blk", [])
            if (st == "success" and not changed) or (changed and st != "success" and not reply_blocked):
                return ({"kind": "remote-command-answer-wrong", "op": k, "answer": st, "executed": changed},
                        f"op {i} {op_line(op)} answered {st} but the command was {'executed' if changed else 'not executed'}", i)
        # a kept connection object: `success` only for an executed command; `is_active` is never set again
        if k == "hexec" and op.get("cmd", FILE)["op"] == "file" and st == "success" and \
                all(a["files"] == b["files"] for a, b in zip(after["nodes"], before["nodes"])):
            return ({"kind": "handle-answer-wrong", "op": k}, f"op {i} {op_line(op)} answered success but no command was executed", i)
        if k == "hdisc" and st == "success" and op["k"] < len(after.get("held", [])) and after["held"][op["k"]][3]:
            return ({"kind": "handle-active-after-disconnect", "op": k}, f"op {i} {op_line(op)}: the object is still active after its own disconnect()", i)
        for hb, ha in zip(before.get("held", []), after.get("held", [])):
            if ha[3] and not hb[3]:
                return ({"kind": "handle-reactivated", "op": k}, f"op {i} {op_line(op)}: is_active of a kept connection went back to True", i)
        # the answer of a login tells what happened: success => the client holds a connection whose id is a session of the target;
        # a session opened on the target although the client was told `failure` only if the answer could not travel back
        if k == "rlogin":
            x, y = op["x"], op["y"]
            if st == "success":
                ids_y = {r[0] for r in after["nodes"][y]["rem"]} if y < len(after["nodes"]) else set()
                newc = [c for c in after["nodes"][x]["conns"] if c not in before["nodes"][x]["conns"]]
                if not any(cid in ids_y and peer == y for cid, peer in newc) or (x, y) in before.get("blk", []) \
                        or (y, x) in before.get("blk", []):
                    return ({"kind": "login-answer-wrong", "op": k, "answer": st},
                            f"op {i} {op_line(op)} answered success without a client connection on a live session / over a blocked path", i)
            elif y < len(before["nodes"]) and x < len(before["nodes"]) and \
                    len(after["nodes"][y]["rem"]) > len(before["nodes"][y]["rem"]):
                if (y, x) not in before.get("blk", []) and before["nodes"][x]["T"] == "RUNNING":
                    return ({"kind": "login-answer-wrong", "op": k, "answer": st},
                            f"op {i} {op_line(op)} answered {st} although the target opened a session and the reply path was open", i)
                ctr_half_open(case)
                orphans += [(y, r[0]) for r in after["nodes"][y]["rem"] if r[0] not in {q[0] for q in before["nodes"][y]["rem"]}]
        # a session whose client never learnt of it: no node but the target ever holds a connection with its id
        for (oy, oid) in orphans:
            for j, a in enumerate(after["nodes"]):
                if j != oy and any(cid == oid for cid, _ in a["conns"]):
                    return ({"kind": "orphan-session-got-a-client", "op": k}, f"op {i} {op_line(op)}: node {j} holds a connection "
                            f"with the id of a session of node {oy} whose login was answered failure", i)
        if k == "chpw" and st == "success":
            a = after["nodes"][op["y"]]
            if any(r[1] == op["u"] for r in a["rem"]) or (a["loc"] is not None and a["loc"][1] == op["u"]):
                return ({"kind": "session-survives-password-change", "op": k}, f"op {i} {op_line(op)}: a session of {op['u']} "
                        f"is still open", i)
        # a client-side logoff leaves no connection with that id on any node other than the target
        if k == "rlogoff" and st == "success":
            x, y = op["x"], op["y"]
            cid = next((c for c, peer in before["nodes"][x]["conns"] if peer == y), None)
            for j, a in enumerate(after["nodes"]):
                if j != y and any(c == cid for c, _ in a["conns"]):
                    return ({"kind": "logoff-left-client-connection", "op": k}, f"op {i} {op_line(op)}: node {j} still holds the "
                            f"connection", i)
        # time-out, each kind with ITS OWN configured number of steps: after a tick no session idle for >= timeout steps is left,
        # and a tick ends no session earlier (a tick does nothing else to sessions)
        if k == "tick":
            rto, lto = case["cfg"]["rto"], case["cfg"]["lto"]
            for j, (b, a) in enumerate(zip(before["nodes"], after["nodes"])):
                if any(l + rto <= after["t"] for _, _, l, _ in a["rem"]):
                    return ({"kind": "timeout-missed", "session": "remote"}, f"op {i}: node {j} keeps a remote session past its "
                            f"time-out ({rto} steps)", i)
                if a["loc"] is not None and a["loc"][2] + lto <= after["t"]:
                    return ({"kind": "timeout-missed", "session": "local"}, f"op {i}: node {j} keeps a local session past its "
                            f"time-out ({lto} steps)", i)
                kept = {r[0] for r in a["rem"]}
                if any(r[0] not in kept and r[2] + rto > after["t"] for r in b["rem"]):
                    return ({"kind": "timeout-early", "session": "remote"}, f"op {i}: node {j} ended a remote session idle for "
                            f"fewer than its {rto} steps", i)
                if b["loc"] is not None and a["loc"] is None and b["loc"][2] + lto > after["t"]:
                    return ({"kind": "timeout-early", "session": "local"}, f"op {i}: node {j} ended a local session idle for "
                            f"fewer than its {lto} steps", i)
        # the inactivity clock: `last_active_step` of a session changes only by a terminal command (accepted on that session) and only
        # to the current step; the clock of a local session is never moved
        for j, (b, a) in enumerate(zip(before["nodes"], after["nodes"])):
            was = {r[0]: r[2] for r in b["rem"]}
            for r in a["rem"]:
                if r[0] in was and was[r[0]] != r[2] and (k in NONREQ or (j, r[0]) not in TOUCHED or r[2] != before["t"]):
                    return ({"kind": "clock-moved", "op": k}, f"op {i} {op_line(op)} moved the inactivity clock of a remote session "
                            f"of node {j} that no accepted hop of the command travelled on", i)
            if b["loc"] is not None and a["loc"] is not None and b["loc"][0] == a["loc"][0] and b["loc"][2] != a["loc"][2]:
                return ({"kind": "clock-moved", "op": k}, f"op {i} {op_line(op)} moved the clock of the local session of node {j}", i)
    return None


# ------------------------------------------------------------------------------------------ generation
def gen_cfg(rng: Rng) -> dict:
    # start-up / shut-down duration 0 = the node changes state inside the request (DESIGN F-14 and its reset twin are repaired)
    return {"n": rng.choice([2, 3, 3]), "su": rng.choice([0, 1, 1, 2]), "sd": rng.choice([0, 1, 1, 2]), "rd": rng.choice([1, 2]),
            "max": rng.choice([1, 2, 3]), "lto": rng.choice([2, 3, 5]), "rto": rng.choice([2, 3, 4, 6]),
            "topo": rng.choice(["switch", "switch", "routed", "routed", "routed2"])}


def _creds(rng: Rng, known: Dict[int, Dict[str, str]], y: int):
    users = known.get(y, {"admin": "admin"})
    u = rng.choice(list(users)) if not rng.chance(1, 8) else rng.choice(USERS)
    right = users.get(u, "admin")
    p = right if rng.chance(3, 4) else rng.choice(PASSWORDS)
    return u, p


def gen_cmd(rng: Rng, cfg: dict, known: Dict[int, Dict[str, str]], node: int, fuel: int) -> dict:
    """a command to be executed on `node` (what a terminal command carries); mostly the file command, otherwise any request,
    including terminal requests towards a further node (nesting depth bounded by `fuel`)"""
    n = cfg["n"]
    r = rng.below(100)
    if r < 45 or node >= n:
        return dict(FILE)
    u, p = _creds(rng, known, node)
    if r < 53:
        return {"op": "disable", "u": u}
    if r < 59:
        return {"op": "adduser", "u": rng.choice(USERS + ADMINS), "p": rng.choice(PASSWORDS), "admin": rng.chance(1, 2)}
    if r < 66:
        return {"op": "chpw", "u": u, "old": p, "new": rng.choice(PASSWORDS)}
    if r < 70:
        return {"op": "svc", "s": rng.choice(SVC), "v": rng.choice(["stop", "start", "restart", "pause"])}
    if r < 72:
        return {"op": rng.choice(["shutdown", "reset"])}
    if r < 75:
        return {"op": "usmlogout", "i": rng.below(3)}
    if r < 78:
        return {"op": "usmlogin", "u": u, "p": p, "peer": rng.below(n + 1)}
    z = rng.below(n)
    if z == node and not rng.chance(1, 10):
        z = (node + 1) % n
    if r < 84:
        uz, pz = _creds(rng, known, z)
        return {"op": "rlogin", "y": z, "u": uz, "p": pz}
    if r < 87:
        return {"op": "rlogoff", "y": z}
    if fuel <= 0:
        return dict(FILE)
    if r < 95:
        return {"op": "rcmd", "y": z, "cmd": gen_cmd(rng, cfg, known, z, fuel - 1)}
    return {"op": "lcmd", "u": u, "p": p, "cmd": gen_cmd(rng, cfg, known, node, fuel - 1)}


ADMINS = ["adm2", "adm3"]


def gen_op(rng: Rng, cfg: dict, known: Dict[int, Dict[str, str]], malformed: bool = False) -> dict:
    """known[y] = the generator's idea of user -> current password on node y (kept mostly right)."""
    n = cfg["n"]
    y = rng.below(n)
    x = rng.below(n)
    if x == y and not rng.chance(1, 10):
        x = (y + 1) % n
    if malformed and rng.chance(1, 3):
        y = rng.choice([n, n + 1])          # an address nobody owns
    u, p = _creds(rng, known, y)
    if cfg.get("topo") in ("routed", "routed2") and rng.chance(1, 10):
        return gen_medium(rng, cfg)
    r = rng.below(100)
    if r < 14:
        return {"op": "rlogin", "x": x, "y": y, "u": u, "p": p}
    if r < 34:
        return {"op": "rcmd", "x": x, "y": y, "cmd": gen_cmd(rng, cfg, known, y, 2)}
    if r < 40:
        return {"op": "rlogoff", "x": x, "y": y}
    if r < 54:
        return {"op": "tick"}
    if r < 59:
        return {"op": "adduser", "y": y, "u": rng.choice(USERS + ADMINS), "p": rng.choice(PASSWORDS), "admin": rng.chance(1, 2)}
    if r < 64:
        return {"op": "disable", "y": y, "u": u}
    if r < 65:
        return {"op": "enable", "y": y, "u": u}
    if r < 66:
        return {"op": "cfguser", "y": y, "u": rng.choice(USERS + ADMINS), "p": rng.choice(PASSWORDS), "admin": rng.chance(1, 2)}
    if r < 72:
        return {"op": "chpw", "y": y, "u": u, "old": p, "new": rng.choice(PASSWORDS)}
    if r < 76:
        return {"op": "llogin", "y": y, "u": u, "p": p}
    if r < 78:
        return {"op": "llogout", "y": y}
    if r < 82:
        return {"op": "lcmd", "y": y, "u": u, "p": p, "cmd": gen_cmd(rng, cfg, known, y, 2)}
    if r < 84:
        return {"op": "usmlogin", "y": y, "u": u, "p": p, "peer": rng.below(n + 1)}
    if r < 86:
        return {"op": "usmlogout", "y": y, "i": rng.below(3)}
    if r < 87:
        return {"op": "file", "y": y}
    if r < 93:
        return {"op": "svc", "y": y, "s": rng.choice(SVC), "v": rng.choice(VERBS if rng.chance(1, 2) else ["stop", "start", "restart"])}
    if r < 96:
        return {"op": "shutdown", "y": y}
    if r < 99:
        return {"op": "startup", "y": y}
    return {"op": "reset", "y": y}


def local_story(rng: Rng, cfg: dict, known: Dict[int, Dict[str, str]]) -> List[dict]:
    """A user logged in locally, then local logins / commands for that account with wrong credentials, after the account was
    disabled, after its password changed, after the session timed out or was logged out — and with the right ones again."""
    n = cfg["n"]
    y = rng.below(n)
    u, pw = rng.choice([("admin", "admin"), ("u1", "pw1"), ("adm2", "pw2")])
    ops: List[dict] = []
    if u != "admin":
        ops.append({"op": rng.choice(["adduser", "cfguser"]), "y": y, "u": u, "p": pw, "admin": u == "adm2"})
        known[y][u] = pw
    ops.append(rng.choice([{"op": "llogin", "y": y, "u": u, "p": pw}, {"op": "lcmd", "y": y, "u": u, "p": pw, "cmd": dict(FILE)}]))
    wrong = rng.choice([q for q in PASSWORDS if q != pw])

    def attempt(p):
        r = rng.below(4)
        if r == 0:
            return {"op": "llogin", "y": y, "u": u, "p": p}
        inner = dict(FILE) if r < 3 else rng.choice([{"op": "adduser", "u": "u2", "p": "pw2", "admin": True}, {"op": "disable", "u": "admin"},
                                                     {"op": "chpw", "u": u, "old": p, "new": "admin"}])
        return {"op": "lcmd", "y": y, "u": u, "p": p, "cmd": inner}
    ops += [attempt(wrong), attempt(pw)]
    for _ in range(rng.range(1, 3)):
        ev = rng.below(6)
        if ev == 0 and u != "admin":
            ops += [{"op": "disable", "y": y, "u": u}, attempt(pw), attempt(wrong)]
            if rng.chance(1, 2):
                ops += [{"op": "enable", "y": y, "u": u}, attempt(pw)]
        elif ev == 1:
            new = rng.choice([q for q in PASSWORDS if q != pw])
            ops += [{"op": "chpw", "y": y, "u": u, "old": pw, "new": new}, attempt(pw), attempt(new)]
            known[y][u] = pw = new
        elif ev == 2:
            ops += [{"op": "tick"}] * cfg["lto"] + [attempt(wrong), attempt(pw)]
        elif ev == 3:
            ops += [{"op": "llogout", "y": y}, attempt(wrong), attempt(pw)]
        elif ev == 4:
            ops += [{"op": "svc", "y": y, "s": rng.choice(["user-manager", "user-session-manager"]), "v": "stop"}, attempt(pw), attempt(wrong)]
        else:
            ops += [{"op": "lcmd", "y": y, "u": "admin", "p": "admin", "cmd": dict(FILE)}, attempt(wrong), attempt(pw)]
    return ops


def local_alphabet() -> List[dict]:
    """Bounded-exhaustive family for the local command path on node 1 (accounts admin and the second administrator u1/pw1): right and
    wrong credentials for a local login and a local command, the other account, disable / enable, password change, the new password,
    logout, tick."""
    return [
        {"op": "llogin", "y": 1, "u": "admin", "p": "admin"},
        {"op": "llogin", "y": 1, "u": "admin", "p": "pw2"},
        {"op": "lcmd", "y": 1, "u": "admin", "p": "admin"},
        {"op": "lcmd", "y": 1, "u": "admin", "p": "pw2"},
        {"op": "lcmd", "y": 1, "u": "admin", "p": "pw1"},
        {"op": "lcmd", "y": 1, "u": "u1", "p": "pw1"},
        {"op": "disable", "y": 1, "u": "admin"},
        {"op": "enable", "y": 1, "u": "admin"},
        {"op": "chpw", "y": 1, "u": "admin", "old": "admin", "new": "pw1"},
        {"op": "llogout", "y": 1},
        {"op": "tick"},
    ]


LOCAL_PREFIX = [{"op": "adduser", "y": 1, "u": "u1", "p": "pw1", "admin": True}]


def gen_block(rng: Rng, cfg: dict, on: Optional[bool] = None) -> dict:
    n = cfg["n"]
    x = rng.below(n)
    y = (x + 1 + rng.below(n - 1)) % n
    return {"op": "block", "x": x, "y": y, "on": rng.chance(3, 5) if on is None else on, "how": rng.choice(["pair", "ssh", "ssh", "decoy"])}


def gen_medium(rng: Rng, cfg: dict) -> dict:
    """an edit of what lies between the hosts: an ACL rule (on a router of the path, sometimes on one off the path), router power,
    ARP caches cleared, ARP denied"""
    nr = 2 if cfg["topo"] == "routed2" else 1
    r = rng.below(100)
    if r < 55:
        op = gen_block(rng, cfg)
        if nr == 2:
            op["at"] = rng.choice(path_routers(cfg, op["x"], op["y"])) if rng.chance(5, 6) else rng.below(2)
        return op
    if r < 75:
        return {"op": "rpower", "r": rng.below(nr), "on": rng.chance(1, 2)}
    if r < 88:
        return {"op": "arpclear", "j": rng.choice(["all"] + list(range(cfg["n"] + nr)))}
    return {"op": "arpblock", "r": rng.below(nr), "on": rng.chance(1, 2)}


def lower_layer_story(rng: Rng, cfg: dict) -> List[dict]:
    """A session across the router(s); then a router is powered off, or ARP is denied and every cache emptied, or all caches are
    cleared, in the middle of the session; a command / logoff / time-out happens meanwhile; the medium comes back and both ends are
    used again."""
    n = cfg["n"]
    nr = 2 if cfg["topo"] == "routed2" else 1
    y = rng.below(n)
    x = (y + 1 + rng.below(n - 1)) % n
    login = {"op": "rlogin", "x": x, "y": y, "u": "admin", "p": "admin"}
    cmd = {"op": "rcmd", "x": x, "y": y, "cmd": dict(FILE)}
    r = rng.choice(path_routers(cfg, x, y))
    down, up = rng.choice([({"op": "rpower", "r": r, "on": False}, {"op": "rpower", "r": r, "on": True}),
                           ({"op": "arpblock", "r": r, "on": True}, {"op": "arpblock", "r": r, "on": False})])
    meanwhile = rng.choice([[cmd], [{"op": "rlogoff", "x": x, "y": y}], [{"op": "tick"}] * cfg["rto"],
                            [{"op": "chpw", "y": y, "u": "admin", "old": "admin", "new": "admin"}], [login]])
    ops = [login] + [{"op": "tick"}] * rng.below(2) + [cmd, {"op": "arpclear", "j": "all"}, cmd, down] + meanwhile + [cmd, up, cmd, login, cmd]
    return ops


def transport_story(rng: Rng, cfg: dict) -> List[dict]:
    """Routed topology: a session between x and y with one direction of the path blocked at the moment of the login, of a command,
    of the logoff or of the time-out notification; then the path is opened again and the (stale / half-open) ends are used."""
    n = cfg["n"]
    y = rng.below(n)
    x = (y + 1 + rng.below(n - 1)) % n
    how = rng.choice(["pair", "ssh"])
    login = {"op": "rlogin", "x": x, "y": y, "u": "admin", "p": "admin"}
    cmd = {"op": "rcmd", "x": x, "y": y, "cmd": dict(FILE)}
    back = {"op": "block", "x": y, "y": x, "on": True, "how": how}
    forth = {"op": "block", "x": x, "y": y, "on": True, "how": how}
    kind = rng.below(6)
    idle = [{"op": "tick"}] * rng.below(min(2, cfg["rto"] - 1) + 1)     # so that the session's clock differs from the current step
    login_idle = [login] + idle
    if kind == 0:      # login whose reply is dropped: session on the target, the client does not know it
        ops = [back] + [login] * rng.range(1, cfg["max"] + 1) + [dict(back, on=False), cmd, login, cmd]
    elif kind == 1:    # command whose answer is dropped
        ops = login_idle + [back, cmd, cmd, dict(back, on=False), cmd]
    elif kind == 2:    # logoff that never reaches the target: the session waits for its time-out
        ops = login_idle + [forth, {"op": "rlogoff", "x": x, "y": y}, dict(forth, on=False), cmd, login] + [{"op": "tick"}] * cfg["rto"]
    elif kind == 3:    # time-out whose notification is dropped: the client keeps a stale connection
        ops = [login, back] + [{"op": "tick"}] * cfg["rto"] + [dict(back, on=False), cmd, login, cmd]
    elif kind == 4:    # request direction blocked: nothing reaches the target
        ops = [forth, login, dict(forth, on=False)] + login_idle + [forth, cmd, {"op": "tick"}, dict(forth, on=False), cmd]
    else:              # password change / direct logout on the target while the disconnect message cannot travel
        ops = [login, back, rng.choice([{"op": "chpw", "y": y, "u": "admin", "old": "admin", "new": "pw1"},
                                        {"op": "usmlogout", "y": y, "i": 0}]), dict(back, on=False), cmd,
               {"op": "rlogin", "x": x, "y": y, "u": "admin", "p": "pw1"}, cmd]
    return ops


def track(known: Dict[int, Dict[str, str]], op: dict):
    """Optimistic bookkeeping of credentials so that later operations are mostly valid."""
    if op["op"] == "cfguser":
        known.setdefault(op["y"], {"admin": "admin"}).setdefault(op["u"], op["p"])
        return
    if op["op"] in NONREQ:
        return
    _, node, c, _ = walk_static(op)
    if c["op"] == "adduser":
        known.setdefault(node, {"admin": "admin"}).setdefault(c["u"], c["p"])
    if c["op"] == "chpw":
        us = known.setdefault(node, {"admin": "admin"})
        if us.get(c["u"]) == c["old"]:
            us[c["u"]] = c["new"]


def walk_static(op: dict):
    cur = exec_node(op)
    c = op
    while c["op"] in ("rcmd", "lcmd"):
        if c["op"] == "rcmd":
            cur = c["y"]
        c = c.get("cmd", FILE)
    return True, cur, c, []


def admin_story(rng: Rng, cfg: dict, known: Dict[int, Dict[str, str]]) -> List[dict]:
    """Several administrator accounts on one node, some of them disabled (directly, through a remote terminal command, or
    through a local one), some enabled again, then every remaining enabled administrator is attacked the same three ways."""
    n = cfg["n"]
    y = rng.below(n)
    x = (y + 1 + rng.below(n - 1)) % n
    ops: List[dict] = []
    admins = ["admin"]
    for name in ADMINS[: rng.range(1, 2)]:
        pw = rng.choice(PASSWORDS)
        ops.append({"op": "adduser", "y": y, "u": name, "p": pw, "admin": True})
        known[y][name] = pw
        admins.append(name)
    if rng.chance(1, 2):
        ops.append({"op": "adduser", "y": y, "u": "u1", "p": "pw1", "admin": False})
        known[y]["u1"] = "pw1"
    via_remote = rng.chance(2, 3)
    if via_remote:
        who = rng.choice(admins)
        ops.append({"op": "rlogin", "x": x, "y": y, "u": who, "p": known[y][who]})

    def attack(u: str) -> dict:
        how = rng.below(3 if via_remote else 2)
        if how == 0:
            return {"op": "disable", "y": y, "u": u}
        if how == 1:
            who = rng.choice(admins)
            return {"op": "lcmd", "y": y, "u": who, "p": known[y][who], "cmd": {"op": "disable", "u": u}}
        return {"op": "rcmd", "x": x, "y": y, "cmd": {"op": "disable", "u": u}}
    order = rng.shuffle(admins)
    for u in order[:-1] if rng.chance(3, 4) else order:
        ops.append(attack(u))
        if rng.chance(1, 5):
            ops.append({"op": "enable", "y": y, "u": rng.choice(admins)})
        if rng.chance(1, 6):
            ops.append({"op": "tick"})
    for u in order[::-1]:
        ops.append(attack(u))
        if rng.chance(1, 3):   # the other editors: overwrite attempts and a password change of an administrator
            v = rng.choice(admins)
            ops.append(rng.choice([{"op": "adduser", "y": y, "u": v, "p": "pw1", "admin": False},
                                   {"op": "cfguser", "y": y, "u": v, "p": "pw1", "admin": False},
                                   {"op": "chpw", "y": y, "u": v, "old": known[y][v], "new": known[y][v]}]))
    return ops


def gen_case(rng: Rng, max_ops: int = 30) -> dict:
    cfg = gen_cfg(rng)
    known: Dict[int, Dict[str, str]] = {i: {"admin": "admin"} for i in range(cfg["n"])}
    ops: List[dict] = []
    malformed = rng.chance(1, 6)
    story = rng.below(8)
    n = cfg["n"]
    if story == 0:      # several sessions of one user, then a password change, then commands
        for _ in range(rng.range(2, cfg["max"] + 1)):
            ops.append({"op": "rlogin", "x": rng.choice([0, n - 1]), "y": 1 % n if n > 1 else 0, "u": "admin", "p": "admin"})
        if rng.chance(1, 2):
            ops.append({"op": "llogin", "y": 1, "u": "admin", "p": "admin"})
    elif story == 1:    # run into the session limit
        for _ in range(cfg["max"] + 1):
            ops.append({"op": "rlogin", "x": 0, "y": 1, "u": "admin", "p": "admin"})
    elif story == 2:    # idle until the time-out boundary
        ops.append({"op": "rlogin", "x": 0, "y": 1, "u": "admin", "p": "admin"})
        ops += [{"op": "tick"}] * (cfg["rto"] - 1)
    elif story == 3:    # the target loses power / its services while a session is open
        ops.append({"op": "rlogin", "x": 0, "y": 1, "u": "admin", "p": "admin"})
        ops.append(rng.choice([{"op": "shutdown", "y": 1}, {"op": "svc", "y": 1, "s": rng.choice(SVC), "v": "stop"},
                               {"op": "shutdown", "y": 0}, {"op": "svc", "y": 0, "s": "terminal", "v": "stop"}]))
    elif story in (4, 5):   # several administrators, the last enabled one attacked
        ops += admin_story(rng, cfg, known)
    elif story == 6 and n >= 3:    # a chain of sessions 0 -> 1 -> 2, so that nested commands find live sessions
        ops.append({"op": "rlogin", "x": 0, "y": 1, "u": "admin", "p": "admin"})
        ops.append({"op": "rcmd", "x": 0, "y": 1, "cmd": {"op": "rlogin", "y": 2, "u": "admin", "p": "admin"}})
        ops.append({"op": "rcmd", "x": 0, "y": 1, "cmd": {"op": "rcmd", "y": 2, "cmd": dict(FILE)}})
    elif story == 7:               # the local command path: credentials are checked with every command
        ops += local_story(rng, cfg, known)
    if rng.chance(1, 6):           # a session across a power cycle
        ops += power_cycle_story(rng, cfg)
    if cfg["topo"] in ("routed", "routed2") and rng.chance(1, 2):
        for o in (transport_story(rng, cfg) if rng.chance(1, 2) else lower_layer_story(rng, cfg)):
            track(known, o)
            ops.append(o)
    for _ in range(rng.range(3, max_ops)):
        op = gen_op(rng, cfg, known, malformed)
        track(known, op)
        ops.append(op)
    return {"cfg": cfg, "ops": ops}


def alphabet(cfg: dict) -> List[dict]:
    """Operation instances of the bounded-exhaustive family (two nodes: 0 = client, 1 = target)."""
    return [
        {"op": "rlogin", "x": 0, "y": 1, "u": "admin", "p": "admin"},
        {"op": "rlogin", "x": 0, "y": 1, "u": "admin", "p": "pw1"},
        {"op": "rcmd", "x": 0, "y": 1},
        {"op": "rlogoff", "x": 0, "y": 1},
        {"op": "chpw", "y": 1, "u": "admin", "old": "admin", "new": "pw1"},
        {"op": "tick"},
        {"op": "svc", "y": 1, "s": "user-session-manager", "v": "stop"},
        {"op": "svc", "y": 1, "s": "terminal", "v": "restart"},
        {"op": "shutdown", "y": 1},
        {"op": "startup", "y": 1},
        {"op": "svc", "y": 0, "s": "terminal", "v": "stop"},
        {"op": "disable", "y": 1, "u": "admin"},
        {"op": "adduser", "y": 1, "u": "u1", "p": "pw1", "admin": True},
        {"op": "lcmd", "y": 1, "u": "admin", "p": "admin"},
    ]


def admin_alphabet() -> List[dict]:
    """Bounded-exhaustive family for the last-administrator rule: two administrator accounts on node 1, every way to disable /
    enable them (direct request, remote terminal command, local terminal command, Python API for enable)."""
    out = []
    for u in ("admin", "adm2"):
        out.append({"op": "disable", "y": 1, "u": u})
        out.append({"op": "rcmd", "x": 0, "y": 1, "cmd": {"op": "disable", "u": u}})
        out.append({"op": "enable", "y": 1, "u": u})
    out.append({"op": "lcmd", "y": 1, "u": "adm2", "p": "pw2", "cmd": {"op": "disable", "u": "admin"}})
    out.append({"op": "adduser", "y": 1, "u": "adm3", "p": "pw1", "admin": True})
    # every other editor aimed at the administrators: add_user with an existing name and is_admin=False (request and config API),
    # a password change of an administrator
    out.append({"op": "adduser", "y": 1, "u": "admin", "p": "pw1", "admin": False})
    out.append({"op": "cfguser", "y": 1, "u": "adm2", "p": "pw1", "admin": False})
    out.append({"op": "chpw", "y": 1, "u": "admin", "old": "admin", "new": "pw1"})
    return out


ADMIN_PREFIX = [{"op": "adduser", "y": 1, "u": "adm2", "p": "pw2", "admin": True},
                {"op": "rlogin", "x": 0, "y": 1, "u": "admin", "p": "admin"}]


def session_alphabet() -> List[dict]:
    """Bounded-exhaustive family for the direct user-session-manager requests and nested commands (three nodes)."""
    return [
        {"op": "usmlogin", "y": 1, "u": "admin", "p": "admin", "peer": 0},
        {"op": "usmlogin", "y": 1, "u": "admin", "p": "pw1", "peer": 2},
        {"op": "usmlogout", "y": 1, "i": 0},
        {"op": "usmlogout", "y": 1, "i": 1},
        {"op": "rlogin", "x": 0, "y": 1, "u": "admin", "p": "admin"},
        {"op": "rcmd", "x": 0, "y": 1, "cmd": {"op": "rlogin", "y": 2, "u": "admin", "p": "admin"}},
        {"op": "rcmd", "x": 0, "y": 1, "cmd": {"op": "rcmd", "y": 2, "cmd": dict(FILE)}},
        {"op": "rcmd", "x": 0, "y": 1, "cmd": {"op": "usmlogout", "i": 0}},
        {"op": "rcmd", "x": 0, "y": 1, "cmd": {"op": "rlogoff", "y": 2}},
        {"op": "rlogoff", "x": 0, "y": 1},
        {"op": "tick"},
        {"op": "svc", "y": 1, "s": "user-session-manager", "v": "stop"},
    ]


def route_alphabet() -> List[dict]:
    """Bounded-exhaustive family on the routed topology (0 = client, 1 = target): both directions blocked / opened, login, command,
    logoff, tick, password change on the target."""
    return [
        {"op": "block", "x": 0, "y": 1, "on": True, "how": "ssh"},
        {"op": "block", "x": 0, "y": 1, "on": False, "how": "ssh"},
        {"op": "block", "x": 1, "y": 0, "on": True, "how": "pair"},
        {"op": "block", "x": 1, "y": 0, "on": False, "how": "pair"},
        {"op": "rlogin", "x": 0, "y": 1, "u": "admin", "p": "admin"},
        {"op": "rcmd", "x": 0, "y": 1},
        {"op": "rlogoff", "x": 0, "y": 1},
        {"op": "tick"},
        {"op": "chpw", "y": 1, "u": "admin", "old": "admin", "new": "pw1"},
        {"op": "rcmd", "x": 1, "y": 0},
    ]


def ends_alphabet() -> List[dict]:
    """Bounded-exhaustive family for "which session-ending event works in which service state" (target = node 1, after a remote login
    0 -> 1 and a local login on 1): every lifecycle verb of the user-session-manager, the terminal stopped, then time-out, password
    change, direct logout, client logoff, local logout, and a command on the session."""
    usm = "user-session-manager"
    return [
        {"op": "svc", "y": 1, "s": usm, "v": "stop"},
        {"op": "svc", "y": 1, "s": usm, "v": "pause"},
        {"op": "svc", "y": 1, "s": usm, "v": "resume"},
        {"op": "svc", "y": 1, "s": usm, "v": "restart"},
        {"op": "svc", "y": 1, "s": usm, "v": "disable"},
        {"op": "svc", "y": 1, "s": "terminal", "v": "stop"},
        {"op": "tick"},
        {"op": "rcmd", "x": 0, "y": 1},
        {"op": "chpw", "y": 1, "u": "admin", "old": "admin", "new": "admin"},
        {"op": "usmlogout", "y": 1, "i": 0},
        {"op": "rlogoff", "x": 0, "y": 1},
        {"op": "llogout", "y": 1},
    ]


ENDS_PREFIX = [{"op": "rlogin", "x": 0, "y": 1, "u": "admin", "p": "admin"}, {"op": "llogin", "y": 1, "u": "admin", "p": "admin"}]


def power_cycle_story(rng: Rng, cfg: dict) -> List[dict]:
    """A session younger than its time-out, the target (or the client) power-cycled — shutdown / reset, ticks until it is ON again —
    then the session is used."""
    n = cfg["n"]
    y = rng.below(n)
    x = (y + 1 + rng.below(n - 1)) % n
    who = rng.choice([y, y, x])
    ops = [{"op": "rlogin", "x": x, "y": y, "u": "admin", "p": "admin"}, {"op": "rcmd", "x": x, "y": y, "cmd": dict(FILE)}]
    if rng.chance(1, 2):
        ops += [{"op": "reset", "y": who}] + [{"op": "tick"}] * (cfg["sd"] + cfg["su"] + rng.below(2))
    else:
        ops += [{"op": "shutdown", "y": who}] + [{"op": "tick"}] * (cfg["sd"] + rng.below(2)) + [{"op": "startup", "y": who}] + \
               [{"op": "tick"}] * (cfg["su"] + rng.below(2))
    ops += [{"op": "rcmd", "x": x, "y": y, "cmd": dict(FILE)}, {"op": "rlogin", "x": x, "y": y, "u": "admin", "p": "admin"},
            {"op": "rcmd", "x": x, "y": y, "cmd": dict(FILE)}]
    return ops


def self_alphabet() -> List[dict]:
    """Bounded-exhaustive family for a node that reaches ITSELF through its gateway (routed topology, power durations 0 so that the
    node changes state inside the command): client and server side are the same Terminal object."""
    me = {"x": 1, "y": 1}
    return [
        dict(me, op="rlogin", u="admin", p="admin"),
        dict(me, op="rcmd"),
        dict(me, op="rcmd", cmd={"op": "shutdown"}),
        dict(me, op="rcmd", cmd={"op": "reset"}),
        dict(me, op="rcmd", cmd={"op": "svc", "s": "terminal", "v": "stop"}),
        dict(me, op="rcmd", cmd={"op": "chpw", "u": "admin", "old": "admin", "new": "admin"}),
        dict(me, op="rlogoff"),
        {"op": "startup", "y": 1},
        {"op": "tick"},
    ]


def medium_alphabet() -> List[dict]:
    """Bounded-exhaustive family on two routers in a chain (host 0 behind router 0, host 1 behind router 1): router power, ARP
    denied with empty caches, caches cleared, the reply direction of the terminal's port blocked at the far router, login, command,
    logoff, tick."""
    return [
        {"op": "rpower", "r": 0, "on": False},
        {"op": "rpower", "r": 0, "on": True},
        {"op": "arpblock", "r": 1, "on": True},
        {"op": "arpblock", "r": 1, "on": False},
        {"op": "arpclear", "j": "all"},
        {"op": "block", "x": 1, "y": 0, "on": True, "how": "ssh", "at": 0},
        {"op": "block", "x": 1, "y": 0, "on": False, "how": "ssh", "at": 0},
        {"op": "rlogin", "x": 0, "y": 1, "u": "admin", "p": "admin"},
        {"op": "rcmd", "x": 0, "y": 1},
        {"op": "rlogoff", "x": 0, "y": 1},
        {"op": "tick"},
    ]


HANDLE_PREFIX = [
    {"op": "rlogin", "x": 0, "y": 1, "u": "admin", "p": "admin"},
    {"op": "rlogin", "x": 0, "y": 1, "u": "admin", "p": "admin"},
    {"op": "lcmd", "y": 0, "u": "admin", "p": "admin"},
    {"op": "take", "x": 0, "i": 1},     # held[0]: the SECOND connection 0 -> 1 (requests can only use the first)
    {"op": "take", "x": 0, "i": 2},     # held[1]: the local connection of node 0
]


def handle_alphabet() -> List[dict]:
    """after HANDLE_PREFIX on the routed topology: commands on / logoff of the kept objects, and every way their sessions end"""
    return [
        {"op": "hexec", "k": 0},
        {"op": "hexec", "k": 1},
        {"op": "hdisc", "k": 0},
        {"op": "tick"},
        {"op": "chpw", "y": 1, "u": "admin", "old": "admin", "new": "pw1"},
        {"op": "chpw", "y": 0, "u": "admin", "old": "admin", "new": "pw1"},
        {"op": "rlogoff", "x": 0, "y": 1},
        {"op": "rcmd", "x": 0, "y": 1},
        {"op": "lcmd", "y": 0, "u": "admin", "p": "admin"},
        {"op": "llogout", "y": 0},
        {"op": "block", "x": 0, "y": 1, "on": True},
        {"op": "block", "x": 0, "y": 1, "on": False},
        {"op": "svc", "y": 1, "s": "user-session-manager", "v": "stop"},
        {"op": "usmlogout", "y": 1, "i": 1},
    ]


def with_handles(rng: Rng, cfg: dict, ops: List[dict]) -> List[dict]:
    """the operation list with operations on kept connection objects mixed in: after an operation, sometimes keep a reference to
    one of the connection objects of some node (whatever is there: client-side, local, or — refused — server-side), and, once
    something is kept, sometimes run a file command on a kept object or log it off"""
    out, taken = [], 0
    for o in ops:
        out.append(o)
        if rng.chance(1, 4):
            out.append({"op": "take", "x": rng.below(cfg["n"]), "i": rng.below(3)})
            taken += 1
        if taken and rng.chance(1, 3):
            k = rng.below(taken // 3 + 1 + (1 if rng.chance(1, 10) else 0))   # about one `take` in four finds an object to keep
            out.append({"op": "hdisc", "k": k} if rng.chance(1, 4) else {"op": "hexec", "k": k})
    return out


def exhaustive_cases(cfg: dict, prefix: List[dict], depth: int, alpha: List[dict]):
    def rec(seq, d):
        if d == 0:
            yield {"cfg": cfg, "ops": prefix + seq}
            return
        for a in alpha:
            yield from rec(seq + [a], d - 1)
    yield from rec([], depth)
