"""R-sess: drive real nodes (Computer x N on one Switch, inside a Simulation) and the Lean model (Drivers/C16.lean)
with the same operation sequences; diff every answer and the complete session-relevant state after every operation.

An operation is a small dict; `op_line` renders the model's protocol line, `Impl.apply` performs it on the real objects
(through `Simulation.apply_request` wherever a request exists, the public Python API of Node otherwise).
"""
from __future__ import annotations

import re
from typing import Dict, List, Optional, Tuple

from harness.lib.core import Rng

USERS = ["admin", "u1", "u2"]
PASSWORDS = ["admin", "pw1", "pw2"]
SVC = ["terminal", "user-manager", "user-session-manager"]
VERBS = ["stop", "start", "pause", "resume", "restart", "disable", "enable"]


def ip_of(i: int) -> str:
    return f"192.168.0.{10 + i}"


# ------------------------------------------------------------------------------------------ protocol lines
def op_line(op: dict) -> str:
    k = op["op"]
    if k == "adduser":
        return f"adduser {op['y']} {op['u']} {op['p']} {1 if op['admin'] else 0}"
    if k == "disable":
        return f"disable {op['y']} {op['u']}"
    if k == "chpw":
        return f"chpw {op['y']} {op['u']} {op['old']} {op['new']}"
    if k == "llogin":
        return f"llogin {op['y']} {op['u']} {op['p']}"
    if k == "llogout":
        return f"llogout {op['y']}"
    if k == "lcmd":
        return f"lcmd {op['y']} {op['u']} {op['p']} {op['k']}"
    if k == "rlogin":
        return f"rlogin {op['x']} {op['y']} {op['u']} {op['p']}"
    if k == "rcmd":
        return f"rcmd {op['x']} {op['y']} {op['k']}"
    if k == "rlogoff":
        return f"rlogoff {op['x']} {op['y']}"
    if k == "svc":
        return f"svc {op['y']} {op['s']} {op['v']}"
    if k in ("shutdown", "startup", "reset"):
        return f"{k} {op['y']}"
    if k == "tick":
        return "tick"
    raise ValueError(k)


def new_line(cfg: dict) -> str:
    return f"new {cfg['n']} {cfg['su']} {cfg['sd']} {cfg['rd']} {cfg['max']} {cfg['lto']} {cfg['rto']}"


def model_lines(case: dict) -> List[str]:
    ops = number_commands(case["ops"])
    return ["reset", new_line(case["cfg"])] + [op_line(o) for o in ops]


def number_commands(ops: List[dict]) -> List[dict]:
    """Every command creates a file named after its position in the sequence (fresh names: no duplicate-create)."""
    out = []
    for i, o in enumerate(ops):
        if o["op"] in ("rcmd", "lcmd"):
            o = dict(o, k=i)
        out.append(o)
    return out


# ------------------------------------------------------------------------------------------ implementation side
class Impl:
    def __init__(self, cfg: dict):
        from primaite.simulator.network.hardware.nodes.host.computer import Computer
        from primaite.simulator.network.hardware.nodes.network.switch import Switch
        from primaite.simulator.sim_container import Simulation

        self.cfg = cfg
        self.sim = Simulation()
        net = self.sim.network
        n = cfg["n"]
        sw = Switch.from_config({"type": "switch", "hostname": "sw", "num_ports": max(n, 2) + 1, "start_up_duration": 0})
        sw.power_on()
        self.nodes = []
        for i in range(n):
            c = Computer.from_config({"type": "computer", "hostname": f"n{i}", "ip_address": ip_of(i),
                                      "subnet_mask": "255.255.255.0", "start_up_duration": 0, "shut_down_duration": cfg["sd"]})
            c.power_on()
            net.add_node(c)
            self.nodes.append(c)
        net.add_node(sw)
        for i, c in enumerate(self.nodes):
            net.connect(c.network_interface[1], sw.network_interface[i + 1])
        for c in self.nodes:
            c.config.start_up_duration = cfg["su"]
            usm = c.user_session_manager
            usm.max_remote_sessions = cfg["max"]
            usm.local_session_timeout_steps = cfg["lto"]
            usm.remote_session_timeout_steps = cfg["rto"]
            for s in SVC:
                c.software_manager.software[s].restart_duration = cfg["rd"]
        self.t = 0
        self.ip_index = {ip_of(i): i for i in range(n)}

    # -- observation
    def snap(self) -> dict:
        nodes = []
        for c in self.nodes:
            usm, um, term = c.user_session_manager, c.user_manager, c.terminal
            loc = usm.local_session
            folder = c.file_system.get_folder("root")
            files = [int(f.name) for f in folder.files.values()] if folder else []
            nodes.append({
                "power": c.operating_state.name,
                "nic": bool(c.network_interface[1].enabled),
                "T": term.operating_state.name, "UM": um.operating_state.name, "USM": usm.operating_state.name,
                "users": [(u.username, u.password, bool(u.disabled), bool(u.is_admin)) for u in um.users.values()],
                "loc": None if loc is None else (loc.uuid, loc.user.username, loc.last_active_step),
                "rem": [(k, s.user.username, s.last_active_step, self.ip_index.get(str(s.remote_ip_address), -1))
                        for k, s in usm.remote_sessions.items()],
                "conns": [(k, self.ip_index.get(str(v.ip_address))) for k, v in term._connections.items()],
                "files": files,
                "max": usm.max_remote_sessions,
            })
        return {"nodes": nodes, "t": self.t}

    # -- operations
    def _req(self, i: int, *path) -> str:
        r = self.sim.apply_request(["network", "node", f"n{i}", *path])
        if r is None:
            return "none"
        return r.status

    def apply(self, op: dict) -> str:
        k = op["op"]
        if k == "adduser":
            return self._req(op["y"], "service", "user-manager", "add_user", op["u"], op["p"], op["admin"])
        if k == "disable":
            return self._req(op["y"], "service", "user-manager", "disable_user", op["u"])
        if k == "chpw":
            return self._req(op["y"], "service", "user-manager", "change_password", op["u"], op["old"], op["new"])
        if k == "llogin":
            if op["y"] >= len(self.nodes):
                return "unreachable"
            return "success" if self.nodes[op["y"]].local_login(op["u"], op["p"]) else "failure"
        if k == "llogout":
            if op["y"] >= len(self.nodes):
                return "unreachable"
            return "success" if self.nodes[op["y"]].local_logout() else "failure"
        if k == "lcmd":
            return self._req(op["y"], "service", "terminal", "send_local_command", op["u"], op["p"],
                             {"command": ["file_system", "create", "file", "root", str(op["k"]), False]})
        if k == "rlogin":
            return self._req(op["x"], "service", "terminal", "node_session_remote_login", op["u"], op["p"], ip_of(op["y"]))
        if k == "rcmd":
            return self._req(op["x"], "service", "terminal", "send_remote_command", ip_of(op["y"]),
                             {"command": ["file_system", "create", "file", "root", str(op["k"]), False]})
        if k == "rlogoff":
            return self._req(op["x"], "service", "terminal", "remote_logoff", ip_of(op["y"]))
        if k == "svc":
            return self._req(op["y"], "service", op["s"], op["v"])
        if k in ("shutdown", "startup", "reset"):
            return self._req(op["y"], k)
        if k == "tick":
            self.t += 1
            self.sim.apply_timestep(self.t)
            self.sim.pre_timestep(self.t)
            return "success"
        raise ValueError(k)


def render(status: str, snap: dict) -> str:
    def o(x):
        return "-" if x is None else str(x)
    parts = []
    for nd in snap["nodes"]:
        users = ",".join(f"{u}:{p}:{int(d)}:{int(a)}" for u, p, d, a in nd["users"])
        loc = "-" if nd["loc"] is None else f"#{nd['loc'][0]}:{nd['loc'][1]}:{nd['loc'][2]}"
        rem = ",".join(f"#{i}:{u}:{l}:{p}" for i, u, l, p in nd["rem"])
        conns = ",".join(f"#{i}:{o(p)}" for i, p in nd["conns"])
        files = ",".join(str(f) for f in nd["files"])
        parts.append(f"{nd['power']} nic={int(nd['nic'])} T={nd['T']} UM={nd['UM']} USM={nd['USM']} users=[{users}] loc={loc} "
                     f"rem=[{rem}] conns=[{conns}] files=[{files}]")
    return f"{status} | " + " ; ".join(parts) + f" ; t={snap['t']} stuck=0"


_ID = re.compile(r"#([0-9a-f-]+)")


def canon_ids(lines: List[str]) -> List[str]:
    """uuids (implementation) / counters (model) -> index of first appearance in the stream."""
    seen: Dict[str, int] = {}

    def sub(m):
        return "#" + str(seen.setdefault(m.group(1), len(seen)))
    return [_ID.sub(sub, l) for l in lines]


def run_impl(case: dict) -> Tuple[List[str], List[dict], List[str]]:
    """Returns (canonical lines incl. the `reset`/`new` answers, snapshots (index 0 = initial), statuses)."""
    im = Impl(case["cfg"])
    ops = number_commands(case["ops"])
    s0 = im.snap()
    lines = ["ok", render("ok", s0)]
    snaps = [s0]
    stats = []
    for op in ops:
        try:
            st = im.apply(op)
        except Exception as e:  # a Python exception escaping a request / timestep: the trace ends here
            lines.append(f"raised:{type(e).__name__}")
            stats.append(f"raised:{type(e).__name__}")
            break
        sn = im.snap()
        snaps.append(sn)
        stats.append(st)
        lines.append(render(st, sn))
    return canon_ids(lines), snaps, stats


# ------------------------------------------------------------------------------------------ the property's oracle on the implementation
def oracle(case: dict, snaps: List[dict], stats: List[str]) -> Optional[Tuple[dict, str, int]]:
    """C16 evaluated directly on what the implementation did (independent of the Lean model).
    Returns (signature, message, op index) for the first failure."""
    ops = number_commands(case["ops"])
    ever: List[set] = [set() for _ in snaps[0]["nodes"]]   # remote session ids ever seen live per node
    dead: List[set] = [set() for _ in snaps[0]["nodes"]]
    for i, (op, st) in enumerate(zip(ops, stats)):
        if st.startswith("raised"):
            return ({"kind": "raised", "op": op["op"], "exc": st.split(":")[1]}, f"{op_line(op)} raised {st}", i)
        before, after = snaps[i], snaps[i + 1]
        k = op["op"]
        for j, (b, a) in enumerate(zip(before["nodes"], after["nodes"])):
            # commands run only on live sessions / valid local credentials
            if a["files"] != b["files"]:
                ok = False
                if k == "rcmd" and op["y"] == j and op["x"] < len(before["nodes"]):
                    first = next((cid for cid, peer in before["nodes"][op["x"]]["conns"] if peer == j), None)
                    ok = first is not None and first in [r[0] for r in b["rem"]]
                elif k == "lcmd" and op["y"] == j:
                    ok = any(u == op["u"] and p == op["p"] and not d for u, p, d, _ in b["users"]) and b["power"] == "ON"
                if not ok:
                    return ({"kind": "command-without-live-session", "op": k}, f"op {i} {op_line(op)} changed files of node {j} "
                            f"without a live session / valid credentials", i)
            # sessions appear only through a valid login
            new_rem = [r for r in a["rem"] if r[0] not in [x[0] for x in b["rem"]]]
            if new_rem:
                ok = (k == "rlogin" and op["y"] == j and len(new_rem) == 1 and b["power"] == "ON"
                      and any(u == op["u"] and p == op["p"] and not d for u, p, d, _ in b["users"]) and len(b["rem"]) < b["max"]
                      and new_rem[0][1] == op["u"])
                if not ok:
                    return ({"kind": "session-without-valid-login", "op": k}, f"op {i} {op_line(op)} created a remote session on "
                            f"node {j} without valid credentials / under the limit / power", i)
            if a["loc"] is not None and (b["loc"] is None or b["loc"][0] != a["loc"][0]):
                ok = (k in ("llogin", "lcmd") and op["y"] == j and b["power"] == "ON" and a["loc"][1] == op["u"]
                      and any(u == op["u"] and p == op["p"] and not d for u, p, d, _ in b["users"]))
                if not ok:
                    return ({"kind": "session-without-valid-login", "op": k}, f"op {i} {op_line(op)} created a local session on "
                            f"node {j} without valid credentials", i)
            # ended ids never come back
            ids_a = {r[0] for r in a["rem"]}
            if ids_a & dead[j]:
                return ({"kind": "ended-session-revived", "op": k}, f"op {i} {op_line(op)}: an ended session id is valid again", i)
            ever[j] |= {r[0] for r in b["rem"]} | ids_a
            dead[j] |= ever[j] - ids_a
            # limit, last admin
            if len(a["rem"]) > a["max"]:
                return ({"kind": "limit-exceeded", "op": k}, f"op {i} {op_line(op)}: more than max_remote_sessions on node {j}", i)
            if not any(adm and not d for _, _, d, adm in a["users"]):
                return ({"kind": "no-enabled-admin", "op": k}, f"op {i} {op_line(op)}: node {j} has no enabled admin", i)
        # a successful login answer needs valid credentials on the target
        if k == "rlogin" and st == "success":
            y = op["y"]
            b = before["nodes"][y] if y < len(before["nodes"]) else None
            if b is None or not any(u == op["u"] and p == op["p"] and not d for u, p, d, _ in b["users"]) or b["power"] != "ON":
                return ({"kind": "login-without-valid-credentials", "op": k}, f"op {i} {op_line(op)} answered success", i)
        if k == "llogin" and st == "success":
            b = before["nodes"][op["y"]]
            if not any(u == op["u"] and p == op["p"] and not d for u, p, d, _ in b["users"]) or b["power"] != "ON":
                return ({"kind": "login-without-valid-credentials", "op": k}, f"op {i} {op_line(op)} answered success", i)
        # the answer of a remote command tells what happened on the target
        if k == "rcmd":
            y = op["y"]
            changed = y < len(before["nodes"]) and after["nodes"][y]["files"] != before["nodes"][y]["files"]
            if (st == "success") != changed:
                return ({"kind": "remote-command-answer-wrong", "op": k, "answer": st, "executed": changed},
                        f"op {i} {op_line(op)} answered {st} but the command was {'executed' if changed else 'not executed'}", i)
        # a password change ends every session of the user on that node
        if k == "chpw" and st == "success":
            a = after["nodes"][op["y"]]
            if any(r[1] == op["u"] for r in a["rem"]) or (a["loc"] is not None and a["loc"][1] == op["u"]):
                return ({"kind": "session-survives-password-change", "op": k}, f"op {i} {op_line(op)}: a session of {op['u']} "
                        f"is still open", i)
        # time-out: after a tick no session idle for >= timeout steps is left
        if k == "tick":
            for j, a in enumerate(after["nodes"]):
                if any(l + case["cfg"]["rto"] <= after["t"] for _, _, l, _ in a["rem"]):
                    return ({"kind": "timeout-missed", "op": k}, f"op {i}: node {j} keeps a remote session past its time-out", i)
                if a["loc"] is not None and a["loc"][2] + case["cfg"]["lto"] <= after["t"]:
                    return ({"kind": "timeout-missed", "op": k}, f"op {i}: node {j} keeps a local session past its time-out", i)
    return None


# ------------------------------------------------------------------------------------------ generation
def gen_cfg(rng: Rng) -> dict:
    return {"n": rng.choice([2, 3, 3]), "su": rng.choice([1, 1, 2]), "sd": rng.choice([1, 1, 2]), "rd": rng.choice([1, 2]),
            "max": rng.choice([1, 2, 3]), "lto": rng.choice([2, 3, 5]), "rto": rng.choice([2, 3, 4, 6])}


def gen_op(rng: Rng, cfg: dict, known: Dict[int, Dict[str, str]], malformed: bool = False) -> dict:
    """known[y] = the generator's idea of user -> current password on node y (kept mostly right)."""
    n = cfg["n"]
    y = rng.below(n)
    x = rng.below(n)
    if x == y and not rng.chance(1, 10):
        x = (y + 1) % n
    if malformed and rng.chance(1, 3):
        y = rng.choice([n, n + 1])          # an address nobody owns
    users = known.get(y, {"admin": "admin"})
    u = rng.choice(list(users)) if not rng.chance(1, 8) else rng.choice(USERS)
    right = users.get(u, "admin")
    p = right if rng.chance(3, 4) else rng.choice(PASSWORDS)
    r = rng.below(100)
    if r < 16:
        return {"op": "rlogin", "x": x, "y": y, "u": u, "p": p}
    if r < 36:
        return {"op": "rcmd", "x": x, "y": y}
    if r < 43:
        return {"op": "rlogoff", "x": x, "y": y}
    if r < 58:
        return {"op": "tick"}
    if r < 63:
        nu = rng.choice(USERS)
        return {"op": "adduser", "y": y, "u": nu, "p": rng.choice(PASSWORDS), "admin": rng.chance(1, 3)}
    if r < 67:
        return {"op": "disable", "y": y, "u": u}
    if r < 74:
        return {"op": "chpw", "y": y, "u": u, "old": p, "new": rng.choice(PASSWORDS)}
    if r < 79:
        return {"op": "llogin", "y": y, "u": u, "p": p}
    if r < 81:
        return {"op": "llogout", "y": y}
    if r < 85:
        return {"op": "lcmd", "y": y, "u": u, "p": p}
    if r < 93:
        return {"op": "svc", "y": y, "s": rng.choice(SVC), "v": rng.choice(VERBS if rng.chance(1, 2) else ["stop", "start", "restart"])}
    if r < 96:
        return {"op": "shutdown", "y": y}
    if r < 99:
        return {"op": "startup", "y": y}
    return {"op": "reset", "y": y}


def track(known: Dict[int, Dict[str, str]], op: dict):
    """Optimistic bookkeeping of credentials so that later operations are mostly valid."""
    if op["op"] == "adduser":
        known.setdefault(op["y"], {"admin": "admin"}).setdefault(op["u"], op["p"])
    if op["op"] == "chpw":
        us = known.setdefault(op["y"], {"admin": "admin"})
        if us.get(op["u"]) == op["old"]:
            us[op["u"]] = op["new"]


def gen_case(rng: Rng, max_ops: int = 30) -> dict:
    cfg = gen_cfg(rng)
    known: Dict[int, Dict[str, str]] = {i: {"admin": "admin"} for i in range(cfg["n"])}
    ops: List[dict] = []
    malformed = rng.chance(1, 6)
    story = rng.below(6)
    n = cfg["n"]
    if story == 0:      # several sessions of one user, then a password change, then commands
        for _ in range(rng.range(2, cfg["max"] + 1)):
            ops.append({"op": "rlogin", "x": rng.choice([0, n - 1]), "y": 1 % n if n > 1 else 0, "u": "admin", "p": "admin"})
    elif story == 1:    # run into the session limit
        for _ in range(cfg["max"] + 1):
            ops.append({"op": "rlogin", "x": 0, "y": 1, "u": "admin", "p": "admin"})
    elif story == 2:    # idle until the time-out boundary
        ops.append({"op": "rlogin", "x": 0, "y": 1, "u": "admin", "p": "admin"})
        ops += [{"op": "tick"}] * (cfg["rto"] - 1)
    elif story == 3:    # the target loses power / its services while a session is open
        ops.append({"op": "rlogin", "x": 0, "y": 1, "u": "admin", "p": "admin"})
        ops.append(rng.choice([{"op": "shutdown", "y": 1}, {"op": "svc", "y": 1, "s": rng.choice(SVC), "v": "stop"},
                               {"op": "shutdown", "y": 0}, {"op": "svc", "y": 0, "s": "terminal", "v": "stop"}]))
    for _ in range(rng.range(3, max_ops)):
        op = gen_op(rng, cfg, known, malformed)
        track(known, op)
        ops.append(op)
    return {"cfg": cfg, "ops": ops}


def alphabet(cfg: dict) -> List[dict]:
    """Operation instances of the bounded-exhaustive family (two nodes: 0 = client, 1 = target)."""
    return [
        {"op": "rlogin", "x": 0, "y": 1, "u": "admin", "p": "admin"},
        {"op": "rlogin", "x": 0, "y": 1, "u": "admin", "p": "pw1"},
        {"op": "rcmd", "x": 0, "y": 1},
        {"op": "rlogoff", "x": 0, "y": 1},
        {"op": "chpw", "y": 1, "u": "admin", "old": "admin", "new": "pw1"},
        {"op": "tick"},
        {"op": "svc", "y": 1, "s": "user-session-manager", "v": "stop"},
        {"op": "svc", "y": 1, "s": "terminal", "v": "restart"},
        {"op": "shutdown", "y": 1},
        {"op": "startup", "y": 1},
        {"op": "svc", "y": 0, "s": "terminal", "v": "stop"},
        {"op": "disable", "y": 1, "u": "admin"},
        {"op": "adduser", "y": 1, "u": "u1", "p": "pw1", "admin": True},
        {"op": "lcmd", "y": 1, "u": "admin", "p": "admin"},
    ]


def exhaustive_cases(cfg: dict, prefix: List[dict], depth: int, alpha: List[dict]):
    def rec(seq, d):
        if d == 0:
            yield {"cfg": cfg, "ops": prefix + seq}
            return
        for a in alpha:
            yield from rec(seq + [a], d - 1)
    yield from rec([], depth)
