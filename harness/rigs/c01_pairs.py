"""R-env family "co-located pairs" (C01, round 7).

Class of inputs: an exception that needs a PAIR (or a short sequence) of actions of the same or of related types aimed at two
DIFFERENT targets that live in the same container (two applications / services / NICs / users of one node, two files of one
folder, two folders of one file system, two positions of one access control list) - e.g. "remove application A, then remove its
sibling B" when A and B share a registry key.  Random action sequences over a generated map hit a given ordered pair with
probability ~ 1 / (map size)^2, so this family ENUMERATES them:

  for every registered action type T that names a node AND a target inside it (the innermost of file_name > folder_name,
  application_name, service_name, nic_num / port_num, username, position), for every node of the scenario, for every ORDERED
  pair (t1, t2) of distinct targets of T's pool on that node:          segment  [prepare]  T(t1)  T(t2)
  (same-type pairs: all of them); for every two types T1 != T2 of one target family where T1 or T2 changes the inventory
  (remove / delete / install / create / add ...):            segment  [prepare]  T1(t1)  T2(t2)   (t1 = t2 allowed)
  (cross-type pairs: those where BOTH types change the inventory and t1 = t2 - remove-then-install, create-then-delete ... - always;
  of the rest a seeded sample in the quick tier and a larger one in thorough); thorough adds same-type TRIPLES.

Pools are read from the LIVE game built from the scenario (software_manager.software, file system, NICs, users) plus what can be
installed / created at run time: every application of Application._registry that is not installed is a target too and is installed
by a `node-application-install` step first (`prepare`); a fresh file / folder / user name is a target for the create / add types.

Segments whose (node, target family, target) sets are disjoint are packed into one episode (reset, segments, one idle step);
a failing episode is re-executed in a fresh environment and shrunk to a minimal operation list and a minimal action map.
The oracle is envrig's episode contract (no exception, finite reward, one history item per agent, documented statuses, ...) and
the bookkeeping comparison with the Lean model, exactly as for every other R-env family.
"""
from __future__ import annotations

import copy
import json
from typing import Any, Dict, List, Optional, Tuple

from harness.lib import scen
from harness.lib.core import Rng, shrink_ops
from harness.rigs import envrig
from harness.rigs import request as rreq

NODE_FIELDS = ("node_name", "source_node", "target_nodename", "target_router", "target_firewall_nodename")
TARGET_FIELDS = ("file_name", "folder_name", "application_name", "service_name", "nic_num", "port_num", "username", "position")
FAMILY = {"file_name": "file", "folder_name": "folder", "application_name": "application", "service_name": "service",
          "nic_num": "nic", "port_num": "nic", "username": "user", "position": "acl"}
GROUPS = ["application", "service", "file", "folder", "nic", "user", "acl"]
CHANGES_INVENTORY = ("remove", "delete", "install", "create", "add", "restore", "uninstall", "shutdown", "reset")   # (disable / enable change a state, not the inventory)
NODE_KINDS = {"target_router": ("Router", "WirelessRouter"), "target_firewall_nodename": ("Firewall",)}
NEW = {"file": "verif_pair_new.txt", "folder": "verif_pair_dir", "user": "verif_pair_user"}


def _registry() -> Dict[str, Any]:
    import primaite.game.game  # noqa: F401
    from primaite.game.agent.actions.abstract import AbstractAction
    return dict(AbstractAction._registry)


def action_types(reg: Dict[str, Any]) -> Dict[str, Tuple[str, str]]:
    """action type -> (node field, target field) for every type that names a node and a target inside it."""
    out = {}
    for ident, cls in sorted(reg.items()):
        fields = [f for f in cls.ConfigSchema.model_fields if f != "type"]
        nf = next((f for f in NODE_FIELDS if f in fields), None)
        tf = next((f for f in TARGET_FIELDS if f in fields), None)
        if nf and tf:
            out[ident] = (nf, tf)
    return out


def _template(ident: str, reg, sim, vocab, cache: Dict[str, Dict]) -> Dict:
    """Options for the fields that are neither the node nor the target: taken from C05's generator (one fixed draw per type)."""
    if ident not in cache:
        rng = Rng(0xC01).fork(ident)
        opts: Optional[Dict] = None
        for _ in range(5000):
            i2, o2, _ = rreq.gen_action(rng, sim, vocab, {ident: reg[ident]}, ghost_p=(0, 1))
            if i2 == ident:
                opts = o2
                break
        cache[ident] = opts or {}
    return copy.deepcopy(cache[ident])


def _installable() -> List[str]:
    from primaite.simulator.system.applications.application import Application
    return sorted(Application._registry)


def pools(ident: str, tf: str, info: Dict) -> List[Tuple[Optional[str], List[Any]]]:
    """[(scope inside the node | None, targets)] for an action type on a node."""
    fam = FAMILY[tf]
    if fam == "application":
        return [(None, sorted(set(info["applications"]) | set(_installable())))]
    if fam == "service":
        return [(None, sorted(info["services"]))]
    if fam == "folder":
        return [(None, sorted(info["folders"]) + [NEW["folder"]])]
    if fam == "file":
        return [(fo, sorted(fs) + [NEW["file"]]) for fo, fs in sorted(info["folders"].items())]
    if fam == "nic":
        return [(None, sorted(info["nics"]))]
    if fam == "user":
        return [(None, sorted(info["users"]) + [NEW["user"]])]
    if fam == "acl":
        return [(None, [1, 2, 3])]
    return []


class Plan:
    """All segments of one scenario and the action map that carries them."""

    def __init__(self, cfg: Dict):
        self.base = cfg
        self.reg = _registry()
        self.types = action_types(self.reg)
        game = scen.make_game(cfg)
        self.sim = game.simulation
        self.vocab = rreq._vocab(self.sim)
        self._tpl: Dict[str, Dict] = {}
        self.amap: Dict[int, Dict] = {0: {"action": "do-nothing", "options": {}}}
        self._index: Dict[str, int] = {}
        self.segments: List[Dict] = []
        self.stats: Dict[str, int] = {}

    # -- action map
    def action(self, ident: str, node: str, scope: Optional[str], target: Any) -> Optional[int]:
        nf, tf = self.types[ident]
        opts = _template(ident, self.reg, self.sim, self.vocab, self._tpl)
        opts[nf] = node
        opts[tf] = target
        if FAMILY[tf] == "file" and scope is not None:
            for f in ("folder_name",):
                if f in self.reg[ident].ConfigSchema.model_fields:
                    opts[f] = scope
        return self.action_opts(ident, opts)

    def action_opts(self, ident: str, opts: Dict) -> Optional[int]:
        key = json.dumps([ident, opts], sort_keys=True, default=str)
        if key not in self._index:
            try:
                self.reg[ident].ConfigSchema(type=ident, **opts)
            except Exception:
                return None
            self._index[key] = len(self.amap)
            self.amap[len(self.amap)] = {"action": ident, "options": opts}
        return self._index[key]

    def _prepare(self, node: str, fam: str, targets: List[Any], idents: List[str]) -> Optional[List[int]]:
        """Steps that bring run-time targets into existence: applications that are not installed are installed first."""
        pre: List[int] = []
        if fam == "application" and "node-application-install" in self.types:
            inst = set(self.vocab["nodes"][node]["applications"])
            for t, ident in zip(targets, idents):
                if t not in inst and ident != "node-application-install":
                    a = self.action("node-application-install", node, None, t)
                    if a is None:
                        return None
                    if a not in pre:
                        pre.append(a)
        return pre

    def _nodes_for(self, nf: str, tf: str) -> List[str]:
        names = sorted(self.vocab["nodes"])
        if nf in NODE_KINDS:
            names = [n for n in names if self.vocab["nodes"][n]["kind"] in NODE_KINDS[nf]]
        if FAMILY[tf] == "acl" and nf not in NODE_KINDS:
            names = []
        return names

    def _add(self, kind: str, node: str, fam: str, scope: Optional[str], steps: List[Tuple[str, Any]], seen: Optional[set]):
        inst = self.vocab["nodes"][node]
        if seen is not None:     # one representative per (types, node kind, targets, scope, which targets exist already); for applications
            # the node kind is left out (the installed / absent pattern decides; family "every" visits every node kind)
            key = (tuple(steps), inst["kind"] if fam != "application" else "", scope, tuple(t in inst.get("applications", []) for _, t in steps) if fam == "application" else ())
            if key in seen:
                self.stats["deduplicated:same pair on another node of the same kind"] = self.stats.get("deduplicated:same pair on another node of the same kind", 0) + 1
                return
            seen.add(key)
        pre = self._prepare(node, fam, [t for _, t in steps], [i for i, _ in steps])
        if pre is None:
            return
        acts = [self.action(i, node, scope, t) for i, t in steps]
        if any(a is None for a in acts):
            self.stats["skipped:options rejected by the action's schema"] = self.stats.get("skipped:options rejected by the action's schema", 0) + 1
            return
        self.segments.append({"kind": kind, "node": node, "family": fam, "scope": scope, "steps": steps, "ops": pre + acts,
                              "uses": {(node, fam, scope, t) for _, t in steps}})
        self.stats[f"segments:{kind}:{fam}"] = self.stats.get(f"segments:{kind}:{fam}", 0) + 1

    def build(self, group: str, rng: Rng, thorough: bool, cross_cap: int, triple_cap: int, dedupe: bool, same_cap: int = 10 ** 9):
        """Same-type pairs: ALL of them for the types that change the inventory; for the other types all of them in the thorough
        tier and a seeded sample of `same_cap` in the quick tier."""
        seen: Optional[set] = set() if dedupe else None
        may: List[Tuple] = []
        by_fam: Dict[str, List[str]] = {}
        for ident, (nf, tf) in self.types.items():
            by_fam.setdefault(FAMILY[tf], []).append(ident)
        idents = by_fam.get(group, [])
        cross: List[Tuple] = []
        triples: List[Tuple] = []
        for ident in idents:
            nf, tf = self.types[ident]
            for node in self._nodes_for(nf, tf):
                for scope, pool in pools(ident, tf, self.vocab["nodes"][node]):
                    for t1 in pool:
                        for t2 in pool:
                            if t1 != t2:
                                if thorough or any(w in ident for w in CHANGES_INVENTORY):
                                    self._add("same-type", node, group, scope, [(ident, t1), (ident, t2)], seen)
                                else:
                                    may.append((node, scope, [(ident, t1), (ident, t2)]))
                    for i2 in idents:
                        if i2 == ident or self.types[i2][0] != nf:
                            continue
                        if not any(w in ident or w in i2 for w in CHANGES_INVENTORY):
                            continue
                        p2 = dict(pools(i2, self.types[i2][1], self.vocab["nodes"][node])).get(scope, [])
                        both = any(w in ident for w in CHANGES_INVENTORY) and any(w in i2 for w in CHANGES_INVENTORY)
                        for t1 in pool:
                            for t2 in p2:
                                if t1 == t2 and both:      # remove-then-install, create-then-delete, ... of ONE target: always run
                                    self._add("cross-type-same-target", node, group, scope, [(ident, t1), (i2, t2)], seen)
                                else:
                                    cross.append((node, scope, [(ident, t1), (i2, t2)]))
                    if len(pool) >= 3:
                        for t1 in pool:
                            for t2 in pool:
                                for t3 in pool:
                                    if len({t1, t2, t3}) == 3:
                                        triples.append((node, scope, [(ident, t1), (ident, t2), (ident, t3)]))
        n0 = len(self.segments)
        self.stats[f"enumerated:same-type pairs of types that do not change the inventory (sampled in quick):{group}"] = len(may)
        for node, scope, steps in rng.fork("same").shuffle(may):
            if len(self.segments) - n0 >= same_cap:
                break
            self._add("same-type", node, group, scope, steps, seen)
        self.stats[f"enumerated:cross-type:{group}"] = len(cross)
        self.stats[f"enumerated:triples:{group}"] = len(triples)
        n0 = len(self.segments)
        for node, scope, steps in rng.fork("cross").shuffle(cross):
            if len(self.segments) - n0 >= cross_cap:
                break
            self._add("cross-type", node, group, scope, steps, seen)
        n0 = len(self.segments)
        for node, scope, steps in rng.fork("triples").shuffle(triples):
            if len(self.segments) - n0 >= triple_cap:
                break
            self._add("triple", node, group, scope, steps, seen)

    def build_variants(self, mode: str):
        """Group "every": ONE well-formed instance of EVERY registered action type (on the node C05's generator drew, and on the first
        node of every kind of the scenario: computer, server, switch, router, firewall, ...).  Group "optional": the same instances with EACH field that the action's schema
        declares optional omitted in turn, and with all of them omitted.  An application the request addresses
        ([..., 'application', X, ...]) that the node does not have is installed by a preceding step."""
        kinds: Dict[str, str] = {}
        for n in sorted(self.vocab["nodes"]):
            kinds.setdefault(self.vocab["nodes"][n]["kind"], n)
        hosts = [kinds[k] for k in ("Computer", "Server") if k in kinds]
        for ident, cls in sorted(self.reg.items()):
            fields = cls.ConfigSchema.model_fields
            tpl = _template(ident, self.reg, self.sim, self.vocab, self._tpl)
            nf = next((f for f in NODE_FIELDS if f in fields), None)
            nodes = [tpl.get(nf)] if nf else [None]
            if nf in ("node_name", "source_node", "target_nodename"):     # … and on the first node of EVERY kind (switch, router, firewall, …)
                nodes += [h for h in hosts + [kinds[k] for k in sorted(kinds)] if h not in nodes]
            for node in nodes:
                base = copy.deepcopy(tpl)
                if nf and node is not None:
                    base[nf] = node
                variants = [("as-generated", base)]
                if mode == "optional":
                    opt = [f for f in base if f in fields and not fields[f].is_required() and f != nf]
                    variants = [(f"without:{f}", {k: v for k, v in base.items() if k != f}) for f in opt]
                    if len(opt) > 1:
                        variants.append(("without-all-optional", {k: v for k, v in base.items() if k not in opt}))
                for label, opts in variants:
                    try:
                        req = cls.form_request(cls.ConfigSchema(type=ident, **opts))
                    except Exception:
                        self.stats["skipped:options rejected by the action's schema"] = self.stats.get("skipped:options rejected by the action's schema", 0) + 1
                        continue
                    pre: List[int] = []
                    if isinstance(req, list) and "application" in req[:-1] and len(req) > 3 and req[:2] == ["network", "node"]:
                        host, app = req[2], req[req.index("application") + 1]
                        inst = self.vocab["nodes"].get(host, {}).get("applications", [])
                        if isinstance(app, str) and app in _installable() and app not in inst and ident != "node-application-install":
                            a0 = self.action("node-application-install", host, None, app)
                            if a0 is not None:
                                pre.append(a0)
                    a = self.action_opts(ident, opts)
                    if a is None:
                        continue
                    self.segments.append({"kind": mode, "node": str(node), "family": ident, "scope": label, "steps": [(ident, label)], "ops": pre + [a],
                                          "uses": {(str(node), "variant", None, None if any(w in ident for w in ("shutdown", "reset", "startup")) else ident)}})
                    self.stats[f"segments:{mode}"] = self.stats.get(f"segments:{mode}", 0) + 1

    def cfg(self) -> Dict:
        cfg = copy.deepcopy(self.base)
        envrig.proxy_agent_cfg(cfg).setdefault("action_space", {})["action_map"] = copy.deepcopy(self.amap)
        return cfg

    def episodes(self, max_steps: int) -> List[List[Dict]]:
        """Pack segments with disjoint (node, family, scope, target) sets into episodes of at most `max_steps` steps."""
        eps: List[Dict] = []
        for sg in self.segments:
            for ep in eps[-12:]:       # only the most recent episodes are searched: linear time, still packs well
                if ep["n"] + len(sg["ops"]) <= max_steps and not (ep["uses"] & sg["uses"]) and \
                        not any((sg["node"], sg["family"]) == (o["node"], o["family"]) and sg["family"] == "acl" for o in ep["segs"]):
                    ep["segs"].append(sg)
                    ep["uses"] |= sg["uses"]
                    ep["n"] += len(sg["ops"])
                    break
            else:
                eps.append({"segs": [sg], "uses": set(sg["uses"]), "n": len(sg["ops"])})
        return [ep["segs"] for ep in eps]


def minimise(cfg: Dict, ops: List[Any], max_len: int, kinds: set, budget: int = 40) -> Tuple[Dict, List[Any]]:
    """Smallest operation list (the leading reset is kept) that still fails in a fresh environment, over the smallest action map."""
    head, tail = ops[:1], ops[1:]

    def fails(cand: List[Any]) -> bool:
        q = envrig.run_ops(cfg, head + cand, max_len)
        return bool({f["kind"] for f in q.fails} & kinds)
    small = shrink_ops(tail, fails, budget) if len(tail) > 1 else tail
    used = sorted({a for a in small if isinstance(a, int)} | {0})
    renum = {a: i for i, a in enumerate(used)}
    amap = envrig.proxy_agent_cfg(cfg)["action_space"]["action_map"]
    cfg2 = copy.deepcopy(cfg)
    envrig.proxy_agent_cfg(cfg2)["action_space"]["action_map"] = {renum[a]: copy.deepcopy(amap[a]) for a in used}
    ops2 = head + [renum[a] if isinstance(a, int) else a for a in small]
    q = envrig.run_ops(cfg2, ops2, max_len)
    if {f["kind"] for f in q.fails} & kinds:
        return cfg2, ops2
    return cfg, head + small
