"""R-net (C06): generated switched / routed / firewall+DMZ networks of REAL nodes, a block placed between host A's
side and host B's side, the red repertoire run from A before and after the block; oracle = the protected side's
state (describe_state + ARP caches + session tables, canonicalised) equals that of a run in which A idles after the
block, plus per-frame wrappers "a frame some list of node X denied is never sent on by X nor handed to X's software".

A scenario is a JSON-able dict (replayable): family, placement, block, pre/post operation lists.
Three runs per scenario: attack (pre, block, post), idle (pre, block, nothing), control (pre, NO block, post) — the
control run tells whether the same operations do change the B side when nothing blocks them (non-vacuity)."""
from __future__ import annotations

import json
import re
from contextlib import ExitStack
from ipaddress import IPv4Address
from typing import Any, Dict, List, Optional
from unittest import mock

from harness.lib.core import VERIF, Ctx, Rng, shrink_ops

UUID_RE = re.compile(r"[0-9a-f]{8}-[0-9a-f]{4}-[0-9a-f]{4}-[0-9a-f]{4}-[0-9a-f]{12}")
MAC_RE = re.compile(r"\b[0-9a-f]{2}(?::[0-9a-f]{2}){5}\b")

A_IP, C_IP = "10.0.1.10", "10.0.1.11"


# ------------------------------------------------------------------------------------------ canonical state
def canon(x: Any) -> Any:
    if isinstance(x, dict):
        items = [[canon(str(k)), canon(v)] for k, v in x.items()]
        items.sort(key=lambda kv: json.dumps(kv, sort_keys=True, default=str))
        return items
    if isinstance(x, (list, tuple, set, frozenset)):
        ys = [canon(v) for v in x]
        if isinstance(x, (set, frozenset)):
            ys.sort(key=lambda v: json.dumps(v, sort_keys=True, default=str))
        return ys
    if isinstance(x, bool) or x is None or isinstance(x, int):
        return x
    if isinstance(x, float):
        return "0.0" if x == 0 else "+f"  # never compare float magnitudes (frame sizes depend on wall-clock text)
    s = str(x)
    s = UUID_RE.sub("U", s)
    s = MAC_RE.sub("M", s)
    return s


def node_obs(n) -> Any:
    d = {"state": n.describe_state()}
    sm = getattr(n, "session_manager", None)
    if sm is not None:
        d["sessions"] = sorted(str(k) for k in sm.sessions_by_key)
    arp = n.software_manager.software.get("arp") if getattr(n, "software_manager", None) else None
    if arp is not None:
        d["arp"] = {str(ip): "M" for ip in arp.arp}
    if hasattr(n, "mac_address_table"):
        d["mac_table_size"] = len(n.mac_address_table)
    if hasattr(n, "route_table"):
        d["routes"] = n.route_table.describe_state()
    return canon(d)


# ------------------------------------------------------------------------------------------ topologies
def _host(cls, name, ip, gw, shut=2):
    cfg = {"type": cls.__name__.lower(), "hostname": name, "ip_address": ip, "subnet_mask": "255.255.255.0",
           "start_up_duration": 0, "shut_down_duration": shut}
    if gw:
        cfg["default_gateway"] = gw
    h = cls.from_config(cfg)
    h.power_on()
    return h


def build(sc: dict):
    """Returns (sim, nodes-by-name, info) for the scenario's family/placement, before any block."""
    from primaite.simulator.network.hardware.nodes.host.computer import Computer
    from primaite.simulator.network.hardware.nodes.host.server import Server
    from primaite.simulator.network.hardware.nodes.network.firewall import Firewall
    from primaite.simulator.network.hardware.nodes.network.router import ACLAction, Router
    from primaite.simulator.network.hardware.nodes.network.switch import Switch
    from primaite.simulator.sim_container import Simulation
    sim = Simulation()
    net = sim.network
    shut = sc.get("shut", 2)  # shut_down_duration of every node; 0 = immediate power-off (C12's repair of F-14)
    N: Dict[str, Any] = {}
    links: Dict[str, Any] = {}

    def add(n):
        net.add_node(n)
        N[n.config.hostname] = n
        return n

    def sw(name, ports=6):
        s = Switch.from_config({"type": "switch", "hostname": name, "num_ports": ports, "start_up_duration": 0,
                                "shut_down_duration": shut})
        s.power_on()
        return add(s)

    def link(a, pa, b, pb, name):
        if name in sc.get("missing_links", []):
            return
        links[name] = net.connect(N[a].network_interface[pa], N[b].network_interface[pb])

    fam = sc["family"]
    if fam == "switched":
        b_ip = "10.0.1.20"
        add(_host(Computer, "A", A_IP, None, shut)); add(_host(Computer, "C", C_IP, None, shut)); add(_host(Server, "B", b_ip, None, shut))
        sw("SW1"); sw("SW2")
        link("A", 1, "SW1", 1, "A-SW1"); link("C", 1, "SW1", 2, "C-SW1"); link("SW1", 6, "SW2", 6, "SW1-SW2")
        link("B", 1, "SW2", 1, "SW2-B")
        info = {"b_ip": b_ip, "b_net": "10.0.1.0/24"}
    elif fam == "routed":
        hops = sc.get("routers", 1)
        b_ip = "10.0.2.20"
        add(_host(Computer, "A", A_IP, "10.0.1.1", shut)); add(_host(Computer, "C", C_IP, "10.0.1.1", shut))
        add(_host(Server, "B", b_ip, "10.0.2.1", shut))
        sw("SW1"); sw("SW2")
        r1 = Router.from_config({"type": "router", "hostname": "R1", "num_ports": 3, "start_up_duration": 0, "shut_down_duration": shut})
        r1.power_on(); add(r1)
        r1.configure_port(1, "10.0.1.1", "255.255.255.0")
        if hops == 1:
            r1.configure_port(2, "10.0.2.1", "255.255.255.0")
        else:
            r2 = Router.from_config({"type": "router", "hostname": "R2", "num_ports": 3, "start_up_duration": 0, "shut_down_duration": shut})
            r2.power_on(); add(r2)
            r1.configure_port(2, "10.0.9.1", "255.255.255.252")
            r2.configure_port(1, "10.0.9.2", "255.255.255.252")
            r2.configure_port(2, "10.0.2.1", "255.255.255.0")
            r1.route_table.add_route("10.0.2.0", "255.255.255.0", "10.0.9.2")
            r2.route_table.add_route("10.0.1.0", "255.255.255.0", "10.0.9.1")
            r2.acl.add_rule(action=ACLAction.PERMIT, position=10)
        r1.acl.add_rule(action=ACLAction.PERMIT, position=10)
        link("A", 1, "SW1", 1, "A-SW1"); link("C", 1, "SW1", 2, "C-SW1"); link("SW1", 6, "R1", 1, "SW1-R1")
        if hops == 1:
            link("R1", 2, "SW2", 6, "R1-SW2")
        else:
            link("R1", 2, "R2", 1, "R1-R2"); link("R2", 2, "SW2", 6, "R2-SW2")
        link("B", 1, "SW2", 1, "SW2-B")
        if sc.get("third_host"):
            # D: B's neighbour on the same segment, NOT protected by the destination-specific rule (history scenarios)
            add(_host(Server, "D", "10.0.2.21", "10.0.2.1", shut))
            link("D", 1, "SW2", 2, "SW2-D")
        for r in [n for n in N.values() if isinstance(n, Router)]:
            for p in r.network_interface:
                r.enable_port(p)
        info = {"b_ip": b_ip, "b_net": "10.0.2.0/24", "d_ip": "10.0.2.21"}
    elif fam == "wireless":
        # A, C - SW1 - R1 (WirelessRouter: port 2 wired, port 1 = access point) ~~ airspace ~~ R2 (WirelessRouter) - SW2 - B.
        # The airspace with two enabled access points on one frequency is the wire between their ports (Model/Filter: kind router;
        # WirelessAccessPoint.receive_frame has the shape of RouterInterface.receive_frame - Gen.FilterPower.wapReceive).
        from primaite.simulator.network.hardware.nodes.network.wireless_router import WirelessRouter
        b_ip = "10.0.2.20"
        add(_host(Computer, "A", A_IP, "10.0.1.1", shut)); add(_host(Computer, "C", C_IP, "10.0.1.1", shut))
        add(_host(Server, "B", b_ip, "10.0.2.1", shut))
        sw("SW1"); sw("SW2")
        for name in ("R1", "R2"):
            r = WirelessRouter.from_config({"type": "wireless-router", "hostname": name, "start_up_duration": 0,
                                            "shut_down_duration": shut}, airspace=net.airspace)
            r.power_on(); add(r)
            r.acl.add_rule(action=ACLAction.PERMIT, position=10)
        N["R1"].configure_router_interface("10.0.1.1", "255.255.255.0")
        N["R2"].configure_router_interface("10.0.2.1", "255.255.255.0")
        link("A", 1, "SW1", 1, "A-SW1"); link("C", 1, "SW1", 2, "C-SW1"); link("SW1", 6, "R1", 2, "SW1-R1")
        link("R2", 2, "SW2", 6, "R2-SW2"); link("B", 1, "SW2", 1, "SW2-B")
        N["R1"].configure_wireless_access_point("10.0.9.1", "255.255.255.252")
        N["R2"].configure_wireless_access_point("10.0.9.2", "255.255.255.252")
        N["R1"].route_table.add_route("10.0.2.0", "255.255.255.0", "10.0.9.2")
        N["R2"].route_table.add_route("10.0.1.0", "255.255.255.0", "10.0.9.1")
        for r in (N["R1"], N["R2"]):
            for p_ in r.network_interface:
                r.enable_port(p_)
        info = {"b_ip": b_ip, "b_net": "10.0.2.0/24"}
    elif fam == "firewall":
        zones = {"ext": ("10.0.1", 1), "int": ("10.0.2", 2), "dmz": ("10.0.3", 3)}
        za, zb = sc["a_zone"], sc["b_zone"]
        behind = bool(sc.get("b_behind_router"))
        fw = Firewall.from_config({"type": "firewall", "hostname": "FW", "start_up_duration": 0, "shut_down_duration": shut})
        fw.power_on(); add(fw)
        for z, (pre, port) in zones.items():
            fw.configure_port(port, pre + ".1", "255.255.255.0")
        for a in ("internal_inbound_acl", "internal_outbound_acl", "dmz_inbound_acl", "dmz_outbound_acl",
                  "external_inbound_acl", "external_outbound_acl"):
            getattr(fw, a).add_rule(action=ACLAction.PERMIT, position=10)
        pa, pb = zones[za][0], zones[zb][0]
        global_a = pa + ".10"
        # `b_behind_router`: B is not on the firewall's zone subnet but behind a further router RI of that zone; the firewall has a
        # route to B's subnet through the zone port (the destination is then NOT in the zone port's own network)
        b_ip = "10.0.8.20" if behind else pb + ".20"
        b_gw = "10.0.8.1" if behind else pb + ".1"
        add(_host(Computer, "A", global_a, pa + ".1", shut)); add(_host(Computer, "C", pa + ".11", pa + ".1", shut))
        add(_host(Server, "B", b_ip, b_gw, shut))
        sw("SW1"); sw("SW2")
        link("A", 1, "SW1", 1, "A-SW1"); link("C", 1, "SW1", 2, "C-SW1"); link("SW1", 6, "FW", zones[za][1], "SW1-FW")
        if behind:
            ri = Router.from_config({"type": "router", "hostname": "RI", "num_ports": 2, "start_up_duration": 0, "shut_down_duration": shut})
            ri.power_on(); add(ri)
            ri.configure_port(1, pb + ".2", "255.255.255.0")
            ri.configure_port(2, "10.0.8.1", "255.255.255.0")
            ri.acl.add_rule(action=ACLAction.PERMIT, position=10)
            ri.route_table.set_default_route_next_hop_ip_address(pb + ".1")
            fw.route_table.add_route("10.0.8.0", "255.255.255.0", pb + ".2")
            link("FW", zones[zb][1], "RI", 1, "FW-RI"); link("RI", 2, "SW2", 6, "RI-SW2")
            for p in ri.network_interface:
                ri.enable_port(p)
        else:
            link("FW", zones[zb][1], "SW2", 6, "FW-SW2")
        link("B", 1, "SW2", 1, "SW2-B")
        if sc.get("third_host") and not behind:
            add(_host(Server, "D", pb + ".21", pb + ".1", shut))
            link("D", 1, "SW2", 2, "SW2-D")
        for p in fw.network_interface:
            fw.enable_port(p)
        info = {"b_ip": b_ip, "b_net": ("10.0.8" if behind else pb) + ".0/24", "a_ip": global_a, "fw_a_port": zones[za][1],
                "fw_b_port": zones[zb][1], "d_ip": pb + ".21"}
    else:
        raise ValueError(fam)
    info.setdefault("a_ip", A_IP)
    info["links"] = links
    _software(N, info)
    return sim, N, info


def _software(N, info):
    from primaite.simulator.system.applications.database_client import DatabaseClient
    from primaite.simulator.system.applications.red_applications.c2.c2_beacon import C2Beacon
    from primaite.simulator.system.applications.red_applications.c2.c2_server import C2Server
    from primaite.simulator.system.applications.red_applications.data_manipulation_bot import DataManipulationBot
    from primaite.simulator.system.applications.red_applications.dos_bot import DoSBot
    from primaite.simulator.system.applications.red_applications.ransomware_script import RansomwareScript
    from primaite.simulator.system.services.database.database_service import DatabaseService
    from primaite.simulator.system.services.ftp.ftp_server import FTPServer
    from primaite.simulator.system.services.web_server.web_server import WebServer
    a, b = N["A"], N["B"]
    b_ip = IPv4Address(info["b_ip"])
    for svc in (DatabaseService, FTPServer, WebServer):
        b.software_manager.install(svc)  # install() starts services
    b.software_manager.install(C2Beacon)
    b.software_manager.install(DatabaseClient)
    b.file_system.create_file(folder_name="secrets", file_name="plans.txt", size=100)
    for app in (DatabaseClient, DataManipulationBot, RansomwareScript, DoSBot, C2Server):
        a.software_manager.install(app)
    sw = a.software_manager.software
    sw["database-client"].configure(server_ip_address=b_ip); sw["database-client"].run()
    sw["data-manipulation-bot"].configure(server_ip_address=b_ip, payload="DELETE", port_scan_p_of_success=1.0,
                                          data_manipulation_p_of_success=1.0, repeat=True)
    sw["ransomware-script"].configure(server_ip_address=b_ip, payload="ENCRYPT")
    sw["dos-bot"].configure(target_ip_address=b_ip, payload="SPOOF DATA", port_scan_p_of_success=1.0, dos_intensity=1.0,
                            max_sessions=5, repeat=True)
    sw["nmap"].run()
    a.file_system.create_file(folder_name="loot", file_name="tool.exe", size=50)
    info["state"] = {"db_conn": None, "term": None}


# ------------------------------------------------------------------------------------------ blocks
BLOCKS = {
    "switched": ["sw1_uplink_disabled", "sw2_uplink_disabled", "sw2_b_port_disabled", "b_nic_disabled", "a_nic_disabled",
                 "missing_link", "removed_link", "sw2_off", "sw1_off", "b_off"],
    "routed": ["router_deny_anyany", "router_deny_src_exact", "router_deny_src_range", "router_deny_dst_exact",
               "router_deny_three_protocols", "router_deny_four_protocols", "router_port_a_disabled", "router_port_b_disabled", "router_off", "missing_link",
               "removed_link", "sw2_off", "b_off", "b_nic_disabled"],
    "wireless": ["router_deny_anyany", "router_deny_dst_exact", "router_deny_src_range", "router_off", "wap_disabled",
                 "wap_other_frequency", "removed_link", "sw2_off", "b_off"],
    "firewall": ["fw_first_stage_deny", "fw_first_stage_empty", "fw_second_stage_deny", "fw_port_a_disabled", "fw_port_b_disabled",
                 "fw_off", "missing_link", "b_off"],
}


def edges(sc: dict) -> List[tuple]:
    fam = sc["family"]
    if fam == "switched":
        return [("A", "SW1"), ("C", "SW1"), ("SW1", "SW2"), ("SW2", "B")]
    if fam == "wireless":
        return [("A", "SW1"), ("C", "SW1"), ("SW1", "R1"), ("R1", "R2"), ("R2", "SW2"), ("SW2", "B")]
    if fam == "routed":
        mid = [("R1", "SW2")] if sc.get("routers", 1) == 1 else [("R1", "R2"), ("R2", "SW2")]
        return [("A", "SW1"), ("C", "SW1"), ("SW1", "R1")] + mid + [("SW2", "B")] + ([("SW2", "D")] if sc.get("third_host") else [])
    if sc.get("b_behind_router"):
        return [("A", "SW1"), ("C", "SW1"), ("SW1", "FW"), ("FW", "RI"), ("RI", "SW2"), ("SW2", "B")]
    return [("A", "SW1"), ("C", "SW1"), ("SW1", "FW"), ("FW", "SW2"), ("SW2", "B")] + ([("SW2", "D")] if sc.get("third_host") else [])


def protected(sc: dict) -> List[str]:
    """Nodes on the protected side of the block: not reachable from A when blocked edges are removed and blocking
    routers / firewalls are reached but not traversed.  This is `side = false` of the cut theorem (a powered-off or
    NIC-disabled device is included: its own state must not change either)."""
    m = sc["block"]
    if m in ("router_deny_dst_b_only", "fw_deny_dst_b_only"):
        return ["B"]
    if m in WC_ROUTER:
        m = "router_deny_anyany"   # same cut: the router `at` is the barrier
    if m in WC_FW:
        m = "fw_first_stage_deny"  # same cut: the firewall is the barrier  # the rule protects B alone: D and SW2 are reached by permitted traffic, by design
    es = edges(sc)
    names = sorted({x for e in es for x in e})
    removed, barrier = [], []
    at = sc.get("at", "R1")
    r_in = ("SW1", "R1") if at == "R1" else ("R1", "R2")
    if m in ("wap_disabled", "wap_other_frequency"):
        removed = [("R1", "R2")]
    r_out = ("R1", "SW2") if sc.get("routers", 1) == 1 else (("R1", "R2") if at == "R1" else ("R2", "SW2"))
    if m in ("sw1_uplink_disabled", "sw2_uplink_disabled"):
        removed = [("SW1", "SW2")]
    elif m in ("sw2_b_port_disabled", "b_nic_disabled", "b_off"):
        removed = [("SW2", "B")]
    elif m == "a_nic_disabled":
        removed = [("A", "SW1"), ("C", "SW1")]
    elif m == "missing_link":
        removed = [tuple(sc["missing_links"][0].split("-"))]
    elif m == "removed_link":
        removed = [tuple(sc["remove"].split("-"))]
    elif m in ("sw2_off", "sw1_off", "router_off", "fw_off"):
        x = {"sw2_off": "SW2", "sw1_off": "SW1", "router_off": at, "fw_off": "FW"}[m]
        removed = [e for e in es if x in e]
    elif m.startswith("router_deny"):
        barrier = [at]
    elif m in ("wap_disabled", "wap_other_frequency"):
        pass
    elif m == "router_port_a_disabled":
        removed = [r_in]
    elif m == "router_port_b_disabled":
        removed = [r_out]
    elif m in ("fw_first_stage_deny", "fw_first_stage_empty", "fw_second_stage_deny"):
        barrier = ["FW"]
    elif m == "fw_port_a_disabled":
        removed = [("SW1", "FW")]
    elif m == "fw_port_b_disabled":
        removed = [("FW", "RI") if sc.get("b_behind_router") else ("FW", "SW2")]
    else:
        raise ValueError(m)
    live = [e for e in es if e not in removed and (e[1], e[0]) not in removed]
    reach, todo = {"A", "C"}, ["A", "C"]
    while todo:
        x = todo.pop()
        if x in barrier:
            continue
        for a, b in live:
            for u, v in ((a, b), (b, a)):
                if u == x and v not in reach:
                    reach.add(v)
                    todo.append(v)
    return [n for n in names if n not in reach]


# blocks for which the cut theorem applies as is (certificate must accept); the others are class-specific rules or
# second-stage lists: covered by the element lemmas and by this rig's oracle only
CERTIFIABLE = {"sw1_uplink_disabled", "sw2_uplink_disabled", "sw2_b_port_disabled", "b_nic_disabled", "a_nic_disabled",
               "missing_link", "removed_link", "sw2_off", "sw1_off", "b_off", "router_deny_anyany", "router_port_a_disabled",
               "router_port_b_disabled", "router_off", "fw_first_stage_deny", "fw_first_stage_empty", "fw_port_a_disabled",
               "fw_port_b_disabled", "fw_off", "wap_disabled", "wap_other_frequency"}


def class_patterns(sc: dict, info: dict) -> List[dict]:
    """The frame class of the scenario = the packets its DENY rules are written for, as rule-shaped patterns (the class-aware
    certificate `certifyC` checks that the blocking list denies every packet of every pattern; that the attacker side emits
    nothing else is the theorem's closure hypothesis, validated on every transmitted frame by `_run_once`)."""
    m = sc["block"]
    pat = lambda **kw: dict({"proto": None, "src_ip": None, "src_wc": None, "dst_ip": None, "dst_wc": None}, **kw)
    if m == "router_deny_src_exact":
        return [pat(src_ip=info["a_ip"]), pat(src_ip=C_IP)]
    if m == "router_deny_src_range":
        return [pat(src_ip="10.0.1.0", src_wc="0.0.0.255")]
    if m == "router_deny_dst_b_only":
        return [pat(dst_ip=info["b_ip"])]
    if m == "router_deny_dst_exact":
        return [pat(dst_ip=info["b_ip"]), pat(dst_ip="10.0.2.0", dst_wc="0.0.0.255")]
    if m == "router_deny_three_protocols":
        return [pat(proto="tcp"), pat(proto="udp"), pat(proto="icmp")]
    if m == "router_deny_four_protocols":
        return [pat(proto="tcp"), pat(proto="udp"), pat(proto="icmp"), pat(proto="none")]
    if m == "fw_deny_dst_b_only":
        return [pat(dst_ip=info["b_ip"])]
    if m.endswith("_wc_host_allowlist"):
        # everything A's side can send with its own addresses (the allow-listed address is nobody's)
        return [pat(src_ip=info["a_ip"]), pat(src_ip=info["a_ip"].rsplit(".", 1)[0] + ".11")]
    if m.endswith("_wc_anywc"):
        return [pat(src_ip="0.0.0.0", src_wc="255.255.255.255")]
    if m.endswith("_wc_hostwc"):
        return [pat(dst_ip=info["b_ip"], dst_wc="0.0.0.0"), pat(dst_ip=info["b_ip"], dst_wc="0.0.0.255")]
    if m.endswith("_wc_noncontig"):
        return [pat(src_ip=info["a_ip"], src_wc="0.0.0.5")]
    return [pat()]


def arp_exempt(sc: dict) -> bool:
    """genuine ARP packets circulate on the attacker side in addition to the class — only where no firewall blocks (a firewall
    applies its lists to ARP as well)"""
    return sc["family"] != "firewall"


def _ip_int(x) -> int:
    return int(IPv4Address(str(x)))


def in_class(frame, patterns: List[dict], exempt: bool) -> bool:
    """independent (integer) evaluation of class membership of a real frame"""
    from primaite.simulator.network.protocols.arp import ARPPacket
    if frame.ip is None:
        return False
    proto = str(getattr(frame.ip.protocol, "value", frame.ip.protocol)).lower()
    if exempt and proto == "udp" and frame.udp is not None and int(frame.udp.dst_port) == 219 and isinstance(frame.payload, ARPPacket):
        return True
    for c in patterns:
        ok = c["proto"] is None or c["proto"] == proto
        for side, ip in (("src", frame.ip.src_ip_address), ("dst", frame.ip.dst_ip_address)):
            base, wc = c[side + "_ip"], c[side + "_wc"]
            if base is None:
                continue
            if wc is None:
                ok = ok and _ip_int(ip) == _ip_int(base)
            else:
                keep = 0xFFFFFFFF ^ _ip_int(wc)
                ok = ok and (_ip_int(ip) & keep) == (_ip_int(base) & keep)
        if ok:
            return True
    return False


def roles_for(sc: dict) -> Dict[str, str]:
    m = sc["block"]
    at = sc.get("at", "R1")
    return {
        "sw1_uplink_disabled": {"SW1": "ifaceDown"}, "sw2_uplink_disabled": {"SW2": "frozen"},
        "sw2_b_port_disabled": {"SW2": "ifaceDown"}, "b_nic_disabled": {"B": "frozen"}, "b_off": {"B": "frozen"},
        "a_nic_disabled": {"A": "ifaceDown", "C": "ifaceDown"}, "missing_link": {}, "removed_link": {}, "wap_other_frequency": {},
        "wap_disabled": {at: "ifaceDown" if at == "R1" else "frozen"},
        "sw2_off": {"SW2": "frozen"}, "sw1_off": {"SW1": "frozen"}, "router_off": {at: "routerOff"}, "fw_off": {"FW": "frozen"},
        "router_port_a_disabled": {at: "frozen"}, "router_port_b_disabled": {at: "ifaceDown"},
        "fw_port_a_disabled": {"FW": "frozen"}, "fw_port_b_disabled": {"FW": "ifaceDown"},
        "fw_first_stage_deny": {"FW": "fwDeny"}, "fw_first_stage_empty": {"FW": "fwDeny"}, "fw_second_stage_deny": {"FW": "fwDeny"},
        "fw_deny_dst_b_only": {"FW": "fwDeny"},
    }.get(m, {at: "routerDeny"} if (m.startswith("router_deny") or m in WC_ROUTER) else {"FW": "fwDeny"} if m in WC_FW else {})


def topo_lines(sc: dict, sim, N, prot: List[str], info: Optional[dict] = None) -> List[str]:
    """The real network after the block, as protocol lines for the driver's cut certificate."""
    from primaite.simulator.network.hardware.node_operating_state import NodeOperatingState
    from primaite.simulator.network.hardware.nodes.network.firewall import Firewall
    from primaite.simulator.network.hardware.nodes.network.router import Router
    from primaite.simulator.network.hardware.nodes.network.switch import Switch
    from harness.rigs import acl as acl_rig
    names = sorted(N)
    idx = {h: i for i, h in enumerate(names)}
    roles = roles_for(sc)
    lines = ["reset", "t-new"]
    for h in names:
        n = N[h]
        kind = "firewall" if isinstance(n, Firewall) else "router" if isinstance(n, Router) else "switch" if isinstance(n, Switch) else "host"
        role = roles.get(h, "interior")
        side = (h not in prot) or role != "interior"  # blocking elements belong to `side`
        lines.append(f"t-node {kind} {1 if n.operating_state == NodeOperatingState.ON else 0} {1 if side else 0} {role}")
    for h in names:
        n = N[h]
        for p in sorted(n.network_interface):
            ni = n.network_interface[p]
            if getattr(ni, "ip_address", None) is not None and getattr(ni, "subnet_mask", None) is not None:
                lines.append(f"t-iface {idx[h]} {1 if ni.enabled else 0} {ni.ip_address} {ni.subnet_mask} "
                             f"{int(ni.mac_address.replace(':', ''), 16)}")
            else:
                lines.append(f"t-iface {idx[h]} {1 if ni.enabled else 0}")
        acls = {}
        if isinstance(n, Router):
            acls["router"] = n.acl
        if isinstance(n, Firewall):
            acls.update({"intIn": n.internal_inbound_acl, "intOut": n.internal_outbound_acl, "dmzIn": n.dmz_inbound_acl,
                         "dmzOut": n.dmz_outbound_acl, "extIn": n.external_inbound_acl, "extOut": n.external_outbound_acl})
        for name, a in acls.items():
            lines.append(f"t-acl {idx[h]} {name} {a.implicit_action.name}")
            for pos, r in acl_rig.read_rules(a):
                lines.append(f"t-rule {idx[h]} {name} " + acl_rig.rule_line(pos, r)[len("add "):])
    for link in sim.network.links.values():
        a, b = link.endpoint_a, link.endpoint_b
        lines.append(f"t-wire {idx[a._connected_node.config.hostname]} {a.port_num - 1} "
                     f"{idx[b._connected_node.config.hostname]} {b.port_num - 1}")
    air_pairs = []
    for _freq, wis in sim.network.airspace.wireless_interfaces_by_frequency.items():
        on_air = [w for w in wis if w.enabled and w._connected_node is not None]
        if len(on_air) > 2:
            raise RuntimeError("more than two access points on one frequency: the airspace is then not a wire (not modelled)")
        if len(on_air) == 2:
            air_pairs.append(tuple(on_air))
            a, b = on_air
            lines.append(f"t-wire {idx[a._connected_node.config.hostname]} {a.port_num - 1} "
                         f"{idx[b._connected_node.config.hostname]} {b.port_num - 1}")
    o = lambda v: "-" if v is None else str(v)
    for c in class_patterns(sc, info or {"a_ip": A_IP, "b_ip": "10.0.2.20"}):
        lines.append(f"t-class {o(c['proto'])} {o(c['src_ip'])} {o(c['src_wc'])} {o(c['dst_ip'])} {o(c['dst_wc'])} - -")
    lines.append(f"t-arp {1 if arp_exempt(sc) else 0}")
    # network-level certificate (certifyN): every port is labelled with the subnet of its layer-2 segment.  The labels are
    # computed HERE (union of wired ports, all ports of a switch); the certificate only checks them locally, so a wrong label
    # can make it reject, never accept wrongly.
    parent: Dict[tuple, tuple] = {}

    def find(x):
        parent.setdefault(x, x)
        while parent[x] != x:
            parent[x] = parent[parent[x]]
            x = parent[x]
        return x

    for link in sim.network.links.values():
        a, b = link.endpoint_a, link.endpoint_b
        parent[find((a._connected_node.config.hostname, a.port_num))] = find((b._connected_node.config.hostname, b.port_num))
    for a, b in air_pairs:
        parent[find((a._connected_node.config.hostname, a.port_num))] = find((b._connected_node.config.hostname, b.port_num))
    for h in names:
        if isinstance(N[h], Switch):
            ports = sorted(N[h].network_interface)
            for p in ports[1:]:
                parent[find((h, p))] = find((h, ports[0]))
    seg_net: Dict[tuple, tuple] = {}
    for h in names:
        for p in sorted(N[h].network_interface):
            ni = N[h].network_interface[p]
            if getattr(ni, "ip_address", None) is not None and getattr(ni, "subnet_mask", None) is not None:
                seg_net.setdefault(find((h, p)), (str(ni.ip_network.network_address), str(ni.subnet_mask)))
    for h in names:
        for p in sorted(N[h].network_interface):
            net = seg_net.get(find((h, p)))
            if net is not None:
                lines.append(f"t-label {idx[h]} {p - 1} {net[0]} {net[1]}")
    for h in names:
        if isinstance(N[h], Router) and not isinstance(N[h], Firewall):
            for p in sorted(N[h].network_interface):
                ni = N[h].network_interface[p]
                lines.append(f"t-rtrif {int(ni.mac_address.replace(':', ''), 16)} {ni.ip_address}")
    # reachability certificate (certifyB): which nodes are inside the protected zone, the addresses the protected HOSTS answer to,
    # every router / firewall interface, every configured next hop
    for h in names:
        n = N[h]
        role = ("fw" if isinstance(n, Firewall) else "rtr" if isinstance(n, Router) else "switch" if isinstance(n, Switch)
                else "deaf" if h in prot else "host")
        lines.append(f"t-roleB {idx[h]} {role} {1 if h in prot else 0}")
        if role == "deaf":
            for p in sorted(n.network_interface):
                ni = n.network_interface[p]
                lines.append(f"t-ba {ni.ip_address}")
                lines.append(f"t-ba {ni.ip_network.broadcast_address}")
        if isinstance(n, Router):
            for p in sorted(n.network_interface):
                ni = n.network_interface[p]
                lines.append(f"t-rtrifB {int(ni.mac_address.replace(':', ''), 16)} {ni.ip_address}")
            for rt in list(n.route_table.routes) + ([n.route_table.default_route] if n.route_table.default_route else []):
                lines.append(f"t-hop {rt.next_hop_ip_address}")
    lines.append("t-certify")
    lines.append("t-certifyC")
    lines.append("t-certifyN")
    lines.append("t-certifyB")
    return lines


def expect_certified_b(sc: dict) -> Optional[str]:
    """What `certifyB` (reachability form: the protected HOSTS unchanged) must answer where the block is a rule list: accepted
    exactly when every frame addressed to B is denied whatever its source, protocol and ports — any-any and destination rules of a
    router, a firewall's first list, or the second list the code selects for B's address (from the DMZ the selection is opaque: both
    candidate lists would have to deny).  `None`: no expectation (blocks by disabled interfaces, power, missing links)."""
    m = sc["block"]
    if m in ("router_deny_anyany", "router_deny_dst_exact", "router_deny_four_protocols", "fw_first_stage_deny", "fw_first_stage_empty",
             "router_wc_hostwc"):  # DENY dst B wildcard 0.0.0.0: "host B" under the real wildcard semantics (Model/Acl.ipMatches)
        return "certifiedB"
    if m in ("router_deny_src_exact", "router_deny_src_range", "router_deny_three_protocols"):
        return "uncertifiedB"
    if m == "fw_second_stage_deny":
        return "uncertifiedB" if sc["a_zone"] == "dmz" else "certifiedB"
    return None


def expect_certified_n(sc: dict, prot: List[str]) -> str:
    """What `certifyN` must answer for the scenario's real post-block network: it is the hypothesis-free theorem
    (C06_certifiedN_unchanged) exactly when the attacker side consists of hosts and switches only, no element blocks by a disabled
    boundary interface of its own (role ifaceDown: that theorem needs SoftKeeps), and the class is a SOURCE class or everything; interior
    routers are accepted when the class covers their addresses."""
    roles = roles_for(sc)
    names = sorted({x for e in edges(sc) for x in e})
    if sc["block"] in ("router_deny_dst_exact", "router_deny_three_protocols", "router_deny_four_protocols", "router_wc_hostwc"):
        return "uncertifiedN"
    if sc["block"] in WC_FW and sc.get("stage") == "second":
        return "certifiedN-fw2"
    for h in names:
        role = roles.get(h, "interior")
        side = (h not in prot) or role != "interior"
        if not side:
            continue
        if role == "ifaceDown":
            return "uncertifiedN"
        if role == "interior" and h == "FW":  # an interior firewall is not modelled as a forwarder
            return "uncertifiedN"
        if role == "interior" and h in ("R1", "R2", "RI") and sc["block"] in ("router_deny_src_exact", "router_deny_src_range"):
            # an interior ROUTER is accepted (round 4: closure proved for rtrStd) when the class covers its own addresses — a
            # source class written for the hosts does not (its echo reply would be outside the class)
            return "uncertifiedN"
    return "certifiedN-fw2" if sc["block"] == "fw_second_stage_deny" else "certifiedN"


DEFENDER_OPS = {"dev_if_enable"}
# rule-list blocks written with WILDCARD MASKS, boundary values included (C07_wildcard_spec: bit set = ignored):
#   *_anywc         DENY src 0.0.0.0 wildcard 255.255.255.255  (Cisco "any")
#   *_hostwc        DENY dst B wildcard 0.0.0.0 ("host B") + DENY dst B's subnet wildcard 0.0.0.255 (contiguous)
#   *_host_allowlist  the PERMIT-all rule removed, implicit DENY, PERMIT src <an address nobody has> wildcard 0.0.0.0 (host-only allow-list)
#   *_noncontig     DENY src A wildcard 0.0.0.5 (non-contiguous; matches .10 .11 .14 .15 = A and C)
WC_ROUTER = {"router_wc_anywc", "router_wc_hostwc", "router_wc_host_allowlist", "router_wc_noncontig"}
WC_FW = {"fw_wc_anywc", "fw_wc_host_allowlist", "fw_wc_noncontig"}
NOBODY = "10.0.77.77"
ORACLE_ONLY = ("router_deny_dst_b_only", "fw_deny_dst_b_only", "router_wc_host_allowlist", "fw_wc_host_allowlist")
OFF_DEVICE = {"sw2_off": "SW2", "sw1_off": "SW1", "b_off": "B", "fw_off": "FW"}


def power_device(sc: dict) -> str:
    return sc.get("at", "R1") if sc["block"] == "router_off" else OFF_DEVICE[sc["block"]]


def transitional_states(sc: dict) -> List[str]:
    """operating state of the device at each of A's operations (operation k comes k - 1 ticks after the accepted request), from
    the code's test-then-decrement countdowns: a countdown of d is left at the (d + 1)-th tick (C12_shutdown_timing / C12_boot_timing;
    Props/C06Power.lean C06_shutdown_window / C06_boot_window / C06_reset_window)"""
    d, u, n = sc.get("shut", 2), sc.get("boot", 0), len(sc["post_ops"])
    if sc["phase"] == "countdown":
        seq = ["SHUTTING_DOWN"] * (d + 1) + ["OFF"] * n
    elif sc["phase"] == "boot":
        seq = ["BOOTING"] * (u + 1) + ["ON"] * n
    else:
        seq = ["SHUTTING_DOWN"] * (d + 1) + ["BOOTING"] * (u + 1) + ["ON"] * n
    return seq[:n]


def transitional_scenarios(rng: Rng, every_duration: bool) -> List[dict]:
    """ENUMERATED family: a block that is in force DURING a transitional power state.  For every kind of device on the path (switch
    on A's side, switch on B's side, router, second router, firewall from each zone pair sampled, host B itself) x every window
    (SHUTTING_DOWN countdown after an accepted shutdown; BOOTING countdown after an accepted startup of a device that was OFF; the
    reset window SHUTTING_DOWN -> OFF -> BOOTING) x positive durations (quick: one of 1, 2, 3 (the default), 5 per scenario; thorough:
    all of them), A sends traffic in the step of the request AND at every later tick of the window (the operation list is as long as
    the window).  The oracle is the usual one: B's side as in the run in which A idles."""
    devices = [("switched", "sw1_off", {}), ("switched", "sw2_off", {}), ("switched", "b_off", {}),
               ("routed", "router_off", {"routers": 1, "at": "R1"}), ("routed", "router_off", {"routers": 2, "at": "R2"}),
               ("routed", "sw2_off", {"routers": 1, "at": "R1"}), ("routed", "b_off", {"routers": 1, "at": "R1"}),
               ("firewall", "fw_off", None), ("firewall", "b_off", None),
               ("wireless", "router_off", {"routers": 2, "at": "R1"}), ("wireless", "router_off", {"routers": 2, "at": "R2"})]
    attack = ["ping", "data_manip", "db_query_new", "port_scan_tcp", "port_scan_udp", "c_ping", "ransomware", "dos", "ftp_send",
              "web_get", "port_scan_none", "ping_scan", "term_login"]
    out = []
    for fam, block, extra in devices:
        for phase in ("countdown", "boot", "reset"):
            for d in ([1, 2, 3, 5] if every_duration else [rng.choice([1, 2, 3, 3, 5])]):
                sc: Dict[str, Any] = {"family": fam, "block": block, "phase": phase, "rule_pos": 0,
                                      "via": rng.choice(["request", "method"])}
                if extra is None:
                    za = rng.choice(["ext", "int", "dmz"])
                    sc["a_zone"], sc["b_zone"] = za, rng.choice([z for z in ("ext", "int", "dmz") if z != za])
                else:
                    sc.update(extra)
                u = rng.choice([1, 2, 3])
                sc["shut"] = d if phase != "boot" else rng.choice([0, 2])
                if phase != "countdown":
                    sc["boot"] = d if phase == "boot" else u
                window = {"countdown": d + 1 + 2, "boot": d + 1, "reset": d + 1 + u + 1}[phase]  # countdown: two more ops once OFF
                sc["pre_ops"] = [rng.choice(["ping", "db_connect", "tick", "c_ping", "port_scan_tcp"])]
                sc["post_ops"] = [rng.choice(attack) for _ in range(window)]
                if rng.chance(1, 2):
                    # an attempt to re-enable the device's interfaces inside the window (replaces one of A's operations, never the last)
                    sc["post_ops"][rng.range(0, max(0, window - 2))] = "dev_if_enable"
                out.append(sc)
    return out


def apply_block(sc: dict, sim, N, info, timestep_fn):
    from primaite.simulator.network.hardware.nodes.network.router import ACLAction
    m = sc["block"]
    pos = sc.get("rule_pos", 0)
    b_ip = info["b_ip"]

    def _power(n, verb):
        # the ordinary node request (what the node-shutdown / node-startup / node-reset actions send) or the method behind it
        if sc.get("via") == "request":
            resp = sim.network.apply_request(["node", n.config.hostname, verb], {})
            if resp.status != "success":
                raise RuntimeError(f"transitional scenario: request {verb} on {n.config.hostname} answered {resp.status}")
        else:
            ok = {"shutdown": n.power_off, "startup": n.power_on, "reset": n.reset}[verb]()
            if not ok:
                raise RuntimeError(f"transitional scenario: {verb} on {n.config.hostname} refused")
        info["pw_line"](f"pw {verb}")

    def set_boot(n):
        n.config.start_up_duration = sc["boot"]
        info["pw_line"](f"pw-updur {sc['boot']}")

    def power_off(n):
        phase = sc.get("phase")
        if phase == "countdown":
            # the block is the ACCEPTED shutdown: A's operations follow at once, one per tick of the countdown (no waiting for OFF)
            _power(n, "shutdown")
            return
        if phase == "reset":
            # reset = SHUTTING_DOWN (shut ticks) -> OFF -> BOOTING (boot ticks) -> ON: the whole window is a block
            set_boot(n)
            _power(n, "reset")
            return
        n.power_off()
        if "pw_line" in info:
            info["pw_line"]("pw shutdown")
        for _ in range(n.config.shut_down_duration + 2):
            timestep_fn()
        if phase == "boot":
            # the device is OFF; the defender starts it: it stays BOOTING (not ON) for `boot` more ticks
            set_boot(n)
            _power(n, "startup")

    if m == "sw1_uplink_disabled":
        N["SW1"].network_interface[6].disable()
    elif m == "sw2_uplink_disabled":
        N["SW2"].network_interface[6].disable()
    elif m == "sw2_b_port_disabled":
        N["SW2"].network_interface[1].disable()
    elif m == "b_nic_disabled":
        N["B"].network_interface[1].disable()
    elif m == "a_nic_disabled":
        N["A"].network_interface[1].disable()
        N["C"].network_interface[1].disable()
    elif m == "missing_link":
        pass  # the link was never created (sc["missing_links"])
    elif m == "removed_link":
        name = sc["remove"]
        sim.network.remove_link(info["links"][name])
    elif m in ("sw2_off", "sw1_off", "b_off", "router_off", "fw_off"):
        power_off(N[power_device(sc)])
    elif m.startswith("router_deny"):
        r = N[sc.get("at", "R1")]
        if m == "router_deny_anyany":
            r.acl.add_rule(action=ACLAction.DENY, position=pos)
        elif m == "router_deny_src_exact":
            r.acl.add_rule(action=ACLAction.DENY, src_ip_address=info["a_ip"], position=pos)
            r.acl.add_rule(action=ACLAction.DENY, src_ip_address=C_IP, position=pos + 1)
        elif m == "router_deny_src_range":
            r.acl.add_rule(action=ACLAction.DENY, src_ip_address="10.0.1.0", src_wildcard_mask="0.0.0.255", position=pos)
        elif m == "router_deny_dst_exact":
            r.acl.add_rule(action=ACLAction.DENY, dst_ip_address=b_ip, position=pos)
            r.acl.add_rule(action=ACLAction.DENY, dst_ip_address="10.0.2.0", dst_wildcard_mask="0.0.0.255", position=pos + 1)
        elif m == "router_deny_dst_b_only":
            r.acl.add_rule(action=ACLAction.DENY, dst_ip_address=b_ip, position=pos)
        elif m == "router_deny_three_protocols":
            for i, pr in enumerate(("tcp", "udp", "icmp")):
                r.acl.add_rule(action=ACLAction.DENY, protocol=pr, position=pos + i)
        elif m == "router_deny_four_protocols":
            # every value frame.ip.protocol can take: THIS is a block (three rules are not: protocol "none" passes)
            for i, pr in enumerate(("tcp", "udp", "icmp", "none")):
                r.acl.add_rule(action=ACLAction.DENY, protocol=pr, position=pos + i)
    elif m == "wap_disabled":
        N[sc.get("at", "R1")].wireless_access_point.disable()
    elif m == "wap_other_frequency":
        from primaite.simulator.network.airspace import AirSpaceFrequency
        r = N[sc.get("at", "R2")]
        wap = r.wireless_access_point
        r.configure_wireless_access_point(wap.ip_address, wap.subnet_mask, AirSpaceFrequency._registry["WIFI_5"])
    elif m in WC_ROUTER or m in WC_FW:
        if m in WC_ROUTER:
            lst = N[sc.get("at", "R1")].acl
        else:
            fw = N["FW"]
            first = {"ext": fw.external_inbound_acl, "int": fw.internal_outbound_acl, "dmz": fw.dmz_outbound_acl}[sc["a_zone"]]
            second = {"ext": fw.external_outbound_acl, "int": fw.internal_inbound_acl, "dmz": fw.dmz_inbound_acl}[sc["b_zone"]]
            lst = first if sc.get("stage", "first") == "first" else second
        a_ip = info["a_ip"]
        kind = m.split("_wc_")[1]
        if kind == "anywc":
            lst.add_rule(action=ACLAction.DENY, src_ip_address="0.0.0.0", src_wildcard_mask="255.255.255.255", position=pos)
        elif kind == "hostwc":
            lst.add_rule(action=ACLAction.DENY, dst_ip_address=b_ip, dst_wildcard_mask="0.0.0.0", position=pos)
            lst.add_rule(action=ACLAction.DENY, dst_ip_address=b_ip, dst_wildcard_mask="0.0.0.255", position=pos + 1)
        elif kind == "host_allowlist":
            lst.remove_rule(10)
            if m in WC_ROUTER:
                # a router's list is born with PERMIT ARP-ports (22) and PERMIT ICMP (23): an allow-list keeps neither (genuine ARP
                # packets are exempt from the list anyway)
                lst.remove_rule(22)
                lst.remove_rule(23)
            lst.implicit_action = ACLAction.DENY
            lst.implicit_rule.action = ACLAction.DENY
            lst.add_rule(action=ACLAction.PERMIT, src_ip_address=NOBODY, src_wildcard_mask="0.0.0.0", position=pos)
        elif kind == "noncontig":
            lst.add_rule(action=ACLAction.DENY, src_ip_address=a_ip, src_wildcard_mask="0.0.0.5", position=pos)
    elif m == "router_port_a_disabled":
        N[sc.get("at", "R1")].disable_port(1)
    elif m == "router_port_b_disabled":
        N[sc.get("at", "R1")].disable_port(2)
    elif m == "fw_deny_dst_b_only":
        fw = N["FW"]
        second = {"ext": fw.external_outbound_acl, "int": fw.internal_inbound_acl, "dmz": fw.dmz_inbound_acl}[sc["b_zone"]]
        second.add_rule(action=ACLAction.DENY, dst_ip_address=b_ip, position=pos)
    elif m in ("fw_first_stage_deny", "fw_first_stage_empty", "fw_second_stage_deny"):
        fw = N["FW"]
        first = {"ext": fw.external_inbound_acl, "int": fw.internal_outbound_acl, "dmz": fw.dmz_outbound_acl}[sc["a_zone"]]
        second = {"ext": fw.external_outbound_acl, "int": fw.internal_inbound_acl, "dmz": fw.dmz_inbound_acl}[sc["b_zone"]]
        if m == "fw_first_stage_deny":
            first.add_rule(action=ACLAction.DENY, position=pos)
        elif m == "fw_first_stage_empty":
            first.remove_rule(10)
            first.implicit_action = ACLAction.DENY
            first.implicit_rule.action = ACLAction.DENY
        else:
            second.add_rule(action=ACLAction.DENY, position=pos)
    elif m == "fw_port_a_disabled":
        N["FW"].disable_port(info["fw_a_port"])
    elif m == "fw_port_b_disabled":
        N["FW"].disable_port(info["fw_b_port"])
    else:
        raise ValueError(m)


# ------------------------------------------------------------------------------------------ red repertoire
OPS = ["ping", "ping_scan", "port_scan_tcp", "port_scan_udp", "port_scan_arp_port", "db_connect", "db_query", "db_query_new",
       "ftp_send", "data_manip", "ransomware", "dos", "term_login", "term_command", "c2_establish", "c2_terminal",
       "c2_ransomware", "c2_exfil", "web_get", "c_ping", "ping_gw", "scan_d_tcp", "scan_d_udp", "port_scan_none", "tick"]


def do_op(op: str, N, info) -> str:
    from primaite.simulator.system.applications.red_applications.c2 import CommandOpts  # noqa: F401
    from primaite.utils.validation.ip_protocol import PROTOCOL_LOOKUP
    from primaite.utils.validation.port import PORT_LOOKUP
    a, b, c = N["A"], N["B"], N["C"]
    b_ip = IPv4Address(info["b_ip"])
    sw = a.software_manager.software
    st = info["state"]
    if op == "ping":
        return str(a.ping(b_ip, pings=2))
    if op == "c_ping":
        return str(c.ping(b_ip, pings=1))
    if op == "ping_gw":
        # traffic addressed to the blocking element ITSELF (its own software answers): it must not make the element let anything through
        gw = a.config.default_gateway
        return "no-gw" if not gw else str(a.ping(gw, pings=1))
    if op == "ping_scan":
        from ipaddress import IPv4Network
        return str(len(sw["nmap"].ping_scan(target_ip_address=IPv4Network(info["b_net"]), show=False)))
    if op in ("scan_d_tcp", "scan_d_udp"):
        # PERMITTED traffic of the same protocol and ports as the attacks on B, to B's neighbour D, through the blocking element
        if "d_ip" not in info or "D" not in N:
            return "no-d"
        port, proto = ("POSTGRES_SERVER", "TCP") if op == "scan_d_tcp" else ("DNS", "UDP")
        return str(sw["nmap"].port_scan(target_ip_address=IPv4Address(info["d_ip"]), target_port=PORT_LOOKUP[port],
                                        target_protocol=PROTOCOL_LOOKUP[proto], show=False))
    if op == "port_scan_none":
        # a frame whose IP protocol is "none" (legal: VALID_PROTOCOLS): protocol-specific rules for tcp/udp/icmp do not see it
        return str(sw["nmap"].port_scan(target_ip_address=b_ip, target_port=PORT_LOOKUP["POSTGRES_SERVER"], target_protocol="none", show=False))
    if op.startswith("port_scan"):
        port, proto = {"port_scan_tcp": ("POSTGRES_SERVER", "TCP"), "port_scan_udp": ("DNS", "UDP"),
                       "port_scan_arp_port": ("ARP", "UDP")}[op]
        return str(sw["nmap"].port_scan(target_ip_address=b_ip, target_port=PORT_LOOKUP[port],
                                        target_protocol=PROTOCOL_LOOKUP[proto], show=False))
    if op == "db_connect":
        st["db_conn"] = sw["database-client"].get_new_connection()
        return str(st["db_conn"] is not None)
    if op == "db_query":
        if st["db_conn"] is None:
            return "no-conn"
        return str(st["db_conn"].query("INSERT"))
    if op == "db_query_new":
        return str(sw["database-client"].query("DELETE"))
    if op == "ftp_send":
        ftp = sw["ftp-client"]
        return str(ftp.send_file(dest_ip_address=b_ip, src_folder_name="loot", src_file_name="tool.exe",
                                 dest_folder_name="incoming", dest_file_name="tool.exe"))
    if op == "data_manip":
        sw["data-manipulation-bot"].run()
        return str(sw["data-manipulation-bot"].attack())
    if op == "ransomware":
        sw["ransomware-script"].run()
        return str(sw["ransomware-script"].attack())
    if op == "dos":
        sw["dos-bot"].run()
        return "ran"
    if op == "term_login":
        st["term"] = a.terminal.login(username="admin", password="admin", ip_address=b_ip)
        return str(st["term"] is not None)
    if op == "term_command":
        if st["term"] is None:
            return "no-term"
        return str(st["term"].execute(["file_system", "create", "folder", "pwned"]))
    if op == "c2_establish":
        beacon = b.software_manager.software["c2-beacon"]
        sw["c2-server"].run()
        beacon.configure(c2_server_ip_address=IPv4Address(info["a_ip"]), keep_alive_frequency=2)
        return str(beacon.establish())
    if op.startswith("c2_"):
        from primaite.simulator.system.applications.red_applications.c2.abstract_c2 import C2Command
        srv = sw["c2-server"]
        if op == "c2_terminal":
            opts = {"commands": ["file_system", "create", "folder", "c2dir"], "username": "admin", "password": "admin", "ip_address": None}
            return str(srv.send_command(C2Command.TERMINAL, command_options=opts).status)
        if op == "c2_ransomware":
            opts = {"server_ip_address": str(b_ip), "payload": "ENCRYPT"}
            return str(srv.send_command(C2Command.RANSOMWARE_CONFIGURE, command_options=opts).status)
        if op == "c2_exfil":
            opts = {"username": "admin", "password": "admin", "target_ip_address": str(b_ip), "target_folder_name": "secrets",
                    "target_file_name": "plans.txt", "exfiltration_folder_name": "exfil"}
            return str(srv.send_command(C2Command.DATA_EXFILTRATION, command_options=opts).status)
    if op == "web_get":
        wb = sw["web-browser"]
        wb.run()
        wb.config.target_url = f"http://{b_ip}/"
        return str(wb.get_webpage())
    if op == "tick":
        return "tick"
    if op == "dev_if_enable":
        # DEFENDER-side operation of the transitional family (kept in the idle run too): somebody tries to bring the interfaces of the
        # device that is being powered off / booted back up (enable() must refuse while the node is not ON: POp.ifEnable)
        dev = N[info["power_device"]]
        out = ",".join(str(bool(ni.enable())) for _, ni in sorted(dev.network_interface.items()))
        info["pw_line"]("pw ifenable")
        return out
    raise ValueError(op)


# ------------------------------------------------------------------------------------------ one run
def _run_once(sc: dict, with_block: bool, post_ops: List[str], wrappers: bool, prot: List[str]) -> dict:
    """pre ops, (block), post ops; every op is followed by one simulation timestep."""
    from primaite.simulator.network.hardware.base import Link
    from primaite.simulator.network.hardware.nodes.network.router import AccessControlList, Router
    from primaite.simulator.network.hardware.nodes.network.firewall import Firewall
    from primaite.simulator.network.hardware.nodes.network.switch import Switch
    from primaite.simulator.network.protocols.arp import ARPPacket
    from primaite.simulator.system.core.session_manager import SessionManager
    sim, N, info = build(sc)
    if sc.get("phase"):
        info["power_device"] = power_device(sc)
    t = {"n": 0}
    log: List[str] = []
    errors: List[str] = []
    frame_viol: List[str] = []
    denied: Dict[int, Any] = {}
    keep: List[Any] = []
    owner = {}
    for n in N.values():
        for attr in ("acl", "internal_inbound_acl", "internal_outbound_acl", "dmz_inbound_acl", "dmz_outbound_acl",
                     "external_inbound_acl", "external_outbound_acl"):
            if hasattr(n, attr):
                owner[id(getattr(n, attr))] = (n, attr)

    # power correspondence (transitional scenarios): every power request, every tick and every re-enable attempt performed on the device
    # is ALSO a line for the Lean driver, which executes the translated programs of Model/FilterPower.lean (`exec`); the device's
    # (operating state, interface flags) after each line is compared with the model's answer in run()
    pw = {"lines": [], "impl": []}
    pw_dev = N.get(power_device(sc)) if (sc.get("phase") and with_block) else None

    def pw_bits(kind):
        out = ""
        for _p, ni in sorted(pw_dev.network_interface.items()):
            if kind == "enabled":
                out += "1" if ni.enabled else "0"
            else:
                out += "1" if (not hasattr(ni, "_connected_link") or ni._connected_link is not None) else "0"
        return out

    def pw_line(line):
        if pw_dev is not None and (pw["lines"] or line.startswith("pw-new")):
            pw["lines"].append(line)
            pw["impl"].append(f"{pw_dev.operating_state.name} {pw_bits('enabled')}")
    info["pw_line"] = pw_line

    def tick():
        try:
            sim.pre_timestep(t["n"])
            sim.apply_timestep(t["n"])
        except Exception as e:  # a timestep that raises is C01's business; recorded, the run goes on
            errors.append(f"tick: {type(e).__name__}: {str(e)[:80]}")
        t["n"] += 1
        pw_line("pw tick")

    def guarded(op, then_tick=True):
        try:
            log.append(f"{op}={do_op(op, N, info)}")
        except Exception as e:  # an operation that raises is recorded (C01's business) but must still not touch B
            errors.append(f"{op}: {type(e).__name__}: {str(e)[:80]}")
            log.append(f"{op}=raised:{type(e).__name__}")
        if then_tick:
            tick()

    real_isp, real_tx, real_srx, real_proc = (AccessControlList.is_permitted, Link.transmit_frame, SessionManager.receive_frame,
                                              Router.process_frame)

    def isp(self, frame):
        permitted, rule = real_isp(self, frame)
        if not permitted and id(self) in owner:
            keep.append(frame)
            denied[id(frame)] = owner[id(self)]
        return permitted, rule

    barrier = set(roles_for(sc)) - set(prot) if with_block else set()
    to_prot = {"n": 0, "arp": 0, "on": False}
    cls = class_patterns(sc, info) if with_block else None
    exempt = arp_exempt(sc)
    closure = {"ok": 0, "bad": []}
    prot_origin: Dict[int, Any] = {}

    # -- validation of the attacker-side MODELS of Props/C06Net.lean on the implementation (every run, every frame)
    sw_in: Dict[str, list] = {}
    model_bad: List[str] = []
    model_ok = {"switch": 0, "arp": 0, "stamp": 0}
    rtr_macs = {}
    for n in N.values():
        if isinstance(n, Router):
            for ni in n.network_interface.values():
                rtr_macs[ni.mac_address] = ni.ip_address

    def snap(frame):
        # the TTL is left out: one Frame object is shared by all recipients of a flood and each receiving interface decrements it
        return (frame.ethernet.src_mac_addr, frame.ethernet.dst_mac_addr, str(frame.ip.src_ip_address), str(frame.ip.dst_ip_address),
                str(frame.ip.protocol), None if frame.tcp is None else (frame.tcp.src_port, frame.tcp.dst_port),
                None if frame.udp is None else (frame.udp.src_port, frame.udp.dst_port), id(frame.payload))

    real_swrx = Switch.receive_frame

    def swrx(self, frame, from_network_interface):
        # delivery is synchronous and re-entrant: a stack per switch, the frame being handled is on top
        st = sw_in.setdefault(self.config.hostname, [])
        st.append((id(frame), snap(frame)))
        try:
            return real_swrx(self, frame, from_network_interface)
        finally:
            st.pop()

    created: Dict[int, Any] = {}

    # rtrStd (Model/FilterFwd.lean): what a router / firewall puts on a wire while it handles a frame.  The real proc() wrapper
    # already exists for Router.process_frame; here the whole receive_frame is bracketed (a stack per device: re-entrance).
    rt_in: Dict[str, list] = {}
    real_rrx, real_frx = Router.receive_frame, Firewall.receive_frame

    def _pktsnap(frame):
        return (str(frame.ip.src_ip_address), str(frame.ip.dst_ip_address), str(frame.ip.protocol),
                None if frame.tcp is None else (frame.tcp.src_port, frame.tcp.dst_port),
                None if frame.udp is None else (frame.udp.src_port, frame.udp.dst_port), id(frame.payload))

    def _bracket(real):
        def rx(self, frame, from_network_interface):
            st = rt_in.setdefault(self.config.hostname, [])
            st.append((id(frame), _pktsnap(frame)))
            try:
                return real(self, frame=frame, from_network_interface=from_network_interface)
            finally:
                st.pop()
        return rx

    def check_router(node, sender_nic, frame):
        h = node.config.hostname
        st = rt_in.get(h)
        if not st:
            model_ok["rtr-unattributed"] = model_ok.get("rtr-unattributed", 0) + 1  # not caused by a frame (none observed so far)
            return
        hid, hsnap = st[-1]
        hops = {str(r.next_hop_ip_address) for r in list(node.route_table.routes) +
                ([node.route_table.default_route] if node.route_table.default_route else [])}
        what = None
        if id(frame) == hid:
            # a forwarded copy: the packet and the payload are those that were received
            if _pktsnap(frame) != hsnap:
                what = "forwarded a frame whose packet differs from the one it received"
            kind = "rtr-forwarded"
        elif isinstance(frame.payload, ARPPacket) and frame.payload.request:
            tgt = str(frame.payload.target_ip_address)
            if not (frame.payload.sender_ip_address == sender_nic.ip_address and (tgt in (hsnap[0], hsnap[1]) or tgt in hops)):
                what = f"ARP request for {tgt}: neither the handled frame's source/destination ({hsnap[0]}/{hsnap[1]}) nor a next hop"
            kind = "rtr-arp-request"
        elif isinstance(frame.payload, ARPPacket):
            kind = "rtr-arp-reply"
        else:
            # own services answer to the source of the frame being handled, with the outbound interface's own address
            if not (frame.ip.src_ip_address == sender_nic.ip_address and str(frame.ip.dst_ip_address) == hsnap[0]):
                what = (f"created a frame {frame.ip.src_ip_address}->{frame.ip.dst_ip_address} while handling a frame from {hsnap[0]}: "
                        f"not a reply to the source")
            kind = "rtr-reply-to-source"
        if what:
            model_bad.append(f"{h}: router/firewall {what}")
        else:
            model_ok[kind] = model_ok.get(kind, 0) + 1

    def check_models(sender_nic, frame):
        node = sender_nic._connected_node
        h = node.config.hostname
        if isinstance(node, Router):
            check_router(node, sender_nic, frame)
        if isinstance(node, Switch):
            # switchStd: a switch sends THE frame it received, unchanged
            st = sw_in.get(h)
            got = st[-1] if st else None
            if got is None or got[0] != id(frame) or got[1] != snap(frame):
                model_bad.append(f"{h}: switch sent a frame that is not the unchanged frame it received")
            else:
                model_ok["switch"] += 1
            return
        first = id(frame) not in created
        if first:
            created[id(frame)] = frame
        if isinstance(frame.payload, ARPPacket):
            # ArpWf: a request is a broadcast whose sender is the emitting interface (hence in its subnet); a reply addressed to a
            # router interface's MAC is addressed to that interface's address
            a = frame.payload
            ok = frame.udp is not None and int(frame.udp.dst_port) == 219
            if a.request:
                ok = ok and frame.ethernet.dst_mac_addr == "ff:ff:ff:ff:ff:ff"
                if first:
                    ok = ok and a.sender_ip_address == sender_nic.ip_address and a.sender_mac_addr == sender_nic.mac_address \
                        and frame.ethernet.src_mac_addr == sender_nic.mac_address
            else:
                m = frame.ethernet.dst_mac_addr
                ok = ok and (m not in rtr_macs or rtr_macs[m] == frame.ip.dst_ip_address)
            if ok:
                model_ok["arp"] += 1
            else:
                model_bad.append(f"{h}: ARP {'request' if a.request else 'reply'} {a.sender_ip_address}->{a.target_ip_address} is not "
                                 f"well-formed (dst {frame.ethernet.dst_mac_addr}/{frame.ip.dst_ip_address})")
        if first and not isinstance(node, Router):
            # hostStamp: a frame a host creates carries the outbound interface's own MAC and address as source
            if frame.ethernet.src_mac_addr == sender_nic.mac_address and frame.ip.src_ip_address == sender_nic.ip_address:
                model_ok["stamp"] += 1
            else:
                model_bad.append(f"{h}: created a frame with source {frame.ethernet.src_mac_addr}/{frame.ip.src_ip_address}, interface is "
                                 f"{sender_nic.mac_address}/{sender_nic.ip_address}")

    def tx(self, sender_nic, frame):
        check_models(sender_nic, frame)
        if to_prot["on"] and sender_nic._connected_node.config.hostname in barrier:
            rx = self.endpoint_b if self.endpoint_a is sender_nic else self.endpoint_a
            if rx is not None and rx._connected_node is not None and rx._connected_node.config.hostname in prot:
                # the element's OWN address resolution (an ARP request it builds itself) is counted apart from everything else
                own_arp = (isinstance(frame.payload, ARPPacket) and frame.payload.request
                           and frame.payload.sender_mac_addr == sender_nic.mac_address)
                to_prot["arp" if own_arp else "n"] += 1
        if sender_nic._connected_node.config.hostname in prot and id(frame) not in prot_origin:
            # a frame a PROTECTED node created (B's own keep-alives, replies to what was permitted): when a rule that is specific to
            # attacker sources lets it through, the blocking router forwards it into the attacker side; it is not attacker traffic
            # and the theorem does not speak about B's own operations
            prot_origin[id(frame)] = frame
        if (to_prot["on"] and cls is not None and sender_nic._connected_node.config.hostname not in prot
                and id(frame) not in prot_origin):
            # closure hypothesis of the class cut theorem, validated: every frame an attacker-side node creates or forwards on
            # behalf of the attacker side is in the class
            if in_class(frame, cls, exempt):
                closure["ok"] += 1
            elif len(closure["bad"]) < 3:
                closure["bad"].append(f"{sender_nic._connected_node.config.hostname}: {frame.ip.protocol} "
                                      f"{frame.ip.src_ip_address}->{frame.ip.dst_ip_address}")
        d = denied.get(id(frame))
        if d is not None and sender_nic._connected_node is d[0]:
            frame_viol.append(f"{d[0].config.hostname} sent on a frame its {d[1]} denied")
        return real_tx(self, sender_nic, frame)

    from primaite.simulator.network.airspace import AirSpace
    real_air = AirSpace.transmit

    class _AirWire:
        """the airspace seen from one sender as a wire to the other enabled access point of its frequency (at most one: topo_lines)"""
        def __init__(self, sender, peers):
            self.endpoint_a, self.endpoint_b = sender, (peers[0] if peers else None)

    def air_tx(self, frame, sender_network_interface):
        peers = [w for w in self.wireless_interfaces_by_frequency.get(sender_network_interface.frequency.frequency_hz, [])
                 if w != sender_network_interface and w.enabled]
        model_ok["air"] = model_ok.get("air", 0) + 1
        holder = {"done": False}

        def once(_self, _nic, _frame):
            holder["done"] = True
        nonlocal real_tx
        keep_tx, real_tx = real_tx, once
        try:
            tx(_AirWire(sender_network_interface, peers), sender_network_interface, frame)  # same checks as on a cable
        finally:
            real_tx = keep_tx
        return real_air(self, frame, sender_network_interface)

    def srx(self, frame, from_network_interface):
        d = denied.get(id(frame))
        if d is not None and self.node is d[0]:
            frame_viol.append(f"{d[0].config.hostname} handed a frame its {d[1]} denied to its session manager")
        return real_srx(self, frame, from_network_interface)

    def proc(self, frame, from_network_interface):
        d = denied.get(id(frame))
        if d is not None and self is d[0]:
            frame_viol.append(f"{d[0].config.hostname} routed a frame its {d[1]} denied")
        return real_proc(self, frame, from_network_interface)

    with ExitStack() as es:
        if wrappers:
            es.enter_context(mock.patch.object(AccessControlList, "is_permitted", isp))
            es.enter_context(mock.patch.object(Link, "transmit_frame", tx))
            es.enter_context(mock.patch.object(AirSpace, "transmit", air_tx))
            es.enter_context(mock.patch.object(SessionManager, "receive_frame", srx))
            es.enter_context(mock.patch.object(Router, "process_frame", proc))
            es.enter_context(mock.patch.object(Switch, "receive_frame", swrx))
            es.enter_context(mock.patch.object(Router, "receive_frame", _bracket(real_rrx)))
            es.enter_context(mock.patch.object(Firewall, "receive_frame", _bracket(real_frx)))
        tick()
        for op in sc["pre_ops"]:
            guarded(op)
        if pw_dev is not None:
            pw_line(f"pw-new {pw_dev.config.start_up_duration} {pw_dev.config.shut_down_duration} {pw_bits('enabled')} {pw_bits('linked')}")
        if with_block:
            apply_block(sc, sim, N, info, tick)
        # transitional scenarios (`phase`): the first operation of A falls into the very step of the accepted request, the k-th one
        # k - 1 ticks later; nothing is ticked after the last one (a `boot` / `reset` window must not have ended when B is read)
        phase = sc.get("phase")
        if not phase:
            tick()
        at_block = {h: node_obs(N[h]) for h in prot}
        topo = topo_lines(sc, sim, N, prot, info) if (with_block or sc.get("_want_topo")) else []
        to_prot["on"] = True
        n_err_at_block = len(errors)
        power_trace = []
        dev = N.get(power_device(sc)) if phase else None
        for i, op in enumerate(post_ops):
            if dev is not None:
                power_trace.append(dev.operating_state.name)
            guarded(op, then_tick=not (phase and i == len(post_ops) - 1))
        if not phase:
            tick()
        if phase and with_block:
            want = transitional_states(sc)
            if power_trace != want:
                # the scenario is built so that A acts at EVERY tick of the window; if the device's states at A's operations are
                # not the expected ones the scenario does not test what it says (C12 owns the timing itself)
                errors.append(f"power-trace: {power_trace} expected {want}")
    return {"post_errors": [e for e in errors[n_err_at_block:] if not e.startswith("power-trace")], "pw": pw, "power_trace": power_trace, "obs": {h: node_obs(N[h]) for h in prot}, "at_block": at_block, "topo": topo, "to_prot": to_prot["n"], "to_prot_arp": to_prot["arp"], "log": log, "errors": errors,
            "frame_viol": frame_viol, "closure": closure, "model_ok": model_ok, "model_bad": model_bad[:3]}


def _first_diff(a: Any, b: Any, path: str = "") -> Optional[str]:
    if type(a) != type(b):
        return f"{path}: {str(a)[:60]} != {str(b)[:60]}"
    if isinstance(a, list):
        if len(a) != len(b):
            return f"{path}: length {len(a)} != {len(b)}"
        for i, (x, y) in enumerate(zip(a, b)):
            label = f"{path}/{x[0]}" if isinstance(x, list) and len(x) == 2 and isinstance(x[0], str) else f"{path}[{i}]"
            d = _first_diff(x, y, label)
            if d:
                return d
        return None
    return None if a == b else f"{path}: {str(a)[:60]} != {str(b)[:60]}"


def run_scenario(sc: dict, control: bool = True) -> dict:
    import logging
    logging.disable(logging.WARNING)  # the simulator logs link removals etc. at INFO to the console
    prot = protected(sc)
    attack = _run_once(sc, True, sc["post_ops"], True, prot)
    idle = _run_once(sc, True, [o if o in DEFENDER_OPS else "tick" for o in sc["post_ops"]], True, prot)
    violations = []
    if attack["to_prot"] != idle["to_prot"]:
        # validates the cut theorem's software hypothesis on the implementation: what a blocking router / firewall emits
        # towards the protected side does not depend on what the attacker side does
        violations.append({"kind": "blocking-element-emitted-to-protected", "what":
                           f"blocking element put {attack['to_prot']} frames on protected-side wires after the block, {idle['to_prot']} when A idles"})
    if attack["to_prot_arp"] != idle["to_prot_arp"]:
        violations.append({"kind": "blocking-element-arp-request-to-protected", "what":
                           f"blocking element sent {attack['to_prot_arp']} ARP requests of its own into the protected side after the "
                           f"block, {idle['to_prot_arp']} when A idles"})
    for e in sorted(set(attack["post_errors"])):
        # an exception out of the implementation while A operates against a block that should simply hold (an operation of A, or the
        # timestep after it: frame processing is synchronous, the exception comes out of a receive path) is itself a failing input
        violations.append({"kind": "exception-during-operation", "what": f"the implementation raised while A operated against the block: {e}",
                           "exc": e.split(":")[1].strip() if ":" in e else e})
    for h in prot:
        d = _first_diff(idle["obs"][h], attack["obs"][h], h)
        if d:
            violations.append({"kind": "protected-state-changed", "node": h, "diff": d})
    # the host B first: a change of B's own state is what the property forbids in so many words
    violations.sort(key=lambda v: 0 if v.get("node") == "B" else 1)
    for v in sorted(set(attack["frame_viol"])):
        violations.append({"kind": "denied-frame-not-inert", "what": v})
    res = {"pw": attack["pw"], "power_trace": attack["power_trace"], "violations": violations, "log": attack["log"], "errors": attack["errors"], "nontrivial": None, "protected": prot,
           "topo": attack["topo"], "closure": attack["closure"], "topo_ctl": [],
           "model_ok": {k: attack["model_ok"].get(k, 0) + idle["model_ok"].get(k, 0)
                        for k in set(attack["model_ok"]) | set(idle["model_ok"])},
           "model_bad": attack["model_bad"] + idle["model_bad"]}
    if control:
        sc2 = dict(sc, missing_links=[], _want_topo=True)
        ctl = _run_once(sc2, False, sc["post_ops"], False, prot)
        res["topo_ctl"] = ctl["topo"]  # the same network WITHOUT the block: both certificates must reject it
        ctl_idle = _run_once(sc2, False, [o if o in DEFENDER_OPS else "tick" for o in sc["post_ops"]], False, prot)
        res["nontrivial"] = any(_first_diff(ctl_idle["obs"][h], ctl["obs"][h], h) for h in prot)
    return res


# ------------------------------------------------------------------------------------------ generation
def gen_scenario(rng: Rng, max_ops: int = 8) -> dict:
    fam = rng.choice(["switched", "routed", "routed", "firewall", "firewall", "wireless"])
    sc: Dict[str, Any] = {"family": fam, "block": rng.choice(BLOCKS[fam]), "rule_pos": rng.choice([0, 0, 1, 3, 9])}
    if fam == "routed":
        sc["routers"] = rng.choice([1, 1, 2])
        sc["at"] = "R1" if sc["routers"] == 1 else rng.choice(["R1", "R2"])
    if fam == "wireless":
        sc["routers"] = 2
        sc["at"] = rng.choice(["R1", "R2"])
    if fam == "firewall":
        za = rng.choice(["ext", "int", "dmz"])
        sc["a_zone"], sc["b_zone"] = za, rng.choice([z for z in ("ext", "int", "dmz") if z != za])
        if sc["b_zone"] != "dmz" and rng.chance(1, 3):
            # B behind a further router of its zone.  Not for the DMZ: the firewall tells "for the DMZ" by `dst in dmz_port.ip_network`
            # (model: `inDmzNet`), so a host behind a DMZ router is guarded by the internal-inbound / external-outbound list, not by
            # dmz_inbound_acl — a rule put there is no block for it (zoneTable quirk, kept in the model since round 1)
            sc["b_behind_router"] = True
    if sc["block"] in ("missing_link", "removed_link"):
        cands = {"switched": ["SW1-SW2", "SW2-B"], "routed": ["SW1-R1", "R1-SW2" if sc.get("routers") == 1 else "R1-R2", "SW2-B"],
                 "firewall": ["SW1-FW", "FW-RI" if sc.get("b_behind_router") else "FW-SW2", "SW2-B"],
                 "wireless": ["SW1-R1", "R2-SW2", "SW2-B"]}[fam]
        name = rng.choice(cands)
        if sc["block"] == "missing_link":
            sc["missing_links"] = [name]
        else:
            sc["remove"] = name
    if sc["block"].endswith("_off"):
        sc["shut"] = rng.choice([0, 2])
    n_pre = 0 if sc["block"] == "missing_link" or rng.chance(1, 3) else rng.range(1, max_ops // 2)
    pre_pool = ["ping", "db_connect", "term_login", "c2_establish", "port_scan_tcp", "c_ping", "db_query", "ftp_send", "tick"]
    sc["pre_ops"] = [rng.choice(pre_pool) for _ in range(n_pre)]
    post_pool = [o for o in OPS if o != "c2_establish"]  # establishing the beacon is an action ON B: set-up only
    if sc["block"] == "router_deny_three_protocols":
        # DENY tcp + udp + icmp is NOT a block for protocol-"none" frames (C06_three_protocols_not_a_block; R-net's control obligation
        # shows it on the running code): the scenario claims a block only for traffic of the three protocols
        post_pool = [o for o in post_pool if o != "port_scan_none"]
    sc["post_ops"] = [rng.choice(post_pool) for _ in range(rng.range(2, max_ops))]
    return sc


def directed_scenarios(rng: Rng) -> List[dict]:
    """A small fixed family run every time: traffic addressed to the BLOCKING ELEMENT ITSELF (its own software answers: ICMP, ARP,
    the session manager between a firewall's two stages) followed by attacks on B — the situation in which software on the
    blocking element could undo the block (re-enable a boundary interface, relay) — for each way an element blocks."""
    out = []
    tail = ["ping", "data_manip", "db_query_new", "port_scan_tcp", "c_ping"]
    for fam, block, extra in (("routed", "router_port_b_disabled", {"routers": 1, "at": "R1"}),
                              ("routed", "router_port_b_disabled", {"routers": 2, "at": "R1"}),
                              ("routed", "router_deny_anyany", {"routers": 1, "at": "R1"}),
                              ("routed", "router_deny_src_range", {"routers": 1, "at": "R1"}),
                              ("firewall", "fw_port_b_disabled", {"a_zone": "ext", "b_zone": "int"}),
                              ("firewall", "fw_second_stage_deny", {"a_zone": "dmz", "b_zone": "int"}),
                              ("firewall", "fw_second_stage_deny", {"a_zone": "dmz", "b_zone": "int", "b_behind_router": True}),
                              ("firewall", "fw_second_stage_deny", {"a_zone": "ext", "b_zone": "int", "b_behind_router": True}),
                              ("firewall", "fw_first_stage_deny", {"a_zone": "int", "b_zone": "ext"})):
        sc = {"family": fam, "block": block, "rule_pos": rng.choice([0, 1, 3]), "pre_ops": [rng.choice(["ping", "db_connect", "tick"])],
              "post_ops": ["ping_gw"] + [rng.choice(tail) for _ in range(2)] + ["ping_gw", rng.choice(tail)]}
        sc.update(extra)
        out.append(sc)
    # history family: A first exchanges PERMITTED traffic of the same protocol and ports with B's neighbour D through the router whose
    # list denies only what is addressed to B, then attacks B (a verdict that depended on what was judged before would let it through)
    out.append({"family": "routed", "block": "router_deny_four_protocols", "routers": 1, "at": "R1", "rule_pos": rng.choice([0, 3]),
                "pre_ops": ["tick"], "post_ops": ["port_scan_none", "ping", "port_scan_udp", "port_scan_none", "data_manip"]})
    for za, zb in (("ext", "int"), ("int", "ext")):
        out.append({"family": "firewall", "block": "fw_deny_dst_b_only", "a_zone": za, "b_zone": zb, "third_host": True,
                    "rule_pos": rng.choice([0, 3]), "pre_ops": [rng.choice(["tick", "c_ping"])],
                    "post_ops": ["scan_d_tcp", "port_scan_tcp", "db_query_new", "scan_d_udp", "port_scan_udp"]})
    for order in (["scan_d_tcp", "port_scan_tcp", "db_query_new", "scan_d_udp", "port_scan_udp"],
                  ["scan_d_udp", "scan_d_tcp", "data_manip", "port_scan_udp", "db_connect"]):
        out.append({"family": "routed", "block": "router_deny_dst_b_only", "routers": 1, "at": "R1", "third_host": True,
                    "rule_pos": rng.choice([0, 3]), "pre_ops": [rng.choice(["tick", "c_ping"])], "post_ops": order})
    return out


def wildcard_scenarios(rng: Rng) -> List[dict]:
    """ENUMERATED every run: rule-list blocks written with wildcard masks (both boundary masks, a contiguous and a non-contiguous one) on
    a router, on both wireless routers, and on each of the firewall's SIX lists (three first-stage, three second-stage)"""
    tail = ["ping", "data_manip", "db_query_new", "port_scan_tcp", "port_scan_udp", "c_ping", "dos", "port_scan_none", "ftp_send"]
    out = []

    def mk(**kw):
        sc = dict({"rule_pos": rng.choice([0, 1, 3]), "pre_ops": [rng.choice(["ping", "db_connect", "tick"])],
                   "post_ops": [rng.choice(tail) for _ in range(4)]}, **kw)
        out.append(sc)
    for b in sorted(WC_ROUTER):
        mk(family="routed", block=b, routers=1, at="R1")
    for at in ("R1", "R2"):
        for b in ("router_wc_anywc", "router_wc_host_allowlist"):
            mk(family="wireless", block=b, routers=2, at=at)
    for stage, za, zb in (("first", "ext", "int"), ("first", "int", "ext"), ("first", "dmz", "int"),
                          ("second", "int", "ext"), ("second", "ext", "int"), ("second", "ext", "dmz")):
        for b in ("fw_wc_anywc", "fw_wc_host_allowlist"):
            mk(family="firewall", block=b, a_zone=za, b_zone=zb, stage=stage)
    mk(family="firewall", block="fw_wc_noncontig", a_zone="ext", b_zone="int", stage="first")
    return out


def wireless_scenarios(rng: Rng) -> List[dict]:
    """ENUMERATED every run: each way the wireless path can be blocked x the wireless router it is done on"""
    tail = ["ping", "data_manip", "db_query_new", "port_scan_tcp", "port_scan_udp", "c_ping", "ping_gw", "dos", "port_scan_none"]
    out = []
    for block in ("router_deny_anyany", "router_deny_dst_exact", "router_deny_src_range", "router_off", "wap_disabled", "wap_other_frequency"):
        for at in ("R1", "R2"):
            sc = {"family": "wireless", "block": block, "routers": 2, "at": at, "rule_pos": rng.choice([0, 1, 3]),
                  "pre_ops": [rng.choice(["ping", "db_connect", "tick"])], "post_ops": [rng.choice(tail) for _ in range(4)]}
            if block == "router_off":
                sc["shut"] = rng.choice([0, 2])
            out.append(sc)
    return out


def sig_of(sc: dict, v: dict) -> dict:
    s = {"kind": v["kind"], "family": sc["family"], "block": sc["block"]}
    if sc.get("phase"):
        s["phase"] = sc["phase"]
    if sc["family"] == "firewall":
        s["a_zone"] = sc.get("a_zone")
        s["b_behind_router"] = bool(sc.get("b_behind_router"))
    if v["kind"] == "exception-during-operation":
        s["exc"] = v.get("exc")
    if v["kind"] == "protected-state-changed":
        s["node"] = v["node"]
        s["where"] = v["diff"].split(":")[0].split("/")[1].split("[")[0] if "/" in v["diff"].split(":")[0] else ""
    return s


def run(ctx: Ctx):
    scenarios = []
    for f in sorted((VERIF / "corpus" / "C06").glob("net-*.json")):
        scenarios.append(("corpus:" + f.name, json.loads(f.read_text())["scenario"]))
    rng = ctx.rng.fork("net")
    for k, sc in enumerate(directed_scenarios(ctx.rng.fork("net-directed"))):
        scenarios.append((f"directed:{k}", sc))
    for k, sc in enumerate(wildcard_scenarios(ctx.rng.fork("net-wildcard"))):
        scenarios.append((f"wildcard:{k}", sc))
    for k, sc in enumerate(wireless_scenarios(ctx.rng.fork("net-wireless"))):
        scenarios.append((f"wireless:{k}", sc))
    for k, sc in enumerate(transitional_scenarios(ctx.rng.fork("net-transitional"), every_duration=ctx.thorough)):
        scenarios.append((f"transitional:{k}", sc))
    for k in range(ctx.scale(30, 900)):
        scenarios.append((f"gen:{k}", gen_scenario(rng, max_ops=ctx.scale(6, 10))))
    clean = 0
    results, scen_bad = [], []
    for name, sc in scenarios:
        try:
            results.append((name, sc, run_scenario(sc, control=True)))
        except Exception as e:
            # the implementation (or the rig) raised OUTSIDE A's operations - while the network was built, the block applied, the state
            # read: no operation of A to blame; reported as a broken obligation, the other scenarios go on (never an internal error)
            import traceback
            tb = traceback.extract_tb(e.__traceback__)
            scen_bad.append(f"{name} {sc['family']}/{sc['block']}: {type(e).__name__}: {str(e)[:80]} at {tb[-1].filename.split('/')[-1]}:{tb[-1].lineno}")
            ctx.count(f"net:scenario-raised:{type(e).__name__}")
    scenarios = [(n, sc) for n, sc, _ in results]
    ctx.oblige("rig:R-net every scenario could be built, blocked and read on the implementation without an exception", "correspondence",
               not scen_bad, "; ".join(scen_bad[:5]))
    from harness.lib.core import load_findings, run_driver, sig_matches
    # recorded entries that Ctx.finish handles: open findings (KNOWN-FINDING) and observations (behaviour the stronger-than-the-
    # property oracle of this rig flags although host B is untouched; counted in the evidence, neither violation nor finding)
    open_f = [f for f in load_findings() if f["property"] == "C06" and f.get("status") in ("open", "observation")]
    all_lines: List[str] = []
    for _, _, res in results:
        all_lines += res["topo"] + res["topo_ctl"]
    answers = run_driver("drv_c06", all_lines)
    pos, cert_bad, certc_bad, ctl_bad, closure_bad, certn_bad, model_bad_all, certb_bad = 0, [], [], [], [], [], [], []
    for name, sc, res in results:
        chunk = answers[pos:pos + len(res["topo"])]
        pos += len(res["topo"])
        chunk_ctl = answers[pos:pos + len(res["topo_ctl"])]
        pos += len(res["topo_ctl"])
        if "bad-op" in chunk or "bad-op" in chunk_ctl:
            raise RuntimeError(f"driver rejected a topology line of {name}")
        res["certificateB"] = chunk[-1]
        chunk = chunk[:-1]
        if chunk_ctl:
            ctl_b = chunk_ctl[-1]
            chunk_ctl = chunk_ctl[:-1]
        res["certificate"] = chunk[-3]
        res["certificateC"] = chunk[-2]
        res["certificateN"] = chunk[-1]
        ok = chunk[-3] == "certified"
        okc = chunk[-2] == "certifiedC"
        okb = res["certificateB"] == "certifiedB"
        ctx.count(f"net:{res['certificateB'].split()[0]}:{sc['block']}")
        want_b = expect_certified_b(sc)
        if want_b is not None and res["certificateB"].split()[0] != want_b:
            certb_bad.append(f"{name} {sc['family']}/{sc['block']}: {res['certificateB']}, expected {want_b}")
        if chunk_ctl and sc["block"] in ("router_deny_anyany", "router_deny_dst_exact", "fw_first_stage_deny", "fw_first_stage_empty",
                                          "fw_second_stage_deny") and ctl_b == "certifiedB":
            certb_bad.append(f"{name} {sc['family']}/{sc['block']}: certifyB accepts the network WITHOUT the block")
        ctx.count(f"net:{'certified' if ok else 'uncertified'}:{sc['block']}")
        ctx.count(f"net:{'certifiedC' if okc else 'uncertifiedC'}:{sc['block']}")
        ctx.count(f"net:{chunk[-1].split()[0]}:{sc['block']}")
        want_n = expect_certified_n(sc, res["protected"])
        if chunk[-1].split()[0] != want_n and sc["block"] not in ORACLE_ONLY:
            certn_bad.append(f"{name} {sc['family']}/{sc['block']}: {chunk[-1]}, expected {want_n}")
        # which theorem covers the scenario, and what it still assumes
        roles = set(roles_for(sc).values())
        if sc["block"].endswith("_wc_host_allowlist"):
            ctx.count("net:theorem:none(host-only allow-list: element-level verdict theorems + oracle; the class scan denyClassCheck does not "
                      "prove a PERMIT rule for ANOTHER exact source disjoint from the class - certificate incomplete, not unsound)")
        elif sc["block"] in ("router_deny_dst_b_only", "fw_deny_dst_b_only"):
            ctx.count("net:theorem:none(history scenario: only B is protected; element-level C06_verdict_history_free + oracle)")
        elif chunk[-1] == "certifiedN":
            ctx.count("net:theorem:C06_certifiedN_unchanged:no-hypothesis")
        elif ok and "ifaceDown" not in roles and "routerDeny" not in roles:
            ctx.count("net:theorem:C06_certified_unchanged:no-hypothesis(arbitrary interior handlers)")
        elif ok and "routerDeny" not in roles:
            ctx.count("net:theorem:C06_certified_unchanged_confined:software-set-of-the-ifaceDown-element-confined")
        elif okb:
            ctx.count("net:theorem:C06_certifiedB_unchanged:no-hypothesis(conclusion: protected HOSTS unchanged)")
        elif chunk[-1] == "certifiedN-fw2":
            ctx.count("net:theorem:C06_certifiedN_unchanged:FwSecondOK")
        elif res["closure"]["bad"]:
            ctx.count("net:theorem:none(oracle only: the closure hypothesis of the class theorem does not hold in this run)")
        else:
            ctx.count("net:theorem:C06_certifiedC_unchanged:closure+software-hypotheses")
        oracle_only = sc["block"] in ORACLE_ONLY  # B alone is protected: no certificate speaks about it
        if sc["block"] in CERTIFIABLE and not ok:
            cert_bad.append(f"{name} {sc['family']}/{sc['block']}: {chunk[-3]}")
        if sc["block"] not in CERTIFIABLE and ok:
            cert_bad.append(f"{name} {sc['family']}/{sc['block']}: certified although the block is class-specific")
        if not okc and not oracle_only:
            certc_bad.append(f"{name} {sc['family']}/{sc['block']}: {chunk[-2]}")
        if chunk_ctl:
            # non-vacuity of both certificates: the same network without the block must be rejected (a scenario whose block is
            # a link that was never plugged in has no unblocked counterpart with that wire missing: its control has the wire)
            acc = chunk_ctl[-3] == "certified" or chunk_ctl[-2] == "certifiedC" or chunk_ctl[-1].startswith("certifiedN")
            if acc:
                ctl_bad.append(f"{name} {sc['family']}/{sc['block']}: unblocked network accepted ({chunk_ctl[-3]}, {chunk_ctl[-2]}, "
                               f"{chunk_ctl[-1]})")
            ctx.count("net:unblocked-network-rejected" if not acc else "net:unblocked-network-ACCEPTED")
        ctx.count("net:class-closure-frames-checked", res["closure"]["ok"] + len(res["closure"]["bad"]))
        closure_proved = chunk[-1].startswith("certifiedN")
        for k, v in res["model_ok"].items():
            ctx.count(f"net:model-validated:{k}-frames", v)
        if res["model_bad"]:
            model_bad_all.append(f"{name} {sc['family']}/{sc['block']}: {res['model_bad'][0]}")
            if len(model_bad_all) <= 3:
                what = res["model_bad"][0]
                ctx.violation({"kind": "attacker-side-model-vs-impl", "rig": "net", "element": what.split(":")[1].strip().split(" ")[0]},
                              f"{sc['family']}/{sc['block']}: the implementation leaves the model of Props/C06Net.lean: {what}",
                              {"rig": "net", "scenario": sc, "model_bad": res["model_bad"], "from": name})
        if res["closure"]["bad"]:
            if closure_proved:
                # the closure is PROVED for this network (hosts, switches, blocking router's ARP): a frame outside the class on the
                # wire contradicts the model
                closure_bad.append(f"{name} {sc['family']}/{sc['block']}: {res['closure']['bad'][0]}")
            else:
                # the closure is only a hypothesis here (destination-/protocol-specific class, or an interior router whose own
                # software answers): it does not hold for this run, so the class theorem does not cover the scenario (oracle only)
                ctx.count(f"net:closure-hypothesis-does-not-hold:{sc['block']}")
                res["closure_fails"] = True
    pw_lines, pw_bad, pw_n = [], [], 0
    for name, sc, res in results:
        if res["pw"]["lines"]:
            pw_lines += ["reset"] + res["pw"]["lines"]
    pw_ans = run_driver("drv_c06", pw_lines) if pw_lines else []
    k = 0
    for name, sc, res in results:
        if not res["pw"]["lines"]:
            continue
        k += 1  # reset
        got = pw_ans[k:k + len(res["pw"]["lines"])]
        k += len(res["pw"]["lines"])
        pw_n += len(got)
        for i, (line, a, b) in enumerate(zip(res["pw"]["lines"], res["pw"]["impl"], got)):
            ctx.count("net:power-model:" + line.split()[0] + (":" + line.split()[1] if line.startswith("pw ") else ""))
            if a != b:
                pw_bad.append(f"{name} {sc['family']}/{sc['block']}/{sc['phase']}: after `{line}` (line {i}) the device is `{a}`, the model `{b}`")
                if len(pw_bad) <= 3:
                    ctx.violation({"kind": "power-model-vs-impl", "rig": "net", "op": line.split()[-1] if line.startswith("pw ") else line.split()[0]},
                                  f"{sc['family']}/{sc['block']}/{sc['phase']}: {power_device(sc)} after `{line}` is `{a}` (operating state, interface "
                                  f"flags); the translated power programs of Model/FilterPower.lean give `{b}`",
                                  {"rig": "net", "scenario": sc, "pw_lines": res["pw"]["lines"][:i + 1], "impl": res["pw"]["impl"][:i + 1],
                                   "model": got[:i + 1], "from": name})
                break
    ctx.oblige("rig:R-net power correspondence: the device of every transitional scenario and the Lean interpreter of the translated power "
               "programs (drv_c06 `pw` lines = the requests, ticks and re-enable attempts the rig performs) agree on (operating state, "
               f"interface flags) after every line ({pw_n} lines)", "correspondence", not pw_bad, "; ".join(pw_bad[:5]))
    trace_bad = []
    for name, sc, res in results:
        if sc.get("phase"):
            for stt in res["power_trace"]:
                ctx.count(f"net:transitional:{sc['phase']}:A-acts-while-{power_device(sc)}-is-{stt}")
            ctx.count(f"net:transitional:duration={sc['boot'] if sc['phase'] == 'boot' else sc['shut']}")
            bad = [e for e in res["errors"] if e.startswith("power-trace")]
            if bad:
                trace_bad.append(f"{name} {sc['family']}/{sc['block']}/{sc['phase']}: {bad[0]}")
    ctx.oblige("rig:R-net transitional family: in every scenario A's operations fall on EVERY tick of the window (the step of the accepted "
               "shutdown / startup / reset request and each later tick while the device is SHUTTING_DOWN / BOOTING), as the countdown "
               "theorems C06_shutdown_window / C06_boot_window / C06_reset_window say", "correspondence", not trace_bad,
               "; ".join(trace_bad[:5]))
    ctx.oblige("rig:R-net the proved cut certificate accepts the real post-block network", "correspondence", not cert_bad,
               "; ".join(cert_bad[:5]))
    ctx.oblige("rig:R-net the proved class-aware certificate (certifyC) accepts the real post-block network of EVERY scenario",
               "correspondence", not certc_bad, "; ".join(certc_bad[:5]))
    ctx.oblige("rig:R-net the network-level certificate (certifyN: hosts and switches modelled, no closure hypothesis) answers as "
               "expected on the real post-block network of every scenario", "correspondence", not certn_bad, "; ".join(certn_bad[:5]))
    ctx.oblige("rig:R-net the reachability certificate (certifyB: protected hosts unchanged whatever else circulates) answers as expected "
               "on the real post-block network of every rule-list scenario and rejects the same network without the block",
               "correspondence", not certb_bad, "; ".join(certb_bad[:5]))
    ctx.oblige("rig:R-net all three certificates reject the same network without the block", "correspondence", not ctl_bad,
               "; ".join(ctl_bad[:5]))
    ctx.oblige("rig:R-net where the closure is PROVED (certifyN accepts: hosts, switches, blocking router), every frame put on a wire "
               "by an attacker-side node after the block is in the scenario's frame class; elsewhere the closure hypothesis of "
               "C06_certifiedC_unchanged is measured and the scenario counted oracle-only when it fails", "correspondence",
               not closure_bad, "; ".join(closure_bad[:5]))
    ctx.oblige("rig:R-net the attacker-side models of C06Net hold on every transmitted frame (a switch sends the unchanged frame it "
               "received; a frame a host creates carries the outbound interface's own MAC and address; ARP requests are broadcasts "
               "with the emitting interface as sender, ARP replies to a router interface's MAC are for its address)", "correspondence",
               not model_bad_all, "; ".join(model_bad_all[:5]))
    for name, sc, res in results:
        ctx.cov["traces_validated_against_impl"] += 1
        ctx.case(sc, bool(res["nontrivial"]))
        ctx.count(f"net:family:{sc['family']}")
        ctx.count(f"net:block:{sc['block']}")
        ctx.count("net:control-changes-B" if res["nontrivial"] else "net:control-leaves-B-alone")
        for op in sc["pre_ops"]:
            ctx.count("net:pre:" + op)
        for op in sc["post_ops"]:
            ctx.count("net:post:" + op)
        for e in res["errors"]:
            ctx.count("net:op-raised:" + e.split(":")[1].strip())
        if not res["violations"]:
            clean += 1
            if name.startswith("gen:"):
                ctx.sample({"rig": "net", "scenario": sc, "log": res["log"][:6]}, cap=5)
            continue
        if all(any(sig_matches(f["signature"], sig_of(sc, v)) for f in open_f) for v in res["violations"]):
            # every report of this scenario is a recorded entry (open finding -> KNOWN-FINDING, observation -> counted; Ctx.finish)
            clean += 1
            ctx.count("net:scenario-shows-only-recorded-findings-or-observations")
            for v in res["violations"]:
                ctx.violation(sig_of(sc, v), f"{sc['family']}/{sc['block']}: {v.get('diff') or v.get('what')} after {sc['post_ops']}",
                              {"rig": "net", "scenario": sc, "violations": res["violations"], "log": res["log"], "from": name})
            continue
        v = next(v for v in res["violations"] if not any(sig_matches(f["signature"], sig_of(sc, v)) for f in open_f))

        def fails(ops, sc=sc, kind=v["kind"]):
            return any(w["kind"] == kind for w in run_scenario(dict(sc, post_ops=ops), control=False)["violations"])
        small = dict(sc, post_ops=shrink_ops(sc["post_ops"], fails, budget=25))
        res2 = run_scenario(small, control=False)
        if not any(w["kind"] == v["kind"] for w in res2["violations"]):
            small, res2 = sc, res
        done = set()
        for w in res2["violations"]:
            key = json.dumps(sig_of(small, w), sort_keys=True)
            if key in done:
                continue
            done.add(key)
            ctx.violation(sig_of(small, w), f"{small['family']}/{small['block']}: {w.get('diff') or w.get('what')} after {small['post_ops']}",
                          {"rig": "net", "scenario": small, "violations": res2["violations"], "log": res2["log"], "from": name})
    # control (non-vacuity of certifyB's rejection): DENY tcp + udp + icmp is NOT a block — a protocol-"none" scan from A does reach B
    ctl3 = {"family": "routed", "block": "router_deny_three_protocols", "routers": 1, "at": "R1", "rule_pos": 0, "pre_ops": [],
            "post_ops": ["port_scan_none"]}
    r3 = run_scenario(ctl3, control=False)
    b_changed = any(v["kind"] == "protected-state-changed" and v.get("node") == "B" for v in r3["violations"])
    ctx.count("net:control:three-protocol-rules-let-protocol-none-reach-B" if b_changed else "net:control:three-protocol-rules-BLOCK-protocol-none")
    ctx.oblige("rig:R-net control: with DENY tcp, DENY udp, DENY icmp a protocol-'none' scan from A changes B (the rule set is not a block: "
               "C06_three_protocols_not_a_block; certifyB rightly rejects it), while the four-protocol block is certified and holds",
               "correspondence", b_changed, "B unchanged by a protocol-none scan under the three-protocol rules")
    ctx.oblige("rig:R-net protected side unchanged on every scenario", "oracle", clean == len(scenarios),
               f"{len(scenarios) - clean} of {len(scenarios)} scenarios show a change on the protected side")
