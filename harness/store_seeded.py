#!/usr/bin/env python3
"""store_seeded.py <name> <prop> <dir-with a|b files> <a|b> '<caught-by text>' : keep a confirmed seeded change under /verif/seeded/<name>/"""
import json, shutil, sys
from pathlib import Path
V = Path(__file__).resolve().parents[1]
name, prop, src, ab, caught = sys.argv[1:6]
d = V / "seeded" / name
d.mkdir(parents=True, exist_ok=True)
shutil.copy(f"{src}/{ab}.patch.diff", d / "patch.diff")
shutil.copy(f"{src}/{ab}.demo.py", d / "demo.py")
meta = json.loads(Path(f"{src}/{ab}.meta.json").read_text())
meta.update({"breaks_property": prop, "confirmed_by_integrator": "harness/seeded_eval.py: demo exits 0 on the clean tree and non-zero with the patch in a scratch worktree; "
             "harness/baseline.py with the patch: stable_pass=526 passing_now=526; then patch applied to /repo, check run, patch undone",
             "caught_by": caught})
(d / "meta.json").write_text(json.dumps(meta, indent=1))
print("stored", d)
