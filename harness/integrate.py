#!/usr/bin/env python3
"""After merging a builder branch: fold findings/<Cxx>.json into known_findings.json and design_notes/<Cxx>.md into DESIGN.md."""
import json, sys
from pathlib import Path
V = Path(__file__).resolve().parents[1]
ids = sys.argv[1:]
kf = json.loads((V / "known_findings.json").read_text())
design = (V / "DESIGN.md").read_text()
MARK = "## Appendix A. What was prototyped before committing to this design"
for cid in ids:
    f = V / "findings" / f"{cid}.json"
    if f.exists():
        for e in json.loads(f.read_text())["findings"]:
            if not any(x["property"] == e["property"] and x["id"] == e["id"] for x in kf["findings"]):
                if e.get("status") == "fixed" and not str(e.get("what", "")).startswith("fixed:"):
                    e["what"] = f"fixed: property={e['property']} {e.get('commit', '')} {e['what']}"
                kf["findings"].append(e)
        f.unlink()
    n = V / "design_notes" / f"{cid}.md"
    if n.exists():
        body = n.read_text().strip()
        body = "\n".join((("#" * min(len(l) - len(l.lstrip("#")) + 3, 6) + l[len(l) - len(l.lstrip("#")):]) if l.startswith("#") else l)
                         for l in body.splitlines())  # demote headings below "### 9.6.x"
        k = 1
        title = f"### 9.6.{cid} Build note for {cid} (written by the builder of that check)"
        while title.split(" Build")[0].split(" Addendum")[0] + " " in design and title in design or (k > 1 and f"### 9.6.{cid}.{k} " in design):
            k += 1
            title = f"### 9.6.{cid}.{k} Addendum {k - 1} to the build note of {cid} (deepening round, written by the engineer who did it)"
        sec = f"{title}\n\n{body}\n\n"
        if True:
            design = design.replace("---------------------------------------------------------------------------\n\n" + MARK,
                                    sec + "---------------------------------------------------------------------------\n\n" + MARK)
        n.unlink()
(V / "known_findings.json").write_text(json.dumps(kf, indent=1))
(V / "DESIGN.md").write_text(design)
print("integrated", ids, "findings now", len(kf["findings"]))
