#!/venv/bin/python
"""Entry point: check.py <Cxx> [--tier quick|thorough] [--replay file]

exit 0 = property held on everything explored (KNOWN-FINDING lines allowed);
exit 1 = `VIOLATION property=<id> replay=<path>` printed; exit 2 = the machinery itself failed.
"""
import argparse
import importlib
import json
import os
import sys
import traceback
from pathlib import Path

sys.path.insert(0, str(Path(__file__).resolve().parents[1]))
os.environ.setdefault("PRIMAITE_VERIF", "1")

from harness.lib.core import REPO, Ctx  # noqa: E402

sys.path.insert(1, str(REPO / "src"))  # the implementation under test is always REPO's working tree
os.environ["PYTHONPATH"] = str(REPO / "src") + os.pathsep + os.environ.get("PYTHONPATH", "")
import warnings  # noqa: E402

warnings.filterwarnings("ignore")
import logging  # noqa: E402

logging.disable(logging.WARNING)


def main() -> int:
    ap = argparse.ArgumentParser()
    ap.add_argument("prop")
    ap.add_argument("--tier", default=os.environ.get("VERIF_TIER", "quick"), choices=["quick", "thorough"])
    ap.add_argument("--replay", default=None)
    a = ap.parse_args()
    seed = int(os.environ.get("VERIF_SEED", "1") or 1)
    mod = importlib.import_module(f"harness.props.{a.prop.lower()}")
    if a.replay:
        rec = json.loads(Path(a.replay).read_text())
        ok = mod.replay(rec)
        print(("REPLAY-PASSES (no violation now)" if ok else f"VIOLATION property={a.prop} replay={a.replay}"))
        return 0 if ok else 1
    ctx = Ctx(a.prop, a.tier, seed)
    try:
        mod.run(ctx)
        return ctx.finish()
    except Exception:
        traceback.print_exc()
        print(f"INTERNAL-ERROR property={a.prop}", file=sys.stderr)
        return 2


if __name__ == "__main__":
    sys.exit(main())
