#!/usr/bin/env python3
"""Confirm a freshly written seeded change and store it under /verif/seeded/<name>/.

    seeded_confirm.py <dir-with patch.diff demo.py meta.json> <name> [--no-baseline]

In a scratch worktree of /repo (HEAD): demo.py must exit 0 on the clean tree and non-zero with patch.diff applied, and the pinned
suite must still pass with the patch (harness/baseline.py: stable_pass=526 passing_now=526).  Only then the three files are copied
to seeded/<name>/ with the confirmation recorded in meta.json.  Nothing is applied to /repo itself.
"""
import json, os, shutil, subprocess, sys
from pathlib import Path

V = Path(__file__).resolve().parents[1]
src, name = Path(sys.argv[1]).resolve(), sys.argv[2]
wt = f"/tmp/seedconf_{os.getpid()}"


def sh(cmd, **kw):
    p = subprocess.run(cmd, shell=True, stdout=subprocess.PIPE, stderr=subprocess.STDOUT, text=True, **kw)
    return p.returncode, p.stdout


sh(f"git -C /repo worktree add -q --detach {wt} HEAD")
res = {}
try:
    env = dict(os.environ, PYTHONPATH=f"{wt}/src", PRIMAITE_REPO=wt)
    env.pop("PRIMAITE_VERIF", None)
    rc0, o0 = sh(f"cd {wt} && timeout 600 /venv/bin/python {src / 'demo.py'}", env=env)
    rca, oa = sh(f"git -C {wt} apply {src / 'patch.diff'}")
    if rca:
        print(json.dumps({"name": name, "ok": False, "why": "patch does not apply", "detail": oa[-300:]}))
        sys.exit(2)
    rc1, o1 = sh(f"cd {wt} && timeout 600 /venv/bin/python {src / 'demo.py'}", env=env)
    base = "skipped"
    if "--no-baseline" not in sys.argv:
        rcb, ob = sh(f"python3 {V}/harness/baseline.py", env=env)
        base = (ob.strip().splitlines() or ["?"])[0]
    files = sh(f"git -C {wt} diff --name-only")[1].split()
    res = {"name": name, "demo_clean_rc": rc0, "demo_changed_rc": rc1, "baseline": base, "files": files,
           "demo_changed_tail": o1.strip().splitlines()[-3:]}
    ok = rc0 == 0 and rc1 != 0 and (base == "skipped" or base == "stable_pass=526 passing_now=526")
    res["ok"] = ok
finally:
    sh(f"git -C /repo worktree remove --force {wt}")
if res.get("ok"):
    d = V / "seeded" / name
    d.mkdir(parents=True, exist_ok=True)
    shutil.copy(src / "patch.diff", d / "patch.diff")
    shutil.copy(src / "demo.py", d / "demo.py")
    meta = json.loads((src / "meta.json").read_text())
    meta.update({"breaks_property": meta.get("property", name.split("-")[0]),
                 "confirmed_by_integrator": f"harness/seeded_confirm.py in a scratch worktree of /repo HEAD: demo exits {res['demo_clean_rc']} on the clean tree and "
                                            f"{res['demo_changed_rc']} with the patch; harness/baseline.py with the patch: {res['baseline']}",
                 "caught_by": "not evaluated yet"})
    (d / "meta.json").write_text(json.dumps(meta, indent=1))
print(json.dumps(res))
sys.exit(0 if res.get("ok") else 1)
