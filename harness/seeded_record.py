#!/usr/bin/env python3
"""Record the results of harness/seeded_matrix.py runs in seeded/<name>/meta.json.

    seeded_record.py "<tree label>" <matrix.json> [<matrix.json> ...]

The previous `evaluated` / `caught_by` pair of a change is pushed onto its `history` list (so the blind result of a change is never
lost when a later, strengthened check is measured against it); the new pair is what the DESIGN table shows.
"""
import json, sys
from pathlib import Path

V = Path(__file__).resolve().parents[1]
label, files = sys.argv[1], sys.argv[2:]
n = 0
for f in files:
    for name, r in json.loads(Path(f).read_text()).items():
        mp = V / "seeded" / name / "meta.json"
        if not mp.exists():
            continue
        m = json.loads(mp.read_text())
        if "evaluated" in m and m["evaluated"].get("tree") != label:
            m.setdefault("history", []).append({"evaluated": m["evaluated"], "caught_by": m.get("caught_by", "")})
        st = r["status"]
        m["evaluated"] = {"status": st, "wall_s": r.get("wall_s"), "tier": "quick", "seed": 1, "tree": label}
        first = next((l for l in r.get("lines", []) if l.startswith(("VIOLATION", "  broken", "  violation"))), "")
        how = {"caught-concrete": "VIOLATION with a concrete replay", "caught-no-input": "obligation broke, no failing input found",
               "MISSED": "NOT caught (check exits 0)", "patch-does-not-apply": "patch no longer applies to /repo main"}.get(st, st)
        m["caught_by"] = f"{r['prop']} quick (seed 1, {label}): {how}" + (f": {first[:300]}" if first and st != "MISSED" else "")
        mp.write_text(json.dumps(m, indent=1))
        n += 1
print("recorded", n)
