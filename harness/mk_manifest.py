#!/usr/bin/env python3
"""Regenerate /verif/MANIFEST.json from the table below (keeps the file valid at all times)."""
import json
from pathlib import Path

VERIF = Path(__file__).resolve().parents[1]
PY = "/venv/bin/python"

NOTE = ("Trusted: Lean 4.33.0 kernel (thorough tier also leanchecker); axioms propext, Classical.choice, Quot.sound only "
        "(audited with #print axioms on every run; no native_decide/bv_decide/sorry/own axioms); the extractors that regenerate "
        "lean/PrimaiteModel/Gen from /repo; the correspondence rig and the Lean driver's line parsing. Modelled, not verified: "
        "CPython/pydantic semantics, ipaddress, gymnasium, numpy/random, floats, logging/IO. ")

def load_checks():
    """Each harness/props/cXX.py carries a literal `MANIFEST = {...}` (text, note, technique, design_ref); read without importing."""
    import ast
    out = {}
    for f in sorted((VERIF / "harness" / "props").glob("c[0-9][0-9].py")):
        tree = ast.parse(f.read_text())
        if any(isinstance(st, ast.Assign) and ast.unparse(st.targets[0]) == "MANIFEST_DISABLED" for st in tree.body):
            continue  # check is being adapted; not claimed until it is green again on the current tree
        for st in tree.body:
            if isinstance(st, ast.Assign) and ast.unparse(st.targets[0]) == "MANIFEST":
                d = ast.literal_eval(st.value)
                d["note"] = NOTE + d.get("note", "")
                out[f.stem.upper()] = d
    return out


CHECKS = load_checks()
NOT_YET = {}


def main():
    props = [json.loads(l) for l in (VERIF / "properties.jsonl").read_text().splitlines() if l.strip()]
    checks, na = [], []
    for p in props:
        pid = p["id"]
        if pid in CHECKS:
            c = CHECKS[pid]
            checks.append({
                "property_id": pid,
                "quick_cmd": f"{PY} harness/check.py {pid} --tier quick",
                "thorough_cmd": f"{PY} harness/check.py {pid} --tier thorough",
                "evidence_file": f"evidence/{pid}.json",
                "replay_cmd_template": f"{PY} harness/check.py {pid} --replay {{path}}",
                "engine": "lean4-proof",
                "level_claimed": {"category": "proof", "text": c["text"], "design_ref": c["design_ref"]},
                "level_note": c["note"],
                "technique": c["technique"],
            })
        else:
            na.append({"property_id": pid, "reason": NOT_YET.get(pid, "check not built yet (work in progress; see DESIGN.md section 5 for the planned theorems)")})
    m = {
        "version": 1,
        "setup_cmd": f"{PY} harness/setup.py",
        "hooks": {"guard": "PRIMAITE_VERIF", "enable": "no source hooks: instrumentation is applied in-process by the rigs (wrappers installed by harness/rigs); PRIMAITE_VERIF=1 is exported by harness/check.py for future guarded hooks",
                  "baseline_off_cmd": "cd /repo && env -u PRIMAITE_VERIF /venv/bin/python -m pytest -ra -q -p no:cacheprovider --timeout=900 --continue-on-collection-errors",
                  "source_commits": [], "add_only": True},
        "engines": [{"name": "lean4-proof", "path": "lean/", "serves_properties": sorted(CHECKS),
                     "kind_free_text": "Lean 4 models (lean/PrimaiteModel/Model), property theorems (Props), tables regenerated from /repo (Gen), compiled line-protocol drivers (Drivers); Python harness (harness/) runs extractors, lake build, axiom audit, differential rigs, search"}],
        "checks": checks,
        "not_applicable": na,
        "notes": "All checks: harness/check.py <id>. known_findings.json lists recorded and fixed defects. DESIGN.md explains the approach.",
    }
    (VERIF / "MANIFEST.json").write_text(json.dumps(m, indent=1) + "\n")
    print(f"{len(checks)} checks, {len(na)} not yet claimed")


if __name__ == "__main__":
    main()
