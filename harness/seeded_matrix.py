#!/usr/bin/env python3
"""Re-evaluate every stored seeded change against the checks as they are NOW.

Runs entirely in scratch copies so that /repo and /verif's build directory stay untouched and other work can go on:

    seeded_matrix.py [--tier quick] [--only C03-a,C04-b] [--out seeded/_matrix.json]

For each /verif/seeded/<name>/: a scratch worktree of /repo (HEAD) gets the patch (`git apply`, then `git apply -3`), the check of
the property the change breaks runs with PRIMAITE_REPO pointing at the worktree, and the exit code plus verdict lines are recorded.
A change counts as CAUGHT when the check exits 1 with a VIOLATION line. The worktree is reset between changes and removed at the
end.  This file lives in the verif tree it is run from (VERIF = parents[1]); run it from a scratch worktree of /verif that has been
set up (`harness/setup.py`) if the main build directory is in use.
"""
import json, os, subprocess, sys, time
from pathlib import Path

V = Path(__file__).resolve().parents[1]
args = sys.argv[1:]
tier = args[args.index("--tier") + 1] if "--tier" in args else "quick"
only = set(args[args.index("--only") + 1].split(",")) if "--only" in args else None
out = Path(args[args.index("--out") + 1]) if "--out" in args else V / "seeded" / "_matrix.json"
WT = f"/tmp/seedmx_{os.getpid()}"


def sh(cmd, **kw):
    p = subprocess.run(cmd, shell=True, stdout=subprocess.PIPE, stderr=subprocess.STDOUT, text=True, **kw)
    return p.returncode, p.stdout


sh(f"git -C /repo worktree add -q --detach {WT} HEAD")
res = json.loads(out.read_text()) if out.exists() and only else {}
try:
    for d in sorted((V / "seeded").iterdir()):
        if not d.is_dir() or (only and d.name not in only):
            continue
        meta = json.loads((d / "meta.json").read_text())
        prop = meta.get("breaks_property") or meta["property"]
        sh(f"git -C {WT} checkout -q -- . && git -C {WT} clean -fdq")
        rc, o = sh(f"git -C {WT} apply {d / 'patch.diff'}")
        how = "apply"
        if rc:
            rc, o = sh(f"git -C {WT} apply -3 {d / 'patch.diff'}")
            how = "apply -3"
            conflict = rc != 0 or "with conflicts" in o or "<<<<<<<" in sh(f"git -C {WT} diff")[1]
            if conflict:
                res[d.name] = {"prop": prop, "status": "patch-does-not-apply", "detail": o[-300:]}
                print(d.name, "PATCH DOES NOT APPLY", flush=True)
                sh(f"git -C {WT} reset -q --hard HEAD")
                continue
            sh(f"git -C {WT} reset -q")  # keep the working-tree change, drop the index state of apply -3
        t = time.time()
        env = dict(os.environ, PRIMAITE_REPO=WT, VERIF_SEED=os.environ.get("VERIF_SEED", "1"))
        rc, o = sh(f"/venv/bin/python harness/check.py {prop} --tier {tier}", cwd=V, env=env)
        lines = [l for l in o.splitlines() if l.startswith(("OK ", "VIOLATION", "KNOWN-FINDING", "  broken", "  violation", "INTERNAL"))]
        concrete = any(l.startswith("VIOLATION") and "no-failing-input-found" not in l for l in lines)
        status = ("caught-concrete" if rc == 1 and concrete else "caught-no-input" if rc == 1 else "MISSED" if rc == 0 else f"error-rc{rc}")
        res[d.name] = {"prop": prop, "status": status, "rc": rc, "how": how, "wall_s": round(time.time() - t),
                       "lines": [l[:400] for l in lines[:8]]}
        print(d.name, prop, status, f"{time.time() - t:.0f}s", flush=True)
        out.write_text(json.dumps(res, indent=1))
finally:
    sh(f"git -C /repo worktree remove --force {WT}")
    # leave the scratch verif tree's Gen files as the LAST patched tree made them; the next check regenerates them anyway
out.write_text(json.dumps(res, indent=1))
bad = [k for k, v in res.items() if not v["status"].startswith("caught")]
print("not caught:", bad)
