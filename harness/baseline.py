#!/usr/bin/env python3
"""Run the repository's pinned test command (guard off) and report every stable-pass test that does not pass."""
import json, os, subprocess, sys, tempfile, xml.etree.ElementTree as ET
b = json.load(open("/root/.vp/BASELINE.json"))
out = tempfile.mktemp(suffix=".xml", dir=os.environ.get("TMPDIR", "/tmp"))
env = {k: v for k, v in os.environ.items() if k != "PRIMAITE_VERIF"}
repo = os.environ.get("PRIMAITE_REPO", "/repo")
env["PYTHONPATH"] = repo + "/src"
cmd = b["cmd"].replace("<file>", out).replace("cd /repo", "cd " + repo)
subprocess.run(cmd, shell=True, env=env, stdout=subprocess.DEVNULL, stderr=subprocess.DEVNULL)
passed = set()
for tc in ET.parse(out).getroot().iter("testcase"):
    if not any(c.tag in ("failure", "error", "skipped") for c in tc):
        passed.add(f"{tc.get('classname')}::{tc.get('name')}")
os.unlink(out)
missing = [t for t in b["stable_pass"] if t not in passed]
print(f"stable_pass={len(b['stable_pass'])} passing_now={len(b['stable_pass']) - len(missing)}")
for t in missing:
    print("NOT PASSING:", t)
sys.exit(1 if missing else 0)
