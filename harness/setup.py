#!/venv/bin/python
"""MANIFEST.setup_cmd: regenerate every Gen table from /repo and build the whole Lean library and the drivers."""
import importlib
import pkgutil
import sys
from pathlib import Path

sys.path.insert(0, str(Path(__file__).resolve().parents[1]))
from harness.lib.core import GEN, LEAN, Ctx, all_driver_exes, lean_lock, sh, sync_lake_files  # noqa: E402
import harness.extract as ex  # noqa: E402


def regenerate_all(ctx: Ctx):
    for m in pkgutil.iter_modules(ex.__path__):
        mod = importlib.import_module(f"harness.extract.{m.name}")
        if hasattr(mod, "emit") and hasattr(mod, "GEN_NAME"):
            ctx.extract(mod.GEN_NAME, mod.emit)
        for gen_name, fn_name in getattr(mod, "EXTRA_GEN", {}).items():  # further Gen files produced by the same module
            ctx.extract(gen_name, getattr(mod, fn_name))


def main() -> int:
    ctx = Ctx("setup", "quick", 0)
    with lean_lock():
        regenerate_all(ctx)
        sync_lake_files()
        rc, out = sh(["lake", "build", "PrimaiteModel", *all_driver_exes()], cwd=LEAN, timeout=3000)
    print(out[-3000:])
    bad = [o for o in ctx.obligations if not o["ok"]]
    for o in bad:
        print("extractor failed:", o)
    return 0 if rc == 0 and not bad else 1


if __name__ == "__main__":
    sys.exit(main())
