#!/usr/bin/env python3
"""Evaluate one seeded change: confirm (scratch worktree) that its demo fails with it and passes without, that the pinned
suite still passes with it; then apply it to /repo, run the named checks, and undo it straight afterwards.

usage: seeded_eval.py <patch.diff> <demo.py> <prop>[,<prop>...] [--tier quick|thorough] [--skip-confirm]
"""
import json, os, subprocess, sys, shutil, time
from pathlib import Path
V = Path(__file__).resolve().parents[1]
patch, demo, props = Path(sys.argv[1]).resolve(), Path(sys.argv[2]).resolve(), sys.argv[3].split(",")
tier = sys.argv[sys.argv.index("--tier") + 1] if "--tier" in sys.argv else "quick"
res = {"patch": str(patch), "props": props, "tier": tier}
def sh(cmd, **kw):
    p = subprocess.run(cmd, shell=True, stdout=subprocess.PIPE, stderr=subprocess.STDOUT, text=True, **kw)
    return p.returncode, p.stdout
if "--skip-confirm" not in sys.argv:
    wt = f"/tmp/seedeval_{os.getpid()}"
    sh(f"git -C /repo worktree add -q --detach {wt} HEAD")
    try:
        env = dict(os.environ, PYTHONPATH=f"{wt}/src", PRIMAITE_REPO=wt)
        rc0, _ = sh(f"cd {wt} && /venv/bin/python {demo}", env=env)
        rca, out = sh(f"git -C {wt} apply {patch}")
        if rca:
            print("PATCH DOES NOT APPLY", out); sys.exit(2)
        rc1, o1 = sh(f"cd {wt} && /venv/bin/python {demo}", env=env)
        rcb, ob = sh(f"python3 {V}/harness/baseline.py", env=env)
        res.update(demo_clean_rc=rc0, demo_changed_rc=rc1, baseline=ob.strip().splitlines()[:3], demo_changed_tail=o1.strip().splitlines()[-3:])
    finally:
        sh(f"git -C /repo worktree remove --force {wt}")
st, _ = sh("git -C /repo status --porcelain")
assert _.strip() == "", "/repo working tree is not clean"
rca, out = sh(f"git -C /repo apply {patch}")
assert rca == 0, out
try:
    res["checks"] = {}
    for p in props:
        t = time.time()
        rc, out = sh(f"/venv/bin/python harness/check.py {p} --tier {tier}", cwd=V)
        lines = [l for l in out.splitlines() if l.startswith(("OK ", "VIOLATION", "KNOWN-FINDING", "  broken", "  violation", "INTERNAL"))]
        res["checks"][p] = {"rc": rc, "wall_s": round(time.time() - t), "lines": lines[:8]}
finally:
    sh("git -C /repo checkout -- .")
    st, o = sh("git -C /repo status --porcelain")
    res["repo_clean_after"] = o.strip() == ""
print(json.dumps(res, indent=1))
