#!/usr/bin/env python3
"""known_findings.json: point every `fixed` entry at the commit on /repo main (builders record the hash on their fix branch; the
integrator cherry-picks, which changes the hash). Matching is by commit subject."""
import json, re, subprocess
from pathlib import Path
V = Path(__file__).resolve().parents[1]
p = V / "known_findings.json"
k = json.loads(p.read_text())
def git(*a):
    return subprocess.run(["git", "-C", "/repo", *a], capture_output=True, text=True)
main = [l.split(" ", 1) for l in git("log", "--format=%h %s", "main").stdout.splitlines()]
subj2h = {s: h for h, s in main}
mainh = {h for h, _ in main}
bad = 0
for f in k["findings"]:
    if f.get("status") != "fixed":
        continue
    c = str(f.get("commit", "")).strip()
    toks = re.findall(r"\b[0-9a-f]{7,40}\b", c)
    if any(t[:7] in mainh for t in toks):
        continue
    new = None
    for t in toks:
        r = git("log", "-1", "--format=%s", t)
        if r.returncode == 0 and r.stdout.strip() in subj2h:
            new = subj2h[r.stdout.strip()]
            break
    if new is None:
        m = re.search(r"fix: .*", c)
        if m:
            cand = [h for h, s in main if s.startswith(m.group(0)[:60])]
            new = cand[0] if cand else None
    if new is None:
        print("UNMAPPED", f["property"], f["id"], c[:80]); bad += 1
        continue
    old = toks[0] if toks else c
    f["commit"] = new
    w = f.get("what", "")
    if w.startswith("fixed:"):
        f["what"] = re.sub(r"^(fixed: property=\S+ )(?:[0-9a-f]{7,40}\b[ ,]*)*", r"\g<1>" + new + " ", w)
    else:
        f["what"] = f"fixed: property={f['property']} {new} {w}"
    print("mapped", f["property"], f["id"], old[:10], "->", new)
p.write_text(json.dumps(k, indent=1) + "\n")
print("unmapped:", bad)
