"""Seeded generator of well-formed PrimAITE scenario families (config dicts that load with PrimaiteGame.from_config).

Public API (nothing here imports primaite; every random choice comes from the `rng` argument, a harness.lib.core.Rng):

    gen_scenario(rng, size=1, family=None, shadowing=False, node_sets=True, off_nodes=True, agents=True) -> dict
        a scenario config dict (io_settings quiet, game, agents, simulation.network.{nodes,links,node_sets}).
        family in FAMILIES: "lan" (switched LAN), "routed" (1-3 routers in a chain, one LAN each),
        "dmz" (firewall with internal LAN, DMZ and an external router + LAN).  size 1..3 scales host counts / tables.
        shadowing=True allows configured software whose type is also pre-installed system software (web-browser, dns-client,
        ntp-client, ...): that is what most shipped scenarios do, and it triggers finding F-22 (second instance).
    gen_software_matrix(rng, size=1, agents=True) -> dict
        one switched LAN (optionally behind a router / beside a firewall) whose hosts carry random subsets of EVERY configurable
        service / application type (SOFTWARE_VOCABULARY) with non-default values for their documented options, the common options
        (fixing_duration, listen_on_ports, starting_health_state), and a declared operating_state drawn from absent / ON / OFF /
        BOOTING / SHUTTING_DOWN for hosts, switches, routers and firewalls alike (at least one host OFF, one ON).
    permute_mappings(cfg, rng) -> dict      same scenario, the key order of EVERY mapping shuffled (lists untouched)
    reserialise(cfg, rng) -> dict           same scenario through a YAML dump in another style (flow/block, widths, sorted keys) and reload
    enrich(cfg, rng, stepped=True) -> dict
        the same scenario with the sections added to the C20 model in round 4, each with some probability: a `defaults:` section
        (random subset of its eight keys), ACL addresses written with the documented keys `src_ip_address` / `dst_ip_address`
        (sometimes BOTH spellings, the shipped one has to win), a wireless router (router interface, access point on either
        frequency, ACL, routes, default route, any operating state) with `airspace.frequency_max_capacity_mbps`, an
        `office-lan` node set linked to a switch of the scenario, `game` options (seed, episode length); and when the scenario
        is not going to be stepped (`stepped=False`) links of bandwidth 0 and 10**9.
    format_variants(cfg, rng, which=None) -> [(name, dict)]
        formatting-only re-writings of the same file, each produced as YAML TEXT and parsed back with yaml.safe_load (what
        PrimAITE itself uses): "aliases" (equal sub-mappings written once with an anchor and referred to by alias: the parsed
        document SHARES those objects), "merge-keys" (`<<: *common` for the keys hosts have in common), "comments" (full-line
        comments sprinkled over a block-style dump), "quoted-ints" (integers the loaders coerce - ACL positions, action-map
        keys, num_ports, durations, bandwidths, route metrics, NIC keys - written as quoted strings).
    summary(cfg) -> dict                    counts (nodes by type, links, acl rules, routes, software, users, files, agents)
    hosts_of(cfg) / routers_of(cfg) ...     small accessors used by callers that need vocabularies

The dict is plain data (str/int/float/bool/list/dict) and is deep-copy safe.
"""
from __future__ import annotations

import copy
from typing import Any, Dict, List, Optional

import yaml

FAMILIES = ["lan", "routed", "dmz"]

QUIET_IO = {"save_agent_actions": False, "save_step_metadata": False, "save_pcap_logs": False, "save_sys_logs": False,
            "save_agent_logs": False, "save_logs": False, "write_sys_log_to_terminal": False, "write_agent_log_to_terminal": False}

SYSTEM_SOFTWARE_HOST = ["dns-client", "ntp-client", "web-browser", "nmap", "terminal", "ftp-client"]  # pre-installed on every host
PORT_NAMES = ["HTTP", "HTTPS", "DNS", "FTP", "NTP", "POSTGRES_SERVER", "SSH", "SMTP", "ARP"]
PROTO_NAMES = ["TCP", "UDP", "ICMP"]
FILE_TYPES = ["TXT", "DOC", "PDF", "PNG", "JPEG", "DB", "ZIP", "UNKNOWN"]


# ------------------------------------------------------------------------------------------------ small helpers
def _ip(a, b, c, d) -> str:
    return f"{a}.{b}.{c}.{d}"


class _Lan:
    """One /24 LAN: a switch, a gateway address, hosts."""

    def __init__(self, idx: int, prefix: str):
        self.idx = idx
        self.prefix = prefix  # e.g. "192.168.11"
        self.switch = f"switch_{idx}"
        self.gateway: Optional[str] = None
        self.hosts: List[dict] = []
        self.next_port = 1
        self.next_host = 10

    def addr(self) -> str:
        a = f"{self.prefix}.{self.next_host}"
        self.next_host += 1
        return a


def _user_list(rng, n: int) -> List[dict]:
    names = ["alice", "bob", "carol", "dave", "erin", "frank"]
    out = []
    for name in rng.shuffle(names)[:n]:
        u = {"username": name, "password": f"pw_{name}_{rng.below(100)}"}
        if rng.chance(2, 3):
            u["is_admin"] = rng.chance(1, 3)
        out.append(u)
    return out


def _folders(rng, n: int) -> List[dict]:
    out = []
    fnames = rng.shuffle(["downloads", "docs", "reports", "media", "tmp", "work"])[:n]
    for fn in fnames:
        folder: Dict[str, Any] = {"folder_name": fn}
        k = rng.below(4)
        if k or rng.chance(1, 2):
            files = []
            for j in range(k):
                # the loader derives the type from a recognised extension (File.__init__), so a declared type agrees with it
                ext = rng.choice(["txt", "pdf", "png", "db", "zip", "doc"])
                f: Dict[str, Any] = {"file_name": f"{fn}_{j}.{ext}"}
                if rng.chance(1, 2):
                    f["size"] = rng.choice([1, 69, 1024, 40000])
                if rng.chance(1, 2):
                    f["type"] = ext.upper()
                files.append(f)
            folder["files"] = files
        out.append(folder)
    return out


def _acl_rule(rng, ips: List[str]) -> dict:
    r: Dict[str, Any] = {"action": rng.choice(["PERMIT", "DENY", "PERMIT"])}
    kind = rng.below(5)
    if kind in (0, 1):
        p = rng.choice(PORT_NAMES)
        r["src_port"] = p
        r["dst_port"] = p
    elif kind == 2:
        r["protocol"] = rng.choice(PROTO_NAMES)
    elif kind == 3:
        r["dst_port"] = rng.choice(PORT_NAMES)
        r["protocol"] = rng.choice(["TCP", "UDP"])
    if rng.chance(1, 3) and ips:
        r["src_ip"] = rng.choice(ips)
        if rng.chance(1, 2):
            r["src_wildcard_mask"] = rng.choice(["0.0.0.0", "0.0.0.255", "0.0.0.3"])
    if rng.chance(1, 3) and ips:
        r["dst_ip"] = rng.choice(ips)
        if rng.chance(1, 2):
            r["dst_wildcard_mask"] = rng.choice(["0.0.0.0", "0.0.0.255", "0.0.255.255"])
    return r


def _acl(rng, ips: List[str], n: int, base: bool = True) -> Dict[int, dict]:
    """position -> rule; positions distinct in 0..23; insertion order is random (so it is NOT sorted by position)."""
    acl: Dict[int, dict] = {}
    pos = rng.shuffle(list(range(0, 22)))[:n]
    for p in pos:
        acl[p] = _acl_rule(rng, ips)
    if base:
        for p, r in ((22, {"action": "PERMIT", "src_port": "ARP", "dst_port": "ARP"}), (23, {"action": "PERMIT", "protocol": "ICMP"})):
            if rng.chance(3, 4):
                acl[p] = r
    if rng.chance(1, 4):  # wide-open rule somewhere, as in the example networks
        acl[rng.choice([18, 19, 20, 21])] = {"action": "PERMIT"}
    return acl


# ------------------------------------------------------------------------------------------------ software
def _host_software(rng, host: dict, role: str, env: dict, shadowing: bool):
    """Attach services / applications with options to a host according to its role."""
    services: List[dict] = []
    apps: List[dict] = []

    def svc(t, opts=None):
        e: Dict[str, Any] = {"type": t}
        if opts is not None:
            e["options"] = opts
        services.append(e)

    def app(t, opts=None):
        e: Dict[str, Any] = {"type": t}
        if opts is not None:
            e["options"] = opts
        apps.append(e)

    if role == "dns":
        svc("dns-server", {"domain_mapping": {env["domain"]: env["web_ip"]}})
    elif role == "web":
        svc("web-server")
        app("database-client", {"db_server_ip": env["db_ip"]})
    elif role == "db":
        o: Dict[str, Any] = {}
        if env.get("backup_ip"):
            # always: a database service without backup_server_ip makes `node-service-fix` raise inside step (restore_backup
            # sends to address None) - a C01 matter, kept out of the families generated here
            o["backup_server_ip"] = env["backup_ip"]
        if rng.chance(1, 3):
            o["fixing_duration"] = rng.range(1, 6)
        svc("database-service", o if o or rng.chance(1, 2) else None)
        if shadowing and rng.chance(1, 2):
            svc("ftp-client")
    elif role == "backup":
        svc("ftp-server", {"server_password": "ftp_pw"} if rng.chance(1, 3) else None)
    elif role == "ntp":
        svc("ntp-server")
    elif role == "client":
        if rng.chance(2, 3):
            app("database-client", {"db_server_ip": env["db_ip"]})
        if rng.chance(1, 2):
            o = {"server_ip": env["db_ip"]}
            if rng.chance(1, 2):
                o["payload"] = rng.choice(["DELETE", "DROP TABLE users"])
            if rng.chance(1, 2):
                o["port_scan_p_of_success"] = rng.choice([0.5, 0.8, 1.0])
                o["data_manipulation_p_of_success"] = rng.choice([0.5, 0.8, 1.0])
            app("data-manipulation-bot", o)
        if rng.chance(1, 4):
            app("dos-bot", {"target_ip_address": env["db_ip"], "target_port": 5432, "dos_intensity": rng.choice([0.5, 1.0]),
                            "max_sessions": rng.choice([10, 1000])})
        if rng.chance(1, 4):
            app("ransomware-script", {"server_ip": env["db_ip"]})
        if rng.chance(1, 5):
            app("c2-beacon", {"c2_server_ip_address": env["web_ip"], "keep_alive_frequency": rng.range(2, 8)})
        if shadowing:
            if rng.chance(1, 4):
                svc("ftp-client")
            if rng.chance(2, 3):
                app("web-browser", {"target_url": f"http://{env['domain']}/"})
            if rng.chance(1, 3):
                svc("dns-client", {"dns_server": env["dns_ip"]} if rng.chance(1, 2) else None)
            if rng.chance(1, 4) and env.get("ntp_ip"):
                svc("ntp-client", {"ntp_server_ip": env["ntp_ip"]})
    # listen_on_ports on one configured piece of software, sometimes
    for e in services + apps:
        if rng.chance(1, 6):
            e.setdefault("options", {})["listen_on_ports"] = rng.shuffle([80, 443, 53, 21, 8080])[: rng.range(1, 2)]
    if services:
        host["services"] = services
    if apps:
        host["applications"] = apps


def _host(rng, lan: _Lan, name: str, kind: str, role: str, env: dict, shadowing: bool, off_nodes: bool) -> dict:
    h: Dict[str, Any] = {"hostname": name, "type": kind, "ip_address": lan.addr(), "subnet_mask": "255.255.255.0"}
    if rng.chance(1, 6):
        del h["subnet_mask"]  # default documented as 255.255.255.0
    if lan.gateway:
        h["default_gateway"] = lan.gateway
    if env.get("dns_ip") and rng.chance(3, 4):
        h["dns_server"] = env["dns_ip"]
    if rng.chance(1, 3):
        h["start_up_duration"] = rng.choice([0, 1, 2, 5])
    if rng.chance(1, 3):
        h["shut_down_duration"] = rng.choice([0, 1, 2, 5])
    if off_nodes and role == "client" and rng.chance(1, 8):
        h["operating_state"] = rng.choice(["OFF", "ON"])
    elif rng.chance(1, 8):
        h["operating_state"] = "ON"
    if rng.chance(1, 3):
        h["users"] = _user_list(rng, rng.range(1, 3))
    if rng.chance(1, 3):
        h["folders"] = _folders(rng, rng.range(1, 3))
    _host_software(rng, h, role, env, shadowing)
    lan.hosts.append(h)
    return h


# ------------------------------------------------------------------------------------------------ topologies
def _build_network(rng, family: str, size: int, shadowing: bool, off_nodes: bool, node_sets: bool) -> dict:
    nodes: List[dict] = []
    links: List[dict] = []
    n_lans = {"lan": 1, "routed": rng.range(1, 3), "dmz": 3}[family]
    lans = [_Lan(i + 1, f"192.168.{10 + i}") for i in range(n_lans)]
    # addresses of the well-known servers live in LAN 1 (for "dmz": LAN 1 = internal, LAN 2 = dmz, LAN 3 = external)
    server_lan = lans[0]
    env = {"domain": rng.choice(["arcd.com", "intranet.local", "shop.example"])}
    if family != "lan":
        for lan in lans:
            lan.gateway = f"{lan.prefix}.1"
    roles = ["dns", "web", "db", "backup"] + (["ntp"] if rng.chance(1, 2) else [])
    roles = roles[: max(4, min(len(roles), 2 + size + rng.below(2)))]  # db always comes with its backup server
    web_lan = lans[1] if family == "dmz" else server_lan
    # pre-assign server addresses so that options can reference them
    plan = []
    for r in roles:
        lan = web_lan if r == "web" else server_lan
        plan.append((r, lan, lan.addr()))
    for r, lan, a in plan:
        env[f"{r}_ip"] = a
    env.setdefault("db_ip", env.get("web_ip", f"{server_lan.prefix}.99"))
    env.setdefault("web_ip", env["db_ip"])
    env.setdefault("dns_ip", None)
    for r, lan, a in plan:
        save = lan.next_host
        lan.next_host = int(a.rsplit(".", 1)[1])
        _host(rng, lan, {"dns": "domain_controller", "web": "web_server", "db": "database_server", "backup": "backup_server",
                         "ntp": "ntp_server"}[r], "server", r, env, shadowing, off_nodes)
        lan.next_host = save
    n_clients = rng.range(1, 1 + 2 * size)
    client_lans = [lans[-1]] if family != "lan" else [lans[0]]
    if family == "routed" and len(lans) > 1 and rng.chance(1, 2):
        client_lans = lans[1:]
    for i in range(n_clients):
        lan = rng.choice(client_lans)
        _host(rng, lan, f"client_{i + 1}", "computer", "client", env, shadowing, off_nodes)
    # an extra NIC on one server (network_interfaces mapping), wired to another LAN's switch when there is one
    multi = None
    if len(lans) > 1 and family == "routed" and rng.chance(1, 2):
        multi = server_lan.hosts[-1]
        other = lans[1]
        multi["network_interfaces"] = {2: {"ip_address": other.addr(), "subnet_mask": "255.255.255.0"}}
        if rng.chance(1, 2):  # a third one, left unconnected; declared in non-sorted key order
            multi["network_interfaces"] = {3: {"ip_address": f"172.16.{rng.range(1, 9)}.5", "subnet_mask": "255.255.0.0"},
                                           2: multi["network_interfaces"][2]}
    # switches
    all_ips = [h["ip_address"] for lan in lans for h in lan.hosts]
    for lan in lans:
        need = len(lan.hosts) + 2
        sw: Dict[str, Any] = {"hostname": lan.switch, "type": "switch"}
        np_ = rng.choice([8, 8, 12, 24]) if need <= 8 else max(need, rng.choice([12, 24]))
        if np_ != 8 or rng.chance(1, 2):
            sw["num_ports"] = np_
        lan.num_ports = np_
        if rng.chance(1, 5):
            sw["start_up_duration"] = rng.choice([0, 2])
        nodes.append(sw)
    for lan in lans:
        for h in lan.hosts:
            links.append({"endpoint_a_hostname": lan.switch, "endpoint_a_port": lan.next_port,
                          "endpoint_b_hostname": h["hostname"], "endpoint_b_port": 1})
            lan.next_port += 1
    if multi is not None:
        other = lans[1]
        links.append({"endpoint_a_hostname": multi["hostname"], "endpoint_a_port": 2,
                      "endpoint_b_hostname": other.switch, "endpoint_b_port": other.next_port})
        other.next_port += 1
    # routers / firewall
    if family == "routed":
        n_r = len(lans)
        routers = []
        for i, lan in enumerate(lans):
            r: Dict[str, Any] = {"hostname": f"router_{i + 1}", "type": "router"}
            nports = rng.choice([3, 5, 5, 6])
            if nports != 5 or rng.chance(1, 2):
                r["num_ports"] = nports
            ports = {1: {"ip_address": lan.gateway, "subnet_mask": "255.255.255.0"}}
            if i > 0:
                ports[2] = {"ip_address": _ip(10, 0, i, 2), "subnet_mask": "255.255.255.252"}
            if i < n_r - 1:
                ports[3] = {"ip_address": _ip(10, 0, i + 1, 1), "subnet_mask": "255.255.255.252"}
            if rng.chance(1, 5):
                del ports[1]["subnet_mask"]
            r["ports"] = {k: ports[k] for k in rng.shuffle(list(ports))}
            r["acl"] = _acl(rng, all_ips, rng.range(0, 2 + 2 * size))
            if not r["acl"] and rng.chance(1, 2):
                del r["acl"]
            routes = []
            for j, other in enumerate(lans):
                if j == i:
                    continue
                nh = _ip(10, 0, i, 1) if j < i else _ip(10, 0, i + 1, 2)
                rt: Dict[str, Any] = {"address": f"{other.prefix}.0", "subnet_mask": "255.255.255.0", "next_hop_ip_address": nh}
                if rng.chance(1, 2):
                    rt["metric"] = rng.choice([0, 1, 5])
                if rng.chance(1, 6):
                    del rt["subnet_mask"]
                routes.append(rt)
            if routes and rng.chance(1, 3) and n_r > 1:
                r["default_route"] = {"next_hop_ip_address": routes[0]["next_hop_ip_address"]}
                routes = routes[1:]
            if routes:
                r["routes"] = routes
            if rng.chance(1, 6):
                r["start_up_duration"] = rng.choice([0, 4])
            if rng.chance(1, 5):
                r["users"] = _user_list(rng, 1)
            routers.append(r)
            nodes.append(r)
            links.append({"endpoint_a_hostname": r["hostname"], "endpoint_a_port": 1, "endpoint_b_hostname": lan.switch,
                          "endpoint_b_port": lan.num_ports})
        for i in range(n_r - 1):
            links.append({"endpoint_a_hostname": f"router_{i + 1}", "endpoint_a_port": 3, "endpoint_b_hostname": f"router_{i + 2}",
                          "endpoint_b_port": 2})
    elif family == "dmz":
        internal, dmz, external = lans
        fw: Dict[str, Any] = {"hostname": "firewall", "type": "firewall"}
        fports = {"external_port": {"ip_address": "10.0.9.1", "subnet_mask": "255.255.255.252"},
                  "internal_port": {"ip_address": internal.gateway, "subnet_mask": "255.255.255.0"},
                  "dmz_port": {"ip_address": dmz.gateway, "subnet_mask": "255.255.255.0"}}
        fw["ports"] = {k: fports[k] for k in rng.shuffle(list(fports))}
        names = ["internal_inbound_acl", "internal_outbound_acl", "dmz_inbound_acl", "dmz_outbound_acl", "external_inbound_acl",
                 "external_outbound_acl"]
        facl = {}
        for n in rng.shuffle(names):
            if n.startswith("external") and rng.chance(1, 2):
                continue
            a = _acl(rng, all_ips, rng.range(0, 1 + size), base=True)
            if not a:
                a = {23: {"action": "PERMIT", "protocol": "ICMP"}}
            facl[n] = a
        fw["acl"] = facl
        fw["routes"] = [{"address": f"{external.prefix}.0", "subnet_mask": "255.255.255.0", "next_hop_ip_address": "10.0.9.2",
                         "metric": rng.choice([0, 1])}]
        if rng.chance(1, 2):
            fw["default_route"] = {"next_hop_ip_address": "10.0.9.2"}
        nodes.append(fw)
        er: Dict[str, Any] = {"hostname": "router_ext", "type": "router", "num_ports": rng.choice([3, 5]),
                              "ports": {2: {"ip_address": "10.0.9.2", "subnet_mask": "255.255.255.252"},
                                        1: {"ip_address": external.gateway, "subnet_mask": "255.255.255.0"}},
                              "acl": _acl(rng, all_ips, rng.range(0, 2)),
                              "routes": [{"address": f"{internal.prefix}.0", "subnet_mask": "255.255.255.0", "next_hop_ip_address": "10.0.9.1"},
                                         {"address": f"{dmz.prefix}.0", "subnet_mask": "255.255.255.0", "next_hop_ip_address": "10.0.9.1",
                                          "metric": 1}]}
        if not er["acl"]:
            del er["acl"]
        nodes.append(er)
        links.append({"endpoint_a_hostname": "firewall", "endpoint_a_port": 2, "endpoint_b_hostname": internal.switch,
                      "endpoint_b_port": internal.num_ports})
        links.append({"endpoint_a_hostname": "firewall", "endpoint_a_port": 3, "endpoint_b_hostname": dmz.switch,
                      "endpoint_b_port": dmz.num_ports})
        links.append({"endpoint_a_hostname": "firewall", "endpoint_a_port": 1, "endpoint_b_hostname": "router_ext", "endpoint_b_port": 2})
        links.append({"endpoint_a_hostname": "router_ext", "endpoint_a_port": 1, "endpoint_b_hostname": external.switch,
                      "endpoint_b_port": external.num_ports})
    elif family == "lan" and size >= 2 and rng.chance(1, 2):
        # second switch, cascaded
        nodes.append({"hostname": "switch_up", "type": "switch", "num_ports": 4})
        links.append({"endpoint_a_hostname": "switch_up", "endpoint_a_port": 1, "endpoint_b_hostname": lans[0].switch,
                      "endpoint_b_port": lans[0].num_ports})
    for lan in lans:
        nodes.extend(lan.hosts)
    for l in links:
        if rng.chance(2, 3):
            l["bandwidth"] = rng.choice([100, 100, 10, 1000, 16])
    nodes = rng.shuffle(nodes)  # node order in the file is free (links are created after all nodes)
    links = rng.shuffle(links)
    if multi is not None:
        # a host's first NIC must be wired before its other NICs: the other order makes the real loader recurse without bound in
        # HostARP (enabling NIC 2 says hello to a default gateway that no enabled NIC can reach) - see design_notes/C20.md, F-33
        mine = [i for i, l in enumerate(links) if multi["hostname"] in (l["endpoint_a_hostname"], l["endpoint_b_hostname"])]
        first = next(i for i in mine if (links[i]["endpoint_b_hostname"] == multi["hostname"] and links[i]["endpoint_b_port"] == 1))
        if first != mine[0]:
            links[mine[0]], links[first] = links[first], links[mine[0]]
    net: Dict[str, Any] = {"nodes": nodes, "links": links}
    if node_sets and rng.chance(1, 3):
        ns = {"type": "office-lan", "lan_name": rng.choice(["CORP", "HQ", "LAB"]), "subnet_base": rng.range(60, 90),
              "pcs_ip_block_start": rng.range(10, 40), "num_pcs": rng.choice([1, 2, 3, 5])}
        if rng.chance(1, 2):
            ns["bandwidth"] = rng.choice([100, 150, 10])
        if rng.chance(1, 3):
            ns["include_router"] = True
        net["node_sets"] = [ns]
    return net


# ------------------------------------------------------------------------------------------------ software matrix
POWER_STATES = [None, "ON", "OFF", "BOOTING", "SHUTTING_DOWN"]
HEALTH_VALUES = [0, 1, 2, 3, 4]  # SoftwareHealthState by value: UNUSED, GOOD, FIXING, COMPROMISED, OVERWHELMED


def _mx_ip(rng, env):
    return f"{env['prefix']}.{rng.range(2, 250)}"


def _mx_pw(rng, env):
    return rng.choice(["s3cret", "pw-1", "P@ss", "letmein"])


# type -> (services|applications, {documented option: generator of a NON-default value}); written from
# docs/source/simulation_components/system/{services,applications}/*.rst (db_password: the docs call it `password`, the schema
# `db_password`; masquerade_* of the C2 suite as the schema spells them)
SOFTWARE_VOCABULARY = {
    "dns-server": ("services", {"domain_mapping": lambda r, e: {d: _mx_ip(r, e) for d in r.shuffle(
        ["arcd.com", "intranet.corp", "wiki.corp", "shop.example"])[: r.range(1, 3)]}}),
    "dns-client": ("services", {"dns_server": _mx_ip}),
    "database-service": ("services", {"backup_server_ip": _mx_ip, "db_password": _mx_pw}),
    "ftp-server": ("services", {"server_password": _mx_pw}),
    "ftp-client": ("services", {}),
    "ntp-server": ("services", {}),
    "ntp-client": ("services", {"ntp_server_ip": _mx_ip}),
    "web-server": ("services", {}),
    "terminal": ("services", {}),
    "web-browser": ("applications", {"target_url": lambda r, e: r.choice(["http://arcd.com/", "intranet.corp", "http://wiki.corp/x"])}),
    "database-client": ("applications", {"db_server_ip": _mx_ip, "server_password": _mx_pw}),
    "data-manipulation-bot": ("applications", {"server_ip": _mx_ip, "server_password": _mx_pw,
                                               "payload": lambda r, e: r.choice(["DROP TABLE users", "SELECT 1", "INSERT"]),
                                               "port_scan_p_of_success": lambda r, e: r.choice([0.25, 0.5, 1.0]),
                                               "data_manipulation_p_of_success": lambda r, e: r.choice([0.25, 0.75, 1.0]),
                                               "repeat": lambda r, e: False}),
    "dos-bot": ("applications", {"target_ip_address": _mx_ip, "target_port": lambda r, e: r.choice([80, 21, 53]),
                                 "payload": lambda r, e: r.choice(["SPAM", "x"]), "repeat": lambda r, e: True,
                                 "port_scan_p_of_success": lambda r, e: r.choice([0.25, 0.5, 1.0]),
                                 "dos_intensity": lambda r, e: r.choice([0.25, 0.5]), "max_sessions": lambda r, e: r.choice([7, 50, 999])}),
    "ransomware-script": ("applications", {"server_ip": _mx_ip, "server_password": _mx_pw, "payload": lambda r, e: "ENCRYPT2"}),
    "c2-beacon": ("applications", {"c2_server_ip_address": _mx_ip, "keep_alive_frequency": lambda r, e: r.choice([2, 3, 9]),
                                   "masquerade_protocol": lambda r, e: "udp", "masquerade_port": lambda r, e: r.choice([53, 21])}),
    "c2-server": ("applications", {"keep_alive_frequency": lambda r, e: r.choice([2, 3, 9]), "masquerade_protocol": lambda r, e: "udp",
                                   "masquerade_port": lambda r, e: r.choice([53, 21])}),
    "nmap": ("applications", {}),
}


def _matrix_software(rng, host: dict, env: dict, must: Optional[List[str]] = None):
    names = list(SOFTWARE_VOCABULARY)
    chosen = list(must or []) + [t for t in rng.shuffle(names) if t not in (must or [])][: rng.range(2, 6)]
    services: List[dict] = []
    apps: List[dict] = []
    for t in chosen:
        sect, optgen = SOFTWARE_VOCABULARY[t]
        opts: Dict[str, Any] = {}
        for k, g in optgen.items():
            if rng.chance(3, 4) or (t == "database-service" and k == "backup_server_ip"):
                opts[k] = g(rng, env)
        if rng.chance(1, 3):
            opts["fixing_duration"] = rng.choice([1, 3, 5, 9])
        if rng.chance(1, 4):
            opts["listen_on_ports"] = rng.shuffle([80, 443, 53, 21, 8080, "SMB", "SSH"])[: rng.range(1, 3)]
        if rng.chance(1, 4):
            opts["starting_health_state"] = rng.choice(HEALTH_VALUES)
        e: Dict[str, Any] = {"type": t}
        if opts or rng.chance(1, 3):
            e["options"] = opts
        (services if sect == "services" else apps).append(e)
    if services:
        host["services"] = rng.shuffle(services)
    if apps:
        host["applications"] = rng.shuffle(apps)


def gen_software_matrix(rng, size: int = 1, agents: bool = True) -> dict:
    """See the module docstring. Every scenario loads; with agents it also steps."""
    size = max(1, min(3, int(size)))
    env = {"prefix": f"192.168.{rng.range(20, 40)}", "domain": "arcd.com"}
    gateway = f"{env['prefix']}.1"
    n_hosts = 2 + size + rng.below(2)
    states = ["OFF", rng.choice([None, "ON"])] + [rng.choice(POWER_STATES + ["OFF"]) for _ in range(n_hosts - 2)]
    states = rng.shuffle(states)
    musts = rng.shuffle(list(SOFTWARE_VOCABULARY))  # spread: every type appears on some host as scenarios accumulate
    hosts: List[dict] = []
    for i in range(n_hosts):
        h: Dict[str, Any] = {"hostname": f"host_{i + 1}", "type": rng.choice(["computer", "server", "computer", "server", "printer"]),
                             "ip_address": f"{env['prefix']}.{10 + i}", "subnet_mask": "255.255.255.0", "default_gateway": gateway}
        if states[i] is not None:
            h["operating_state"] = states[i]
        if rng.chance(1, 3):
            h["start_up_duration"] = rng.choice([0, 1, 4])
        if rng.chance(1, 3):
            h["shut_down_duration"] = rng.choice([0, 2, 5])
        if rng.chance(1, 4):
            h["users"] = _user_list(rng, rng.range(1, 2))
        if rng.chance(1, 4):
            h["folders"] = _folders(rng, rng.range(1, 2))
        _matrix_software(rng, h, env, must=musts[2 * i: 2 * i + 2])
        # options with a second source outside the entry (dns-client `dns_server` vs the node's `dns_server`): the four
        # combinations neither / only outer / only inner / both (different values), one per host in turn
        combo = (i + rng.below(4)) % 4 if i >= 4 else i % 4
        svcs = [e for e in h.get("services", []) if e["type"] != "dns-client"]
        if combo in (1, 3):
            h["dns_server"] = f"{env['prefix']}.{200 + i}"
        if combo in (2, 3):
            svcs.append({"type": "dns-client", "options": {"dns_server": f"{env['prefix']}.{220 + i}"}})
        elif rng.chance(1, 2):
            svcs.append({"type": "dns-client"} if rng.chance(1, 2) else {"type": "dns-client", "options": {}})
        if svcs:
            h["services"] = svcs
        hosts.append(h)
    nodes: List[dict] = []
    links: List[dict] = []
    sw: Dict[str, Any] = {"hostname": "switch_m", "type": "switch", "num_ports": max(8, n_hosts + 3)}
    if rng.chance(1, 4):
        sw["operating_state"] = rng.choice(["OFF", "ON"])
    nodes.append(sw)
    port = 1
    for h in hosts:
        if rng.chance(7, 8):  # now and then a host stays unwired
            links.append({"endpoint_a_hostname": "switch_m", "endpoint_a_port": port, "endpoint_b_hostname": h["hostname"],
                          "endpoint_b_port": 1})
            port += 1
    if rng.chance(2, 3):
        r: Dict[str, Any] = {"hostname": "router_m", "type": "router", "num_ports": rng.choice([2, 5]),
                             "ports": {1: {"ip_address": gateway, "subnet_mask": "255.255.255.0"}},
                             "acl": _acl(rng, [h["ip_address"] for h in hosts], rng.range(0, 3))}
        st = rng.choice(POWER_STATES)
        if st is not None:
            r["operating_state"] = st
        nodes.append(r)
        links.append({"endpoint_a_hostname": "router_m", "endpoint_a_port": 1, "endpoint_b_hostname": "switch_m", "endpoint_b_port": port})
        port += 1
    if rng.chance(1, 3):
        fw: Dict[str, Any] = {"hostname": "firewall_m", "type": "firewall",
                              "ports": {"external_port": {"ip_address": "10.0.7.1", "subnet_mask": "255.255.255.252"},
                                        "internal_port": {"ip_address": f"{env['prefix']}.254", "subnet_mask": "255.255.255.0"}}}
        st = rng.choice(POWER_STATES)
        if st is not None:
            fw["operating_state"] = st
        nodes.append(fw)
        links.append({"endpoint_a_hostname": "firewall_m", "endpoint_a_port": 2, "endpoint_b_hostname": "switch_m", "endpoint_b_port": port})
        port += 1
    nodes.extend(hosts)
    for l in links:
        if rng.chance(1, 2):
            l["bandwidth"] = rng.choice([100, 10, 1000])
    cfg: Dict[str, Any] = {
        "metadata": {"version": 3.0, "generated_family": "software-matrix", "generated_size": size},
        "io_settings": dict(QUIET_IO),
        "game": {"max_episode_length": rng.choice([16, 32]), "ports": ["HTTP", "POSTGRES_SERVER", "DNS", "FTP", "NTP"],
                 "protocols": ["ICMP", "TCP", "UDP"], "thresholds": {"nmne": {"high": 10, "medium": 5, "low": 0}}},
        "simulation": {"network": {"nodes": rng.shuffle(nodes), "links": rng.shuffle(links)}},
    }
    ag: List[dict] = []
    if agents:
        ag = [_defender(rng, cfg, size)]
    cfg["agents"] = ag
    wants_nmne = any(c.get("options", {}).get("include_nmne") for a in ag for c in
                     (a.get("observation_space", {}).get("options", {}).get("components", [])))
    if wants_nmne:
        cfg["simulation"]["network"]["nmne_config"] = {"capture_nmne": True, "nmne_capture_keywords": ["DELETE"]}
    return copy.deepcopy(cfg)


# ------------------------------------------------------------------------------------------------ agents
def hosts_of(cfg: dict) -> List[dict]:
    return [n for n in cfg["simulation"]["network"]["nodes"] if n["type"] in ("computer", "server")]


def routers_of(cfg: dict) -> List[dict]:
    return [n for n in cfg["simulation"]["network"]["nodes"] if n["type"] == "router"]


def _link_ref(l: dict) -> str:
    return f"{l['endpoint_a_hostname']}:eth-{l['endpoint_a_port']}<->{l['endpoint_b_hostname']}:eth-{l['endpoint_b_port']}"


def _defender(rng, cfg: dict, size: int) -> dict:
    hosts = hosts_of(cfg)
    routers = routers_of(cfg)
    net = cfg["simulation"]["network"]
    host_obs = []
    for h in hosts[: 3 + size]:
        e: Dict[str, Any] = {"hostname": h["hostname"]}
        if h.get("services") and rng.chance(2, 3):
            e["services"] = [{"service_name": h["services"][0]["type"]}]
        if h.get("applications") and rng.chance(1, 2):
            e["applications"] = [{"application_name": h["applications"][0]["type"]}]
        if h.get("folders") and rng.chance(2, 3):
            f = h["folders"][0]
            fe: Dict[str, Any] = {"folder_name": f["folder_name"]}
            if f.get("files"):
                fe["files"] = [{"file_name": f["files"][0]["file_name"]}]
            e["folders"] = [fe]
        host_obs.append(e)
    ips = [h["ip_address"] for h in hosts]
    nodes_opts: Dict[str, Any] = {"hosts": host_obs, "num_services": 1, "num_applications": 1, "num_folders": 1, "num_files": 1,
                                  "num_nics": 2, "include_num_access": False, "include_nmne": rng.chance(1, 2),
                                  "monitored_traffic": {"icmp": ["NONE"], "tcp": ["DNS"]},
                                  "routers": [{"hostname": r["hostname"]} for r in routers[:2]], "num_ports": 2 if routers else 0,
                                  "ip_list": ips, "wildcard_list": ["0.0.0.1", "0.0.0.255"], "port_list": ["HTTP", "POSTGRES_SERVER", "DNS"],
                                  "protocol_list": ["ICMP", "TCP", "UDP"], "num_rules": 10}
    comps = [{"type": "nodes", "label": "NODES", "options": nodes_opts}]
    if net["links"]:
        comps.append({"type": "links", "label": "LINKS", "options": {"link_references": [_link_ref(l) for l in net["links"][: 2 + size]]}})
    comps.append({"type": "none", "label": "ICS", "options": {}})
    # action map
    acts: List[dict] = [{"action": "do-nothing", "options": {}}]
    for h in hosts:
        hn = h["hostname"]
        for s in h.get("services", [])[:1]:
            for a in rng.shuffle(["node-service-scan", "node-service-stop", "node-service-start", "node-service-restart", "node-service-fix",
                                  "node-service-disable", "node-service-enable"])[:2]:
                acts.append({"action": a, "options": {"node_name": hn, "service_name": s["type"]}})
        for ap in h.get("applications", [])[:1]:
            acts.append({"action": rng.choice(["node-application-scan", "node-application-close", "node-application-fix",
                                               "node-application-execute"]), "options": {"node_name": hn, "application_name": ap["type"]}})
        for f in h.get("folders", [])[:1]:
            acts.append({"action": rng.choice(["node-folder-scan", "node-folder-repair", "node-folder-restore"]),
                         "options": {"node_name": hn, "folder_name": f["folder_name"]}})
            for fi in f.get("files", [])[:1]:
                acts.append({"action": rng.choice(["node-file-scan", "node-file-repair", "node-file-corrupt"]),
                             "options": {"node_name": hn, "folder_name": f["folder_name"], "file_name": fi["file_name"]}})
        if rng.chance(1, 2):
            acts.append({"action": rng.choice(["node-os-scan", "node-shutdown", "node-startup", "node-reset"]), "options": {"node_name": hn}})
        if rng.chance(1, 3):
            acts.append({"action": rng.choice(["host-nic-disable", "host-nic-enable"]), "options": {"node_name": hn, "nic_num": 1}})
    for r in routers:
        for _ in range(rng.range(0, 2)):
            acts.append({"action": "router-acl-add-rule", "options": {
                "target_router": r["hostname"], "position": rng.range(1, 9), "permission": rng.choice(["DENY", "PERMIT"]),
                "src_ip": rng.choice(ips) if ips else "ALL", "src_wildcard": "NONE", "src_port": "ALL",
                "dst_ip": "ALL", "dst_wildcard": "NONE", "dst_port": rng.choice(["ALL", "HTTP", "POSTGRES_SERVER"]),
                "protocol_name": rng.choice(["ALL", "TCP", "ICMP"])}})
        if rng.chance(1, 2):
            acts.append({"action": "router-acl-remove-rule", "options": {"target_router": r["hostname"], "position": rng.range(1, 9)}})
    acts = [acts[0]] + rng.shuffle(acts[1:])[: 6 + 6 * size]
    idx = rng.shuffle(list(range(len(acts))))  # mapping declared in shuffled key order; key i still denotes action i
    amap = {i: acts[i] for i in idx}
    rew = [{"type": "dummy", "weight": 1.0}]
    dbs = [h for h in hosts if any(s["type"] == "database-service" for s in h.get("services", []))]
    if dbs:
        rew = [{"type": "database-file-integrity", "weight": 0.5,
                "options": {"node_hostname": dbs[0]["hostname"], "folder_name": "database", "file_name": "database.db"}}]
    if rng.chance(1, 2):
        rew.append({"type": "action-penalty", "weight": 0.25, "options": {"action_penalty": -0.5, "do_nothing_penalty": 0.0}})
    return {"ref": "defender", "team": "BLUE", "type": "proxy-agent",
            "observation_space": {"type": "custom", "options": {"components": comps}},
            "action_space": {"action_map": amap},
            "reward_function": {"reward_components": rew},
            # a flattened space must not contain a dictionary without entries: since fix 8b0dbdb the loader REJECTS such an agent
            # (documented ValidationError), so a scenario that observes no host (e.g. a network of printers only) is generated
            # unflattened; the draw is made either way, so every other generated scenario is what it was
            "agent_settings": {"flatten_obs": rng.chance(1, 2) and bool(host_obs), "action_masking": rng.chance(1, 3)}}


def _scripted(rng, cfg: dict) -> List[dict]:
    out = []
    hosts = hosts_of(cfg)
    clients = [h for h in hosts if h["type"] == "computer"]
    greens = [h for h in clients if any(a["type"] == "database-client" for a in h.get("applications", []))]
    for h in greens[:2]:
        acts = {0: {"action": "do-nothing", "options": {}},
                1: {"action": "node-application-execute", "options": {"node_name": h["hostname"], "application_name": "database-client"}}}
        probs = {0: 0.25, 1: 0.75}
        if rng.chance(1, 2):
            acts[2] = {"action": "node-application-execute", "options": {"node_name": h["hostname"], "application_name": "web-browser"}}
            probs = {0: 0.25, 1: 0.5, 2: 0.25}
        a = {"ref": f"{h['hostname']}_green_user", "team": "GREEN", "type": "probabilistic-agent",
             "agent_settings": {"action_probabilities": probs},
             "action_space": {"action_map": {k: acts[k] for k in rng.shuffle(list(acts))}},
             "reward_function": {"reward_components": [
                 {"type": "green-admin-database-unreachable-penalty", "weight": 0.5, "options": {"node_hostname": h["hostname"]}}]}}
        if rng.chance(1, 2):
            a["reward_function"]["reward_components"].append(
                {"type": "webpage-unavailable-penalty", "weight": 0.25, "options": {"node_hostname": h["hostname"]}})
        out.append(a)
    reds = [h for h in clients if any(a["type"] == "data-manipulation-bot" for a in h.get("applications", []))]
    if reds:
        st: Dict[str, Any] = {"possible_start_nodes": [h["hostname"] for h in reds], "target_application": "data-manipulation-bot",
                              "start_step": rng.range(2, 10), "frequency": rng.range(2, 8), "variance": rng.range(0, 1)}
        out.append({"ref": "data_manipulation_attacker", "team": "RED", "type": "red-database-corrupting-agent", "agent_settings": st})
    dos = [h for h in clients if any(a["type"] == "dos-bot" for a in h.get("applications", []))]
    if dos and rng.chance(2, 3):
        out.append({"ref": "dos_attacker", "team": "RED", "type": "periodic-agent",
                    "agent_settings": {"possible_start_nodes": [dos[0]["hostname"]], "target_application": "dos-bot",
                                       "start_step": rng.range(1, 6), "frequency": rng.range(2, 6), "variance": 0}})
    return out


# ------------------------------------------------------------------------------------------------ API
def gen_scenario(rng, size: int = 1, family: Optional[str] = None, shadowing: bool = False, node_sets: bool = True,
                 off_nodes: bool = True, agents: bool = True) -> dict:
    size = max(1, min(3, int(size)))
    family = family or rng.choice(FAMILIES)
    if family not in FAMILIES:
        raise ValueError(f"unknown family {family}")
    cfg: Dict[str, Any] = {
        "metadata": {"version": 3.0, "generated_family": family, "generated_size": size},
        "io_settings": dict(QUIET_IO),
        "game": {"max_episode_length": rng.choice([16, 32, 64]), "ports": ["HTTP", "POSTGRES_SERVER", "DNS", "FTP", "NTP"],
                 "protocols": ["ICMP", "TCP", "UDP"], "thresholds": {"nmne": {"high": 10, "medium": 5, "low": 0}}},
    }
    if rng.chance(1, 2):
        cfg["game"]["seed"] = rng.range(1, 10 ** 6)
    cfg["simulation"] = {"network": _build_network(rng, family, size, shadowing, off_nodes, node_sets)}
    ag: List[dict] = []
    if agents:
        ag = _scripted(rng, cfg)
        ag.append(_defender(rng, cfg, size))
        ag = rng.shuffle(ag)
        if rng.chance(1, 3) and len(ag) > 1:  # reward sharing (acyclic: a green agent shares the defender's reward)
            for a in ag:
                if a["type"] == "probabilistic-agent":
                    a["reward_function"]["reward_components"].append({"type": "shared-reward", "weight": 0.5, "options": {"agent_name": "defender"}})
                    break
    cfg["agents"] = ag
    # an observation space with include_nmne needs NMNE capture switched on (otherwise the observation lacks the NMNE key the
    # space declares - C02's finding F-5 - and a flattened observation raises at reset)
    wants_nmne = any(c.get("options", {}).get("include_nmne") for a in ag for c in
                     (a.get("observation_space", {}).get("options", {}).get("components", [])))
    if wants_nmne or rng.chance(1, 4):
        cfg["simulation"]["network"]["nmne_config"] = {"capture_nmne": True, "nmne_capture_keywords": ["DELETE"]}
    return copy.deepcopy(cfg)


def permute_mappings(cfg: Any, rng, keep=()) -> Any:
    """Deep copy in which the entries of every mapping appear in a shuffled order; lists keep their order.
    Mappings stored under a key named in `keep` are copied in their original order."""
    if isinstance(cfg, dict):
        keys = rng.shuffle(list(cfg.keys()))
        return {k: (copy.deepcopy(cfg[k]) if k in keep else permute_mappings(cfg[k], rng, keep)) for k in keys}
    if isinstance(cfg, list):
        return [permute_mappings(v, rng, keep) for v in cfg]
    return copy.deepcopy(cfg)


def reverse_mappings(cfg: Any, keep=()) -> Any:
    if isinstance(cfg, dict):
        return {k: (copy.deepcopy(cfg[k]) if k in keep else reverse_mappings(cfg[k], keep)) for k in reversed(list(cfg.keys()))}
    if isinstance(cfg, list):
        return [reverse_mappings(v, keep) for v in cfg]
    return copy.deepcopy(cfg)


def reserialise(cfg: dict, rng) -> dict:
    """Dump to YAML text in a randomly chosen style and parse it back (formatting-only change)."""
    style = rng.below(4)
    if style == 0:
        text = yaml.safe_dump(cfg, default_flow_style=False, sort_keys=False, indent=2)
    elif style == 1:
        text = yaml.safe_dump(cfg, default_flow_style=True, sort_keys=False, width=60)
    elif style == 2:
        text = yaml.safe_dump(cfg, default_flow_style=None, sort_keys=True, indent=6, width=200)
    else:
        text = yaml.safe_dump(cfg, default_flow_style=False, sort_keys=False, indent=4, default_style='"')
    return yaml.safe_load(text)


DEFAULTS_KEYS = ["node_start_up_duration", "node_shut_down_duration", "node_scan_duration", "folder_scan_duration",
                 "folder_restore_duration", "service_fix_duration", "service_restart_duration", "service_install_duration"]


def enrich(cfg: dict, rng, stepped: bool = True) -> dict:
    c = copy.deepcopy(cfg)
    net = c["simulation"]["network"]
    nodes, links = net["nodes"], net["links"]
    if rng.chance(1, 2):
        c["defaults"] = {k: rng.choice([1, 2, 4, 6, 9]) for k in rng.shuffle(list(DEFAULTS_KEYS))[: rng.range(1, 5)]}
    # documented spelling of ACL addresses
    def respell(rule: dict):
        for short, long_ in (("src_ip", "src_ip_address"), ("dst_ip", "dst_ip_address")):
            if short in rule and rng.chance(1, 2):
                if rng.chance(1, 4):
                    rule[long_] = "10.9.9.9"      # both present: the shipped spelling wins
                else:
                    rule[long_] = rule.pop(short)
    for n in nodes:
        acl = n.get("acl")
        if isinstance(acl, dict):
            for v in acl.values():
                if isinstance(v, dict) and "action" in v:
                    respell(v)
                elif isinstance(v, dict):
                    for r in v.values():
                        respell(r)
    switches = [n for n in nodes if n["type"] == "switch"]
    used = {}
    for l in links:
        for side in ("a", "b"):
            used.setdefault(l[f"endpoint_{side}_hostname"], set()).add(l[f"endpoint_{side}_port"])
    def free_port(sw):
        for p in range(sw.get("num_ports", 8), 0, -1):
            if p not in used.get(sw["hostname"], set()):
                used.setdefault(sw["hostname"], set()).add(p)
                return p
        return None
    if rng.chance(1, 2):
        w: Dict[str, Any] = {"hostname": "wifi_1", "type": "wireless-router",
                             "router_interface": {"ip_address": "192.168.77.1", "subnet_mask": "255.255.255.0"}}
        if rng.chance(3, 4):
            w["wireless_access_point"] = {"ip_address": "10.77.0.1", "subnet_mask": "255.255.255.0",
                                          "frequency": rng.choice(["WIFI_2_4", "WIFI_5"])}
        if rng.chance(1, 2):
            w["acl"] = _acl(rng, ["192.168.77.10", "10.77.0.9"], rng.range(1, 3))
            for r in w["acl"].values():
                respell(r)
        if rng.chance(1, 2):
            w["routes"] = [{"address": "10.88.0.0", "subnet_mask": "255.255.0.0", "next_hop_ip_address": "192.168.77.2", "metric": rng.choice([0, 3])}]
        if rng.chance(1, 3):
            w["default_route"] = {"next_hop_ip_address": "192.168.77.2"}
        st = rng.choice(POWER_STATES)
        if st is not None:
            w["operating_state"] = st
        nodes.append(w)
        if switches and rng.chance(2, 3):
            sw = rng.choice(switches)
            p = free_port(sw)
            if p:
                links.append({"endpoint_a_hostname": "wifi_1", "endpoint_a_port": 2, "endpoint_b_hostname": sw["hostname"], "endpoint_b_port": p})
        if rng.chance(2, 3):
            caps = {}
            for f in rng.shuffle(["WIFI_2_4", "WIFI_5"])[: rng.range(1, 2)]:
                caps[f] = rng.choice([0, 1, 54, 123.5, 1000])
            net["airspace"] = {"frequency_max_capacity_mbps": caps}
    if rng.chance(1, 2) and not net.get("node_sets"):
        ns = {"type": "office-lan", "lan_name": rng.choice(["CORP", "HQ", "LAB"]), "subnet_base": rng.range(60, 90),
              "pcs_ip_block_start": rng.range(10, 40), "num_pcs": rng.choice([0, 1, 2, 3, 24])}
        if rng.chance(1, 2):
            ns["bandwidth"] = rng.choice([100, 150, 10])
        if rng.chance(1, 2):
            ns["include_router"] = rng.chance(1, 2)
        net["node_sets"] = [ns]
        if switches and rng.chance(1, 2):  # a link of the scenario that ends at a node the node set creates
            sw = rng.choice(switches)
            p = free_port(sw)
            if p:
                links.append({"endpoint_a_hostname": f"switch_edge_1_{ns['lan_name']}", "endpoint_a_port": 23 if ns["num_pcs"] < 23 else 24 - 1,
                              "endpoint_b_hostname": sw["hostname"], "endpoint_b_port": p} if ns["num_pcs"] < 23 else
                             {"endpoint_a_hostname": f"switch_core_{ns['lan_name']}", "endpoint_a_port": 20,
                              "endpoint_b_hostname": sw["hostname"], "endpoint_b_port": p})
    if rng.chance(1, 3):
        c["game"]["max_episode_length"] = rng.choice([8, 100, 256])
    if not stepped:
        for l in links:
            if rng.chance(1, 6):
                l["bandwidth"] = rng.choice([0, 10 ** 9])
    return c


def _intern(o: Any, pool: Dict[str, Any]) -> Any:
    """Deep copy in which equal mappings / lists (of some size) are ONE object, so that the YAML dumper writes anchors/aliases."""
    if isinstance(o, dict):
        d = {k: _intern(v, pool) for k, v in o.items()}
        if len(d) >= 2:
            key = "D" + yaml.safe_dump(d, sort_keys=True)
            return pool.setdefault(key, d)
        return d
    if isinstance(o, list):
        l = [_intern(v, pool) for v in o]
        if len(l) >= 2:
            key = "L" + yaml.safe_dump(l, sort_keys=True)
            return pool.setdefault(key, l)
        return l
    return o


def _quote_ints(cfg: dict) -> dict:
    c = copy.deepcopy(cfg)
    net = c.get("simulation", {}).get("network", {})
    for n in net.get("nodes", []):
        for k in ("num_ports", "start_up_duration", "shut_down_duration"):
            if isinstance(n.get(k), int):
                n[k] = str(n[k])
        if isinstance(n.get("network_interfaces"), dict):
            n["network_interfaces"] = {str(k): v for k, v in n["network_interfaces"].items()}
        acl = n.get("acl")
        if isinstance(acl, dict):
            if n["type"] == "firewall":
                n["acl"] = {nm: ({str(k): v for k, v in a.items()} if isinstance(a, dict) else a) for nm, a in acl.items()}
            else:
                n["acl"] = {str(k): v for k, v in acl.items()}
        for r in n.get("routes") or []:
            if isinstance(r.get("metric"), int):
                r["metric"] = str(r["metric"])
        for e in (n.get("services") or []) + (n.get("applications") or []):
            o = e.get("options") or {}
            for k in ("fixing_duration", "max_sessions", "keep_alive_frequency"):  # not target_port: a string there is a port NAME
                if isinstance(o.get(k), int) and not isinstance(o.get(k), bool):
                    o[k] = str(o[k])
    for l in net.get("links", []):
        if isinstance(l.get("bandwidth"), int):
            l["bandwidth"] = str(l["bandwidth"])
    for a in c.get("agents", []):
        am = (a.get("action_space") or {}).get("action_map")
        if isinstance(am, dict):
            a["action_space"]["action_map"] = {str(k): v for k, v in am.items()}
    return c


def quoted_int_sites(cfg: dict) -> List[tuple]:
    """One variant per KIND of integer site of the scenario format: the integers of that site (and only those) written as quoted
    strings. [(site, variant)]; sites the scenario does not have are left out."""
    out = []

    def variant(site, edit):
        c = copy.deepcopy(cfg)
        if edit(c):
            out.append((site, c))

    def nodes(c):
        return c.get("simulation", {}).get("network", {}).get("nodes", [])

    def each(pred, fn):
        def edit(c):
            hit = False
            for n in nodes(c):
                if pred(n):
                    hit = fn(n) or hit
            return hit
        return edit

    def strkeys(n, key):
        if isinstance(n.get(key), dict) and n[key]:
            n[key] = {str(k): v for k, v in n[key].items()}
            return True
        return False

    def strval(d, key):
        if isinstance(d.get(key), int) and not isinstance(d.get(key), bool):
            d[key] = str(d[key])
            return True
        return False

    variant("router acl position", each(lambda n: n["type"] in ("router", "wireless-router"), lambda n: strkeys(n, "acl")))
    variant("firewall acl position", each(lambda n: n["type"] == "firewall" and isinstance(n.get("acl"), dict), lambda n: any(
        [n["acl"].__setitem__(nm, {str(k): v for k, v in a.items()}) or True for nm, a in list(n["acl"].items()) if isinstance(a, dict) and a])))
    variant("router ports key", each(lambda n: n["type"] == "router", lambda n: strkeys(n, "ports")))
    variant("network_interfaces key", each(lambda n: True, lambda n: strkeys(n, "network_interfaces")))
    variant("num_ports", each(lambda n: True, lambda n: strval(n, "num_ports")))
    variant("start_up_duration / shut_down_duration", each(lambda n: True, lambda n: any([strval(n, "start_up_duration"), strval(n, "shut_down_duration")])))
    variant("route metric", each(lambda n: True, lambda n: any([strval(r, "metric") for r in n.get("routes") or []])))
    variant("software fixing_duration", each(lambda n: True, lambda n: any(
        [strval(e.get("options") or {}, "fixing_duration") for e in (n.get("services") or []) + (n.get("applications") or [])])))
    variant("listen_on_ports entry", each(lambda n: True, lambda n: any(
        [(e["options"].__setitem__("listen_on_ports", [str(p) if isinstance(p, int) else p for p in e["options"]["listen_on_ports"]]) or True)
         for e in (n.get("services") or []) + (n.get("applications") or [])
         if any(isinstance(p, int) for p in (e.get("options") or {}).get("listen_on_ports", []))])))
    variant("file size", each(lambda n: True, lambda n: any(
        [strval(f, "size") for fd in n.get("folders") or [] for f in fd.get("files") or []])))

    def link_ports(c):
        ls = c["simulation"]["network"].get("links") or []
        for l in ls:
            l["endpoint_a_port"], l["endpoint_b_port"] = str(l["endpoint_a_port"]), str(l["endpoint_b_port"])
        return bool(ls)
    variant("link endpoint port", link_ports)
    variant("link bandwidth", lambda c: any([strval(l, "bandwidth") for l in c["simulation"]["network"].get("links") or []]))

    def amap(c):
        hit = False
        for a in c.get("agents", []):
            am = (a.get("action_space") or {}).get("action_map")
            if isinstance(am, dict) and am:
                a["action_space"]["action_map"] = {str(k): v for k, v in am.items()}
                hit = True
        return hit
    variant("action_map key", amap)
    variant("game max_episode_length", lambda c: strval(c.get("game", {}), "max_episode_length"))
    variant("defaults value", lambda c: any([strval(c.get("defaults") or {}, k) for k in DEFAULTS_KEYS]))
    variant("office-lan numbers", lambda c: any(
        [any([strval(ns, k) for k in ("subnet_base", "pcs_ip_block_start", "num_pcs", "bandwidth")])
         for ns in c["simulation"]["network"].get("node_sets") or []]))
    return out


def format_variants(cfg: dict, rng, which: Optional[List[str]] = None) -> List[tuple]:
    out = []
    names = which or ["aliases", "merge-keys", "comments", "quoted-ints"]
    for name in names:
        if name == "aliases":
            text = yaml.safe_dump(_intern(cfg, {}), default_flow_style=False, sort_keys=False)
            out.append((name, yaml.safe_load(text)))
        elif name == "merge-keys":
            c = copy.deepcopy(cfg)
            hosts = [n for n in c["simulation"]["network"]["nodes"] if n["type"] in ("computer", "server")]
            common: Dict[str, Any] = {}
            for k in ("subnet_mask", "default_gateway", "dns_server", "start_up_duration", "shut_down_duration"):
                vals = [h[k] for h in hosts if k in h]
                if vals:
                    v = max(set(map(str, vals)), key=lambda x: sum(1 for y in vals if str(y) == x))
                    common[k] = next(y for y in vals if str(y) == v)
            if not common:
                continue
            for h in hosts:
                # `<<` gives a key only where the host does not spell it out itself: every host keeps its own value set
                if all(k in h and h[k] == v for k, v in common.items()):
                    for k in common:
                        del h[k]
                    h["<<"] = "__MERGE_COMMON__"
            meta = dict(c.pop("metadata", {}) or {})
            body = yaml.safe_dump(c, default_flow_style=False, sort_keys=False)
            body = body.replace("'<<': __MERGE_COMMON__", "<<: *common_host").replace('"<<": __MERGE_COMMON__', "<<: *common_host")
            head = "metadata:\n" + "".join(f"  {k}: {yaml.safe_dump(v, default_flow_style=True).strip().splitlines()[0]}\n"
                                            for k, v in meta.items()) + "  common_host: &common_host\n" + \
                   "".join(f"    {k}: {yaml.safe_dump(v, default_flow_style=True).strip().splitlines()[0]}\n" for k, v in common.items())
            parsed = yaml.safe_load(head + body)
            out.append((name, parsed))
        elif name == "comments":
            text = yaml.safe_dump(cfg, default_flow_style=False, sort_keys=False, width=10 ** 6)
            lines = []
            for ln in text.splitlines():
                if rng.chance(1, 5):
                    lines.append(" " * rng.below(8) + "# " + rng.choice(["note", "TODO: check", "key: value", "- item", "{not: yaml}"]))
                lines.append(ln)
            out.append((name, yaml.safe_load("\n".join(lines) + "\n")))
        elif name == "quoted-ints":
            text = yaml.safe_dump(_quote_ints(cfg), default_flow_style=False, sort_keys=False)
            out.append((name, yaml.safe_load(text)))
    return out


def summary(cfg: dict) -> dict:
    net = cfg.get("simulation", {}).get("network", {})
    nodes = net.get("nodes", [])
    out: Dict[str, int] = {}
    for n in nodes:
        out["node:" + n["type"]] = out.get("node:" + n["type"], 0) + 1
        out["acl_rules"] = out.get("acl_rules", 0) + sum(
            (len(v) if isinstance(v, dict) and v and all(isinstance(k, int) for k in v) and False else 0) for v in ())
        acl = n.get("acl") or {}
        if n["type"] == "firewall":
            out["acl_rules"] += sum(len(a or {}) for a in acl.values())
        else:
            out["acl_rules"] += len(acl)
        out["routes"] = out.get("routes", 0) + len(n.get("routes") or [])
        out["services"] = out.get("services", 0) + len(n.get("services") or [])
        out["applications"] = out.get("applications", 0) + len(n.get("applications") or [])
        out["users"] = out.get("users", 0) + len(n.get("users") or [])
        out["folders"] = out.get("folders", 0) + len(n.get("folders") or [])
        out["files"] = out.get("files", 0) + sum(len(f.get("files") or []) for f in n.get("folders") or [])
        out["extra_nics"] = out.get("extra_nics", 0) + len(n.get("network_interfaces") or {})
    out["links"] = len(net.get("links", []))
    out["node_sets"] = len(net.get("node_sets", []))
    out["agents"] = len(cfg.get("agents", []))
    return out
