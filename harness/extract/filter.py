"""E11 for C06: order of guards and side-effecting calls in the receive paths of interfaces, hosts, switches,
routers and firewalls; which rule list each firewall entry point asks and what it calls afterwards; the
software-layer boundary (who builds frames, who calls send_frame, who reaches into other nodes).

Pure `ast`; never imports primaite.  Strict: every statement of the functions translated must have a
recognised shape, otherwise the extractor raises and the tie is reported broken."""
import ast
from typing import List, Tuple

from harness.extract.util import class_def, find_method, parse
from harness.lib.core import SRC

GEN_NAME = "Filter"

FW = "simulator/network/hardware/nodes/network/firewall.py"
RT = "simulator/network/hardware/nodes/network/router.py"
SWI = "simulator/network/hardware/nodes/network/switch.py"
HOST = "simulator/network/hardware/nodes/host/host_node.py"
BASE = "simulator/network/hardware/base.py"
SESS = "simulator/system/core/session_manager.py"
DLL = "simulator/network/transmission/data_link_layer.py"
PORTS = "utils/validation/port.py"

ZONE = {"external": "ext", "internal": "int", "dmz": "dmz"}
DIR = {"inbound": "In", "outbound": "Out"}


def _body(fn: ast.FunctionDef) -> List[ast.stmt]:
    b = list(fn.body)
    if b and isinstance(b[0], ast.Expr) and isinstance(b[0].value, ast.Constant) and isinstance(b[0].value.value, str):
        b = b[1:]
    return b


def _u(n: ast.AST) -> str:
    return ast.unparse(n)


def _is_log(st: ast.stmt) -> bool:
    return isinstance(st, ast.Expr) and isinstance(st.value, ast.Call) and (
        _u(st.value.func).startswith("self.sys_log.") or _u(st.value.func).startswith("self._connected_node.sys_log.")
        or _u(st.value.func).startswith("_LOGGER."))


def _entry_name(fn_name: str) -> str:
    # _process_external_inbound_frame -> extIn
    parts = fn_name.split("_")
    if len(parts) != 5 or parts[:2] != ["", "process"] or parts[4] != "frame" or parts[2] not in ZONE or parts[3] not in DIR:
        raise ValueError(f"unrecognised firewall entry point name {fn_name}")
    return ZONE[parts[2]] + DIR[parts[3]]


def _acl_name(attr: str) -> str:
    # external_inbound_acl -> extIn
    parts = attr.split("_")
    if len(parts) != 3 or parts[2] != "acl" or parts[0] not in ZONE or parts[1] not in DIR:
        raise ValueError(f"unrecognised firewall ACL attribute {attr}")
    return ZONE[parts[0]] + DIR[parts[1]]


def _deny_return(st: ast.stmt) -> bool:
    """`if not permitted: <logging…>; return`"""
    if not (isinstance(st, ast.If) and _u(st.test) == "not permitted" and not st.orelse):
        return False
    body = [x for x in st.body if not _is_log(x) and not (isinstance(x, ast.Assign) and _u(x.targets[0]) == "at_port")]
    return len(body) == 1 and isinstance(body[0], ast.Return) and body[0].value is None


CALL_TOKENS = {
    "self.software_manager.arp.add_arp_cache_entry": "learn",
    "self.session_manager.receive_frame": "session",
    "self.process_frame": "process",
    "self.software_manager.arp.get_arp_cache_network_interface": "lookup",
}
PURE_OK = {"self.check_send_frame_to_session_manager", "self.route_table.find_best_route"}


def _calls_in_order(stmts: List[ast.stmt]) -> List[str]:
    """Side-effecting calls of a statement list in source order; raises on a call it does not know."""
    out: List[str] = []

    class V(ast.NodeVisitor):
        def visit_Call(self, c: ast.Call):
            name = _u(c.func)
            for a in list(c.args) + [k.value for k in c.keywords]:
                self.visit(a)
            if name in CALL_TOKENS:
                out.append(CALL_TOKENS[name])
            elif name.startswith("self._process_"):
                out.append("entry:" + _entry_name(name[len("self."):]))
            elif name in PURE_OK or name.startswith("self.sys_log."):
                pass
            else:
                raise ValueError(f"unrecognised call {name} in a firewall entry point")

    for st in stmts:
        V().visit(st)
    return out


def _firewall() -> Tuple[list, list, list, bool]:
    tree = parse(FW)
    consts = {}
    for st in tree.body:
        if isinstance(st, ast.AnnAssign) and isinstance(st.target, ast.Name) and st.target.id.endswith("_PORT_ID"):
            consts[st.target.id] = st.value.value
    fw = class_def(tree, "Firewall")
    # port properties: external_port -> self.network_interface[EXTERNAL_PORT_ID]
    prop_port = {}
    for z in ZONE:
        fn = find_method(fw, f"{z}_port")
        ret = _body(fn)[-1]
        src = _u(ret.value)
        want = f"self.network_interface[{z.upper()}_PORT_ID]"
        if src != want:
            raise ValueError(f"{z}_port returns {src}, expected {want}")
        prop_port[f"self.{z}_port"] = consts[f"{z.upper()}_PORT_ID"]
    # receive_frame: if / elif chain on from_network_interface
    rf = find_method(fw, "receive_frame")
    body = _body(rf)
    if len(body) != 1 or not isinstance(body[0], ast.If):
        raise ValueError("Firewall.receive_frame is not a single if/elif chain")
    dispatch = []
    node = body[0]
    while True:
        t = node.test
        if not (isinstance(t, ast.Compare) and len(t.ops) == 1 and isinstance(t.ops[0], ast.Eq)
                and _u(t.left) == "from_network_interface" and _u(t.comparators[0]) in prop_port):
            raise ValueError(f"Firewall.receive_frame: unrecognised test {_u(t)}")
        stmts = node.body
        if not (len(stmts) == 2 and isinstance(stmts[0], ast.Expr) and isinstance(stmts[0].value, ast.Call)
                and isinstance(stmts[1], ast.Return)):
            raise ValueError("Firewall.receive_frame: branch is not `self._process_x(frame, nic); return`")
        dispatch.append((prop_port[_u(t.comparators[0])], _entry_name(_u(stmts[0].value.func)[len("self."):])))
        if not node.orelse:
            break
        if len(node.orelse) == 1 and isinstance(node.orelse[0], ast.If):
            node = node.orelse[0]
        else:
            raise ValueError("Firewall.receive_frame: unexpected else branch")
    entry_acl, entry_calls = [], []
    verdict_first = True
    for fn in fw.body:
        if isinstance(fn, ast.FunctionDef) and fn.name.startswith("_process_") and fn.name.endswith("_frame"):
            name = _entry_name(fn.name)
            b = _body(fn)
            first = b[0]
            ok = (isinstance(first, ast.Assign) and _u(first.targets[0]) in ("(permitted, rule)", "permitted, rule")
                  and isinstance(first.value, ast.Call) and _u(first.value.func).startswith("self.")
                  and _u(first.value.func).endswith("_acl.is_permitted"))
            if not ok or not _deny_return(b[1]):
                raise ValueError(f"{fn.name}: does not start with `permitted, rule = self.<acl>.is_permitted(frame)`; "
                                 f"`if not permitted: return`")
            entry_acl.append((name, _acl_name(_u(first.value.func)[len("self."):-len(".is_permitted")])))
            rest = [s for s in b[2:] if not (isinstance(s, ast.Return) and s.value is None)]
            entry_calls.append((name, _calls_in_order(rest)))
    order = ["extIn", "extOut", "intIn", "intOut", "dmzIn", "dmzOut"]
    entry_acl.sort(key=lambda x: order.index(x[0]))
    entry_calls.sort(key=lambda x: order.index(x[0]))
    return entry_acl, entry_calls, dispatch, verdict_first


def _entry_shapes() -> List[Tuple[str, str]]:
    """Branch structure of each firewall entry point after `if not permitted: return` (the call LIST of `entryCalls` does not
    say which calls exclude each other).  First-stage entry points must be `learn; if check_send(frame): session(frame, nic)
    else: <second stage only>`; second-stage entry points must be the single statement `self.process_frame(frame=…, …)`.
    Anything else is reported under its own name, so that the Lean obligation fails."""
    fw = class_def(parse(FW), "Firewall")
    out = []
    for fn in fw.body:
        if not (isinstance(fn, ast.FunctionDef) and fn.name.startswith("_process_") and fn.name.endswith("_frame")):
            continue
        name = _entry_name(fn.name)
        rest = [s for s in _body(fn)[2:] if not (isinstance(s, ast.Return) and s.value is None) and not _is_log(s)]
        shape = "other"
        if len(rest) == 1 and isinstance(rest[0], ast.Expr) and _u(rest[0]).startswith("self.process_frame(frame=frame, "
                                                                                         "from_network_interface=from_network_interface)"):
            shape = "process"
        elif (len(rest) == 2 and isinstance(rest[0], ast.Expr) and _u(rest[0].value.func) == "self.software_manager.arp.add_arp_cache_entry"
              and isinstance(rest[1], ast.If) and _u(rest[1].test) == "self.check_send_frame_to_session_manager(frame)"):
            body = [s for s in rest[1].body if not _is_log(s)]
            sess_ok = (len(body) == 1 and _u(body[0]) == "self.session_manager.receive_frame(frame, from_network_interface)")
            else_calls = _calls_in_order(rest[1].orelse)
            else_ok = bool(else_calls) and all(c == "lookup" or c.startswith("entry:") for c in else_calls)
            # the frame object handed on is the one that was judged: every entry/session/process call passes `frame`
            passes = all(_u(c.args[0]) == "frame" if c.args else _u({k.arg: k.value for k in c.keywords}["frame"]) == "frame"
                         for c in ast.walk(rest[1]) if isinstance(c, ast.Call) and _u(c.func).startswith("self._process_"))
            if sess_ok and else_ok and passes:
                shape = "learn;if-toSession-then-session-else-second"
        out.append((name, shape))
    order = ["extIn", "extOut", "intIn", "intOut", "dmzIn", "dmzOut"]
    out.sort(key=lambda x: order.index(x[0]))
    return out


def _power_guard(st: ast.stmt) -> bool:
    return (isinstance(st, ast.If) and _u(st.test) == "self.operating_state != NodeOperatingState.ON"
            and len(st.body) == 1 and isinstance(st.body[0], ast.Return) and st.body[0].value is None and not st.orelse)


def _router_order() -> Tuple[List[str], bool]:
    tree = parse(RT)
    r = class_def(tree, "Router")
    out: List[str] = []
    for st in _body(find_method(r, "receive_frame")):
        if _power_guard(st):
            out.append("guard:operating_state")
        elif isinstance(st, ast.If) and _u(st.test) == "self.subject_to_acl(frame=frame)":
            a = st.body
            ok = (len(a) == 1 and isinstance(a[0], ast.Assign) and _u(a[0].value) == "self.acl.is_permitted(frame)"
                  and _u(a[0].targets[0]) in ("(permitted, rule)", "permitted, rule"))
            e = {_u(x.targets[0]): _u(x.value) for x in st.orelse if isinstance(x, ast.Assign)}
            if not ok or e != {"permitted": "True", "rule": "None"} or len(st.orelse) != 2:
                raise ValueError("Router.receive_frame: unrecognised subject_to_acl branch")
            out += ["test:subject_to_acl", "verdict:acl"]
        elif _deny_return(st):
            out.append("deny-return")
        elif isinstance(st, ast.If) and _u(st.test) == "frame.ip and self.software_manager.arp":
            if len(st.body) != 1 or not _u(st.body[0]).startswith("self.software_manager.arp.add_arp_cache_entry("):
                raise ValueError("Router.receive_frame: unrecognised ARP learning statement")
            out.append("call:add_arp_cache_entry")
        elif isinstance(st, ast.If) and _u(st.test) == "self.check_send_frame_to_session_manager(frame)":
            a = [x for x in st.body if not _is_log(x)]
            b = [x for x in st.orelse if not _is_log(x)]
            if not (len(a) == 1 and _u(a[0]).startswith("self.session_manager.receive_frame(")
                    and len(b) == 1 and _u(b[0]).startswith("self.process_frame(")):
                raise ValueError("Router.receive_frame: unrecognised session/process branch")
            out += ["test:check_send_frame_to_session_manager", "call:session_manager.receive_frame", "call:process_frame"]
        else:
            raise ValueError(f"Router.receive_frame: unrecognised statement `{_u(st)[:80]}`")
    # subject_to_acl: `if <conj>: return False` / `return True`
    b = _body(find_method(r, "subject_to_acl"))
    if not (len(b) == 2 and isinstance(b[0], ast.If) and _u(b[0].body[0]) == "return False" and _u(b[1]) == "return True"
            and isinstance(b[0].test, ast.BoolOp) and isinstance(b[0].test.op, ast.And)):
        raise ValueError("Router.subject_to_acl: unrecognised shape")
    conj = [_u(v) for v in b[0].test.values]
    base = ["frame.ip.protocol == 'udp'", "frame.is_arp"]
    if conj == base:
        needs_arp = False
    elif conj == base + ["isinstance(frame.payload, ARPPacket)"]:
        needs_arp = True
    else:
        raise ValueError(f"Router.subject_to_acl: unrecognised condition {conj}")
    return out, needs_arp


def _arp_port() -> int:
    fr = class_def(parse(DLL), "Frame")
    fn = find_method(fr, "is_arp")
    ret = _body(fn)[-1]
    if _u(ret.value) != "self.udp.dst_port == PORT_LOOKUP['ARP']":
        raise ValueError(f"Frame.is_arp returns {_u(ret.value)}")
    for node in ast.walk(parse(PORTS)):
        if isinstance(node, ast.Call) and _u(node.func) == "dict":
            for k in node.keywords:
                if k.arg == "ARP" and isinstance(k.value, ast.Constant):
                    return int(k.value.value)
        if isinstance(node, ast.Dict):
            for k, v in zip(node.keys, node.values):
                if isinstance(k, ast.Constant) and k.value == "ARP" and isinstance(v, ast.Constant):
                    return int(v.value)
    raise ValueError("PORT_LOOKUP['ARP'] not found")


def _iface_order(rel: str, cls: str) -> List[str]:
    fn = find_method(class_def(parse(rel), cls), "receive_frame")
    b = _body(fn)
    if not (len(b) == 2 and isinstance(b[0], ast.If) and _u(b[0].test) == "self.enabled" and not b[0].orelse
            and _u(b[1]) == "return False"):
        raise ValueError(f"{cls}.receive_frame: not `if self.enabled: …` / `return False`")
    out = ["guard:enabled"]
    inner = b[0].body
    if _u(inner[0]) != "frame.decrement_ttl()":
        raise ValueError(f"{cls}.receive_frame: first statement is not frame.decrement_ttl()")
    out.append("call:decrement_ttl")
    t = inner[1]
    if not (isinstance(t, ast.If) and _u(t.test) == "frame.ip and frame.ip.ttl < 1" and _u(t.body[-1]) == "return False"):
        raise ValueError(f"{cls}.receive_frame: second statement is not the TTL test")
    out.append("test:ttl")
    # the node is reached only after these, exactly once
    calls = [n for s in inner[2:] for n in ast.walk(s) if isinstance(n, ast.Call) and _u(n.func) == "self._connected_node.receive_frame"]
    early = [n for s in inner[:2] for n in ast.walk(s) if isinstance(n, ast.Call) and _u(n.func) == "self._connected_node.receive_frame"]
    if len(calls) != 1 or early:
        raise ValueError(f"{cls}.receive_frame: node.receive_frame call sites {len(calls)} / early {len(early)}")
    out.append("deliver:node.receive_frame")
    return out


def _nic_accept() -> bool:
    """`NIC.receive_frame`: the broadcast / unicast acceptance test. Returns True when a unicast frame must also be
    addressed to an IP address of the host (C08's repair); raises on any other shape."""
    fn = find_method(class_def(parse(HOST), "NIC"), "receive_frame")
    tests = [n for n in ast.walk(fn) if isinstance(n, ast.If) and _u(n.test) == "frame.ethernet.dst_mac_addr == 'ff:ff:ff:ff:ff:ff'"]
    if len(tests) != 1:
        raise ValueError("NIC.receive_frame: broadcast test not found exactly once")
    t = tests[0]
    b = t.body
    if not (len(b) == 1 and isinstance(b[0], ast.If)
            and _u(b[0].test) == "frame.ip.dst_ip_address in {self.ip_address, self.ip_network.broadcast_address}"
            and _u(b[0].body[0]) == "accept_frame = True" and not b[0].orelse):
        raise ValueError("NIC.receive_frame: unrecognised broadcast acceptance test")
    e = t.orelse
    if not (len(e) == 1 and isinstance(e[0], ast.If) and _u(e[0].body[0]) == "accept_frame = True" and not e[0].orelse):
        raise ValueError("NIC.receive_frame: unrecognised unicast branch")
    cond = _u(e[0].test)
    if cond == "frame.ethernet.dst_mac_addr == self.mac_address":
        return False
    if cond == ("frame.ethernet.dst_mac_addr == self.mac_address and "
                "self._connected_node.ip_is_network_interface(frame.ip.dst_ip_address)"):
        # ip_is_network_interface must compare against every interface's ip_address, enabled or not, by default
        nf = find_method(class_def(parse(BASE), "Node"), "ip_is_network_interface")
        args = nf.args
        if [a.arg for a in args.args] != ["self", "ip_address", "enabled_only"] or _u(args.defaults[0]) != "False":
            raise ValueError("Node.ip_is_network_interface: unexpected signature")
        loop = [n for n in _body(nf) if isinstance(n, ast.For)]
        if len(loop) != 1 or _u(loop[0].iter) != "self.network_interface.values()":
            raise ValueError("Node.ip_is_network_interface: unexpected loop")
        if not any(isinstance(n, ast.If) and _u(n.test) == "network_interface.ip_address == ip_address" for n in ast.walk(loop[0])):
            raise ValueError("Node.ip_is_network_interface: address comparison not found")
        return True
    raise ValueError(f"NIC.receive_frame: unrecognised unicast acceptance test `{cond}`")


def _send_guard_first() -> bool:
    ok = True
    for rel, cls in ((BASE, "WiredNetworkInterface"), (SWI, "SwitchPort")):
        b = _body(find_method(class_def(parse(rel), cls), "send_frame"))
        st = b[0]
        ok &= (isinstance(st, ast.If) and _u(st.test) == "not self.enabled" and _u(st.body[0]) == "return False")
        # the link is used only after the guard
        if not ok:
            raise ValueError(f"{cls}.send_frame does not start with `if not self.enabled: return False`")
    return ok


def _power_guards() -> List[Tuple[str, bool]]:
    res = []
    for label, rel, cls in (("router", RT, "Router"), ("firewall", FW, "Firewall"), ("switch", SWI, "Switch"), ("host", HOST, "HostNode")):
        b = _body(find_method(class_def(parse(rel), cls), "receive_frame"))
        res.append((label, bool(b) and _power_guard(b[0])))
    return res


def _session_stamps() -> bool:
    fn = find_method(class_def(parse(SESS), "SessionManager"), "receive_payload_from_software_manager")
    frames = [n for n in ast.walk(fn) if isinstance(n, ast.Call) and _u(n.func) == "Frame"]
    if len(frames) != 1:
        raise ValueError("receive_payload_from_software_manager: expected exactly one Frame(...) construction")
    kw = {k.arg: k.value for k in frames[0].keywords}
    eth = {k.arg: _u(k.value) for k in kw["ethernet"].keywords}
    ip = {k.arg: _u(k.value) for k in kw["ip"].keywords}
    ok = (eth.get("src_mac_addr") == "outbound_network_interface.mac_address"
          and ip.get("src_ip_address") == "outbound_network_interface.ip_address")
    last = _body(fn)[-1]
    ok &= isinstance(last, ast.Return) and _u(last.value) == "outbound_network_interface.send_frame(frame)"
    sends = [n for n in ast.walk(fn) if isinstance(n, ast.Call) and isinstance(n.func, ast.Attribute) and n.func.attr == "send_frame"]
    ok &= len(sends) == 1
    return ok


def _software_scan() -> Tuple[List[str], List[str]]:
    sites, reaches = [], []
    root = SRC / "simulator" / "system"
    for f in sorted(root.rglob("*.py")):
        rel = str(f.relative_to(root))
        tree = ast.parse(f.read_text())
        for n in ast.walk(tree):
            if isinstance(n, ast.Call) and isinstance(n.func, ast.Attribute) and n.func.attr in ("send_frame", "transmit_frame"):
                if rel not in sites:
                    sites.append(rel)
            if isinstance(n, ast.Attribute):
                if n.attr in ("get_node_by_hostname", "get_nic_by_uuid", "airspace"):
                    reaches.append(f"{rel}:{n.lineno}:{n.attr}")
                if n.attr == "parent" and isinstance(n.value, ast.Attribute) and n.value.attr == "parent":
                    reaches.append(f"{rel}:{n.lineno}:parent.parent")
                if n.attr in ("nodes", "links") and isinstance(n.value, ast.Attribute) and n.value.attr == "network":
                    reaches.append(f"{rel}:{n.lineno}:network.{n.attr}")
                if n.attr in ("_connected_link", "endpoint_a", "endpoint_b"):
                    reaches.append(f"{rel}:{n.lineno}:{n.attr}")
    return sites, reaches


TO_SESSION_ATOMS = {
    "self.ip_is_router_interface(dst_ip_address)": "own",
    "self.ip_is_router_interface(frame.ip.dst_ip_address)": "own",
    "frame.icmp": "icmp",
    "dst_port in self.software_manager.get_open_ports()": "open",
}


def _bexpr(e: ast.expr) -> str:
    """A Python boolean expression over the three facts `check_send_frame_to_session_manager` reads, as a Lean `BExpr`
    term.  The tree is Python's own parse, so operator precedence is whatever Python's is."""
    if isinstance(e, ast.BoolOp):
        ctor = ".and" if isinstance(e.op, ast.And) else ".or"
        parts = [_bexpr(v) for v in e.values]
        out = parts[-1]
        for p in reversed(parts[:-1]):
            out = f"({ctor} {p} {out})"
        return out
    if isinstance(e, ast.UnaryOp) and isinstance(e.op, ast.Not):
        return f"(.not {_bexpr(e.operand)})"
    if isinstance(e, ast.Call) and _u(e.func) == "bool" and len(e.args) == 1 and not e.keywords:
        return _bexpr(e.args[0])
    if isinstance(e, ast.Constant) and isinstance(e.value, bool):
        return "(.const true)" if e.value else "(.const false)"
    src = _u(e)
    if src in TO_SESSION_ATOMS:
        return f'(.atom "{TO_SESSION_ATOMS[src]}")'
    raise ValueError(f"check_send_frame_to_session_manager: unrecognised condition `{src}`")


def _to_session_expr() -> str:
    """`Router.check_send_frame_to_session_manager` (inherited unchanged by Firewall): the decision as a boolean expression
    over own = "destination address is one of my interfaces' (enabled or not)", icmp = "the frame carries an ICMP packet",
    open = "its TCP/UDP destination port is in get_open_ports()".  Accepted statement shapes: the local bindings of
    dst_ip_address / dst_port, then `if E: return True` … `return False`, or `return E`, or `return bool(E)`."""
    tree = parse(RT)
    r = class_def(tree, "Router")
    fw = class_def(parse(FW), "Firewall")
    if any(isinstance(n, ast.FunctionDef) and n.name == "check_send_frame_to_session_manager" for n in fw.body):
        raise ValueError("Firewall overrides check_send_frame_to_session_manager")
    b = _body(find_method(r, "check_send_frame_to_session_manager"))
    want_head = ["dst_ip_address = frame.ip.dst_ip_address", "dst_port = None"]
    if [_u(x) for x in b[:2]] != want_head:
        raise ValueError("check_send_frame_to_session_manager: unrecognised local bindings")
    sel = b[2]
    ok = (isinstance(sel, ast.If) and _u(sel.test) == "frame.ip.protocol == PROTOCOL_LOOKUP['TCP']"
          and [_u(x) for x in sel.body] == ["dst_port = frame.tcp.dst_port"] and len(sel.orelse) == 1
          and isinstance(sel.orelse[0], ast.If) and _u(sel.orelse[0].test) == "frame.ip.protocol == PROTOCOL_LOOKUP['UDP']"
          and [_u(x) for x in sel.orelse[0].body] == ["dst_port = frame.udp.dst_port"] and not sel.orelse[0].orelse)
    if not ok:
        raise ValueError("check_send_frame_to_session_manager: unrecognised dst_port selection")
    rest = b[3:]
    # `ip_is_router_interface(ip)` must compare with every interface's address, enabled or not, by default
    nf = find_method(r, "ip_is_router_interface")
    if [a.arg for a in nf.args.args] != ["self", "ip_address", "enabled_only"] or _u(nf.args.defaults[0]) != "False":
        raise ValueError("Router.ip_is_router_interface: unexpected signature")
    if len(rest) == 2 and isinstance(rest[0], ast.If) and not rest[0].orelse and [_u(x) for x in rest[0].body] == ["return True"] \
            and _u(rest[1]) == "return False":
        return _bexpr(rest[0].test)
    if len(rest) == 1 and isinstance(rest[0], ast.Return) and rest[0].value is not None:
        return _bexpr(rest[0].value)
    raise ValueError("check_send_frame_to_session_manager: unrecognised return shape")


def _dmz_broadcast_drop() -> bool:
    """Does the else-branch of `_process_dmz_outbound_frame` (frame not for the firewall's own software) start with
    `if frame.is_broadcast: return`, i.e. before any look-up?"""
    fw = class_def(parse(FW), "Firewall")
    fn = find_method(fw, "_process_dmz_outbound_frame")
    branch = [s for s in _body(fn) if isinstance(s, ast.If) and _u(s.test) == "self.check_send_frame_to_session_manager(frame)"]
    if len(branch) != 1:
        raise ValueError("_process_dmz_outbound_frame: session branch not found")
    els = [s for s in branch[0].orelse if not _is_log(s)]
    if not els:
        raise ValueError("_process_dmz_outbound_frame: empty else branch")
    first = els[0]
    drop = (isinstance(first, ast.If) and _u(first.test) == "frame.is_broadcast" and not first.orelse
            and [_u(x) for x in first.body if not _is_log(x)] == ["return"])
    if not drop:
        # no drop: then the first statement must be the look-up (the shape before the repair)
        if not _u(first).startswith("outbound_nic = self.software_manager.arp.get_arp_cache_network_interface("):
            raise ValueError("_process_dmz_outbound_frame: unrecognised first statement of the else branch")
    return drop


def _lean_str_list(xs: List[str]) -> str:
    return "[" + ", ".join('"' + x + '"' for x in xs) + "]"


def emit() -> str:
    entry_acl, entry_calls, dispatch, verdict_first = _firewall()
    order, needs_arp = _router_order()
    sites, reaches = _software_scan()
    pg = _power_guards()
    lb = lambda b: "true" if b else "false"  # noqa: E731
    return f"""namespace Primaite.Gen.Filter
/-- firewall entry point ↦ the rule list it asks first thing (`self.<x>_acl.is_permitted`) -/
def entryAcl : List (String × String) := [{", ".join(f'("{a}", "{b}")' for a, b in entry_acl)}]
/-- firewall entry point ↦ side-effecting calls after the verdict, in source order -/
def entryCalls : List (String × List String) := [{", ".join(f'("{a}", {_lean_str_list(b)})' for a, b in entry_calls)}]
/-- `Firewall.receive_frame`: arrival port id ↦ entry point -/
def portDispatch : List (Nat × String) := [{", ".join(f'({p}, "{e}")' for p, e in dispatch)}]
/-- every entry point starts with the verdict and returns on DENY before anything else -/
def verdictFirst : Bool := {lb(verdict_first)}
/-- branch structure of each entry point after the DENY return -/
def entryShape : List (String × String) := [{", ".join(f'("{a}", "{b}")' for a, b in _entry_shapes())}]
/-- `_process_dmz_outbound_frame` drops a layer-2 broadcast before the look-ups -/
def dmzOutDropsBroadcast : Bool := {lb(_dmz_broadcast_drop())}
/-- boolean expressions over named facts (Python's own parse of the source expression) -/
inductive BExpr where
  | atom (name : String) | const (b : Bool) | and (a b : BExpr) | or (a b : BExpr) | not (a : BExpr)
deriving Repr
/-- `Router.check_send_frame_to_session_manager` (inherited by `Firewall`): own = destination address is one of the device's
interface addresses, icmp = the frame carries an ICMP packet, open = TCP/UDP destination port in `get_open_ports()` -/
def toSessionExpr : BExpr := {_to_session_expr()}
/-- `Router.receive_frame`, statement by statement -/
def routerOrder : List String := {_lean_str_list(order)}
/-- `Router.subject_to_acl` exempts only frames whose payload is an `ARPPacket` -/
def exemptNeedsArpPayload : Bool := {lb(needs_arp)}
def arpPort : Nat := {_arp_port()}
def nicOrder : List String := {_lean_str_list(_iface_order(HOST, "NIC"))}
def switchPortOrder : List String := {_lean_str_list(_iface_order(SWI, "SwitchPort"))}
def routerIfOrder : List String := {_lean_str_list(_iface_order(RT, "RouterInterface"))}
/-- a host NIC accepts a unicast frame only if it is for its MAC and for an IP address of the host -/
def nicUnicastNeedsOwnIp : Bool := {lb(_nic_accept())}
/-- `send_frame` of wired interfaces and switch ports starts with `if not self.enabled: return False` -/
def sendGuardFirst : Bool := {lb(_send_guard_first())}
/-- does `<Class>.receive_frame` start with `if self.operating_state != ON: return`? -/
def powerGuard : List (String × Bool) := [{", ".join(f'("{a}", {lb(b)})' for a, b in pg)}]
def sessionStampsOwnSrc : Bool := {lb(_session_stamps())}
/-- files under simulator/system that call `send_frame` / `transmit_frame` -/
def softwareSendFrameSites : List String := {_lean_str_list(sites)}
/-- attribute accesses under simulator/system that reach past the own node (other nodes, links, the network) -/
def crossNodeReaches : List String := {_lean_str_list(reaches)}
end Primaite.Gen.Filter
"""
