"""E7/E8/E1 for the software layer (C13): lifecycle guard tables, request validators, countdown idioms, the shipped-class
table (name, kind, port, protocol, receive()-guard, constructor quirks, apply_timestep chain), the writers of
`SoftwareManager._software_class_to_name_map`, and the service/application rows of docs/source/action_masking.rst.

Pure `ast` over the source text; never imports primaite.  Strict: an unrecognised shape raises.
"""
from __future__ import annotations

import ast
import re
from typing import Dict, List, Optional, Tuple

from harness.extract.util import class_def, find_method, parse
from harness.lib.core import REPO, SRC

GEN_NAME = "Software"

SVC = "simulator/system/services/service.py"
APP = "simulator/system/applications/application.py"
SW = "simulator/system/software.py"
SM = "simulator/system/core/software_manager.py"

PORTS_FILE = "utils/validation/port.py"
PROTO_CODE = {"NONE": 0, "TCP": 1, "UDP": 2, "ICMP": 3}


# ------------------------------------------------------------------------------------------------ small helpers
def lean_ctor(s: str) -> str:
    """RUNNING -> running, SHUTTING_DOWN -> shuttingDown"""
    parts = s.lower().split("_")
    return parts[0] + "".join(p.capitalize() for p in parts[1:])


def enum_members(rel: str, name: str) -> List[Tuple[str, int]]:
    cls = class_def(parse(rel), name)
    out = []
    for st in cls.body:
        if isinstance(st, ast.Assign) and len(st.targets) == 1 and isinstance(st.targets[0], ast.Name):
            if not (isinstance(st.value, ast.Constant) and isinstance(st.value.value, int)):
                raise ValueError(f"{name}.{st.targets[0].id}: value is not an int literal")
            out.append((st.targets[0].id, st.value.value))
    if not out:
        raise ValueError(f"enum {name} has no members")
    return out


def field_default(cls: ast.ClassDef, field: str):
    for st in cls.body:
        if isinstance(st, ast.AnnAssign) and ast.unparse(st.target) == field:
            if isinstance(st.value, ast.Constant):
                return st.value.value
            raise ValueError(f"{cls.name}.{field}: default is not a literal")
    raise ValueError(f"{cls.name}.{field} not found")


def body_no_doc(fn: ast.FunctionDef) -> List[ast.stmt]:
    b = list(fn.body)
    if b and isinstance(b[0], ast.Expr) and isinstance(b[0].value, ast.Constant) and isinstance(b[0].value.value, str):
        b = b[1:]
    return b


def state_names(e: ast.AST, enum: str) -> List[str]:
    """`Enum.A` or `[Enum.A, Enum.B]` -> ['A','B']"""
    if isinstance(e, (ast.List, ast.Tuple, ast.Set)):
        out = []
        for x in e.elts:
            out += state_names(x, enum)
        return out
    s = ast.unparse(e)
    if s.startswith(enum + "."):
        return [s[len(enum) + 1:]]
    if s.startswith("self.operating_state."):  # `self.operating_state.RUNNING` (member access through an instance)
        return [s[len("self.operating_state."):]]
    raise ValueError(f"unrecognised state expression {s}")


def is_log(st: ast.stmt) -> bool:
    return (isinstance(st, ast.Expr) and isinstance(st.value, ast.Call)
            and re.match(r"(self\.sys_log|_LOGGER|self\.software_manager\.node\.sys_log)\.", ast.unparse(st.value.func)) is not None)


# ------------------------------------------------------------------------------------------------ method guard tables
def method_guard(cls: ast.ClassDef, meth: str, enum: str) -> dict:
    """Shape: [optional `if not super()._can_perform_action(): return …`]  `if self.operating_state (in [..] | == X): … self.operating_state = T …`
    or an unconditional `self.operating_state = T`.  Returns needs_node_on, sources (None = any), target, and the
    return value on the accepting / refusing path ('True' / 'False' / 'None')."""
    fn = find_method(cls, meth)
    body = body_no_doc(fn)
    needs_on = False
    if body and isinstance(body[0], ast.If) and ast.unparse(body[0].test) == "not super()._can_perform_action()":
        needs_on = True
        body = body[1:]
    # super().install() in Application.install
    body = [st for st in body if not (isinstance(st, ast.Expr) and ast.unparse(st.value) in ("super().install()",)) and not is_log(st)]
    if not body:
        raise ValueError(f"{cls.name}.{meth}: empty body")
    first = body[0]

    def target_of(stmts) -> Tuple[str, Optional[str]]:
        tgt, cd = None, None
        for st in stmts:
            if isinstance(st, ast.Assign) and ast.unparse(st.targets[0]) == "self.operating_state":
                tgt = state_names(st.value, enum)[0]
            elif isinstance(st, ast.Assign) and ast.unparse(st.targets[0]) in ("self.restart_countdown", "self.install_countdown"):
                cd = ast.unparse(st.value)
        if tgt is None:
            raise ValueError(f"{cls.name}.{meth}: no assignment to operating_state")
        return tgt, cd

    def ret_of(stmts) -> str:
        for st in stmts:
            if isinstance(st, ast.Return):
                return ast.unparse(st.value) if st.value is not None else "None"
        return "None"

    if isinstance(first, ast.If):
        t = first.test
        if not (isinstance(t, ast.Compare) and ast.unparse(t.left) == "self.operating_state" and len(t.ops) == 1
                and isinstance(t.ops[0], (ast.In, ast.Eq, ast.Is))):
            raise ValueError(f"{cls.name}.{meth}: unrecognised guard {ast.unparse(t)}")
        if first.orelse:
            raise ValueError(f"{cls.name}.{meth}: guard has an else branch")
        sources = state_names(t.comparators[0], enum)
        tgt, cd = target_of(first.body)
        acc = ret_of(first.body)
        rest = body[1:]
        ref = ret_of(rest)
        if acc == "None":
            acc = ref  # falls through to the trailing return
        return {"on": needs_on, "sources": sources, "target": tgt, "cd": cd, "acc": acc, "ref": ref}
    tgt, cd = target_of(body)
    return {"on": needs_on, "sources": None, "target": tgt, "cd": cd, "acc": ret_of(body), "ref": ret_of(body)}


def request_table(cls: ast.ClassDef, enum: str, owner: str) -> List[Tuple[str, Optional[str], str]]:
    """`rm.add_request("name", RequestType(func=lambda …: RequestResponse.from_bool(self.m()), validator=v))` → (name, state|None, m)"""
    fn = find_method(cls, "_init_request_manager")
    vals: Dict[str, str] = {}
    local_handlers: Dict[str, str] = {}
    out = []
    for st in body_no_doc(fn):
        if isinstance(st, ast.FunctionDef):
            # a local handler.  The one shape accepted: `self.run()` then
            # `return RequestResponse.from_bool(self.operating_state == <Enum>.RUNNING)`  (Application's generic `execute`)
            b = body_no_doc(st)
            if (len(b) == 2 and isinstance(b[0], ast.Expr) and ast.unparse(b[0].value) == "self.run()"
                    and isinstance(b[1], ast.Return)
                    and ast.unparse(b[1].value) == f"RequestResponse.from_bool(self.operating_state == {enum}.RUNNING)"):
                local_handlers[st.name] = "run-then-RUNNING"
                continue
            raise ValueError(f"{owner}._init_request_manager: unrecognised local handler {st.name}")
        if isinstance(st, ast.Assign) and isinstance(st.value, ast.Call) and ast.unparse(st.value.func) == f"{owner}._StateValidator":
            kw = {k.arg: k.value for k in st.value.keywords}
            vals[ast.unparse(st.targets[0])] = state_names(kw["state"], enum)[0]
        elif isinstance(st, ast.Expr) and isinstance(st.value, ast.Call) and ast.unparse(st.value.func) == "rm.add_request":
            call = st.value
            args = list(call.args)
            kws = {k.arg: k.value for k in call.keywords}
            name = args[0] if args else kws.get("name")
            rt = args[1] if len(args) > 1 else kws.get("request_type")
            if not (isinstance(name, ast.Constant) and isinstance(rt, ast.Call)):
                raise ValueError(f"{owner}._init_request_manager: unrecognised add_request {ast.unparse(call)}")
            rkw = {k.arg: k.value for k in rt.keywords}
            lam = rkw.get("func")
            if isinstance(lam, ast.Name) and lam.id in local_handlers:
                meth = local_handlers[lam.id]
            else:
                m = re.fullmatch(r"lambda request, context: RequestResponse\.from_bool\(self\.(\w+)\((.*)\)\)", ast.unparse(lam))
                if not m:
                    raise ValueError(f"{owner} route {name.value}: unrecognised handler {ast.unparse(lam)}")
                meth = m.group(1) if not m.group(2) else f"{m.group(1)}({m.group(2)})"
            v = rkw.get("validator")
            state = None
            if v is not None:
                if ast.unparse(v) not in vals:
                    raise ValueError(f"{owner} route {name.value}: unknown validator {ast.unparse(v)}")
                state = vals[ast.unparse(v)]
            out.append((name.value, state, meth))
        elif isinstance(st, (ast.Assign, ast.Return)):
            continue
        else:
            raise ValueError(f"{owner}._init_request_manager: unrecognised statement {ast.unparse(st)[:80]}")
    return out


# ------------------------------------------------------------------------------------------------ countdown idioms
def countdown_idiom(cls: ast.ClassDef, enum: str, state: str, cd: str) -> str:
    """'test-then-decrement' (Service restart) or 'decrement-then-test' (Application install)."""
    fn = find_method(cls, "apply_timestep")
    body = body_no_doc(fn)
    if not (body and ast.unparse(body[0]).startswith("super().apply_timestep(")):
        raise ValueError(f"{cls.name}.apply_timestep does not start with super().apply_timestep")
    blk = body[1]
    if not (isinstance(blk, ast.If) and state_names(blk.test.comparators[0], enum) == [state] and len(body) == 2):
        raise ValueError(f"{cls.name}.apply_timestep: unrecognised shape")
    kinds = []
    for st in blk.body:
        if isinstance(st, ast.AugAssign) and ast.unparse(st.target) == f"self.{cd}" and isinstance(st.op, ast.Sub) and ast.unparse(st.value) == "1":
            kinds.append("dec")
        elif isinstance(st, ast.If) and ast.unparse(st.test) == f"self.{cd} <= 0":
            tg = [s for s in st.body if isinstance(s, ast.Assign) and ast.unparse(s.targets[0]) == "self.operating_state"]
            if not tg or state_names(tg[0].value, enum) != ["RUNNING"]:
                raise ValueError(f"{cls.name}.apply_timestep: completion does not set RUNNING")
            kinds.append("test")
        else:
            raise ValueError(f"{cls.name}.apply_timestep: unrecognised statement {ast.unparse(st)[:60]}")
    if kinds == ["test", "dec"]:
        return "test-then-decrement"
    if kinds == ["dec", "test"]:
        return "decrement-then-test"
    raise ValueError(f"{cls.name}.apply_timestep: idiom {kinds}")


# ------------------------------------------------------------------------------------------------ class table
class Classes:
    """Every class under simulator/system and simulator/network/hardware, by name (AST only)."""

    def __init__(self):
        self.defs: Dict[str, ast.ClassDef] = {}
        self.file: Dict[str, str] = {}
        self.dups: set = set()
        for root in ("simulator/system", "simulator/network/hardware"):
            for f in sorted((SRC / root).rglob("*.py")):
                rel = str(f.relative_to(SRC))
                tree = ast.parse(f.read_text())
                for n in tree.body:
                    if isinstance(n, ast.ClassDef):
                        if n.name in self.defs:
                            self.dups.add(n.name)  # tolerated unless it is a software class (checked in class_table)
                            continue
                        self.defs[n.name] = n
                        self.file[n.name] = rel

    def bases(self, name: str) -> List[str]:
        return [ast.unparse(b) for b in self.defs[name].bases if ast.unparse(b) in self.defs]

    def mro(self, name: str) -> List[str]:
        """left-to-right depth-first, first occurrence kept late enough for our single-inheritance-plus-ABC hierarchies"""
        out = [name]
        for b in self.bases(name):
            for x in self.mro(b):
                if x not in out:
                    out.append(x)
        return out

    def discriminator(self, name: str) -> Optional[str]:
        for k in self.defs[name].keywords:
            if k.arg == "discriminator":
                return k.value.value
        return None

    def resolve(self, name: str, meth: str, after: Optional[str] = None) -> Optional[Tuple[str, ast.FunctionDef]]:
        chain = self.mro(name)
        if after is not None:
            chain = chain[chain.index(after) + 1:]
        for c in chain:
            for st in self.defs[c].body:
                if isinstance(st, ast.FunctionDef) and st.name == meth:
                    return c, st
        return None

    def kind(self, name: str) -> Optional[str]:
        m = self.mro(name)
        if "Service" in m:
            return "service"
        if "Application" in m:
            return "application"
        return None

    def init_kwargs(self, name: str) -> Dict[str, ast.AST]:
        """`kwargs["k"] = v` assignments in the __init__ chain (most derived wins)."""
        out: Dict[str, ast.AST] = {}
        for c in self.mro(name):
            r = [st for st in self.defs[c].body if isinstance(st, ast.FunctionDef) and st.name == "__init__"]
            if not r:
                continue
            for st in ast.walk(r[0]):
                if isinstance(st, ast.Assign) and isinstance(st.targets[0], ast.Subscript) and ast.unparse(st.targets[0].value) == "kwargs":
                    k = st.targets[0].slice.value
                    out.setdefault(k, st.value)
                elif isinstance(st, ast.Assign) and ast.unparse(st.targets[0]) == "self.name" and isinstance(st.value, ast.Constant):
                    out.setdefault("name", st.value)  # `self.name = "dos-bot"` after super().__init__
        return out

    def ctor_calls(self, name: str, meth: str) -> bool:
        """does the __init__ the class uses call `self.<meth>()` (top level, after super().__init__)?"""
        r = self.resolve(name, "__init__")
        if r is None:
            return False
        return any(isinstance(st, ast.Expr) and ast.unparse(st.value) == f"self.{meth}()" for st in r[1].body)

    # -- receive() running-guard
    def guard_kind(self, name: str, after: Optional[str] = None, depth: int = 0) -> str:
        """'first' | 'after-typecheck' | 'late' | 'none'   (see module docstring of the C13 check)"""
        if depth > 6:
            raise ValueError("receive chain too deep")
        r = self.resolve(name, "receive", after)
        if r is None:
            raise ValueError(f"{name}: no receive()")
        owner, fn = r
        seen_effect = False
        seen_type = False
        for st in body_no_doc(fn):
            s = ast.unparse(st)
            g = None
            if isinstance(st, ast.If) and not st.orelse and ast.unparse(st.test) == "not self._can_perform_action()" and self._returns_false(st.body):
                g = True
            elif isinstance(st, ast.If) and not st.orelse and re.fullmatch(r"not super\(\)\.receive\(.*\)", ast.unparse(st.test), re.S) and self._returns_false(st.body):
                g = self.guard_kind(name, owner, depth + 1) in ("first", "after-typecheck")
            elif isinstance(st, ast.Return) and st.value is not None and re.fullmatch(r"super\(\)\.receive\(.*\)", ast.unparse(st.value), re.S):
                g = self.guard_kind(name, owner, depth + 1) in ("first", "after-typecheck")
                if not g:
                    return "none"
            elif isinstance(st, ast.Return) and st.value is not None and ast.unparse(st.value) == "self._can_perform_action()":
                g = True
            if g:
                return "late" if seen_effect else ("after-typecheck" if seen_type else "first")
            if isinstance(st, ast.If) and not st.orelse and re.fullmatch(r"not \(?isinstance\(payload, \w+\)\)?", ast.unparse(st.test)) \
                    and all(is_log(x) or (isinstance(x, ast.Return) and ast.unparse(x.value) == "False") for x in st.body):
                seen_type = True
                continue
            if is_log(st) or (isinstance(st, ast.Expr) and isinstance(st.value, ast.Constant)):
                continue
            if isinstance(st, ast.AnnAssign) and s.startswith("payload:"):
                continue
            if isinstance(st, ast.Assign) and all(isinstance(t, ast.Name) for t in st.targets) and \
                    not any(isinstance(x, ast.Call) for x in ast.walk(st.value)):
                continue  # a local set to a literal (`result = {...}`)
            seen_effect = True
        return "none"

    @staticmethod
    def _returns_false(stmts) -> bool:
        return any(isinstance(x, ast.Return) and x.value is not None and ast.unparse(x.value) == "False" for x in stmts) and \
            all(is_log(x) or isinstance(x, ast.Return) for x in stmts)

    # -- apply_timestep chain reaches the base class ON EVERY PATH
    def ticks_reach_base(self, name: str, base: str) -> bool:
        """every `apply_timestep` between the class and `base` calls `super().apply_timestep(…)` on every path through its body
        (an early `return` in front of the call — or a call that only one branch makes — freezes the restart / install / fix
        countdown of that class in exactly the states the guard tests)"""
        cur = None
        while True:
            r = self.resolve(name, "apply_timestep", cur)
            if r is None:
                return False
            owner, fn = r
            if owner == base:
                return True
            if super_call_on_every_path(fn, "apply_timestep") != "yes":
                return False
            cur = owner


def _is_super_call(st: ast.stmt, meth: str) -> bool:
    return isinstance(st, (ast.Expr, ast.Return)) and st.value is not None and isinstance(st.value, ast.Call) \
        and ast.unparse(st.value.func) == f"super().{meth}"


def _path_scan(stmts: List[ast.stmt], meth: str) -> str:
    """'yes' = every path through `stmts` has made the super call when it leaves them; 'no' = some path leaves the FUNCTION
    (return / raise) without it, or the call sits where it may be skipped (loop, try); 'falls' = paths fall off the end
    of `stmts` without the call and without leaving the function"""
    for i, st in enumerate(stmts):
        if _is_super_call(st, meth):
            return "yes"
        if isinstance(st, (ast.Return, ast.Raise)):
            return "no"
        if isinstance(st, ast.If):
            a, b = _path_scan(st.body, meth), _path_scan(st.orelse, meth)
            if a == "no" or b == "no":
                return "no"
            if a == "yes" and b == "yes":
                return "yes"
            continue  # at least one branch falls through: the rest of the list has to make the call
        if isinstance(st, ast.With):
            r = _path_scan(st.body, meth)
            if r != "falls":
                return r
            continue
        if isinstance(st, (ast.For, ast.While, ast.Try, ast.Match)) or (hasattr(ast, "TryStar") and isinstance(st, getattr(ast, "TryStar"))):
            # a call inside a loop / try may be skipped; an exit inside leaves without the call
            if any(isinstance(x, (ast.Return, ast.Raise)) for x in ast.walk(st)):
                return "no"
            continue
    return "falls"


def super_call_on_every_path(fn: ast.FunctionDef, meth: str) -> str:
    r = _path_scan(body_no_doc(fn), meth)
    return "yes" if r == "yes" else "no"


def tick_overrides_skipping_super() -> List[str]:
    """`Class.apply_timestep` definitions below Software (whole simulator/system tree, abstract bases included) in which
    `super().apply_timestep(…)` is not reached on every path"""
    cs = Classes()
    bad = []
    for name in sorted(cs.defs):
        if name in ("Software",) or "Software" not in cs.mro(name):
            continue
        for st in cs.defs[name].body:
            if isinstance(st, ast.FunctionDef) and st.name == "apply_timestep" and super_call_on_every_path(st, "apply_timestep") != "yes":
                bad.append(f"{name}.apply_timestep")
    return bad


def port_lookup() -> Dict[str, int]:
    tree = parse(PORTS_FILE)
    for st in tree.body:
        if isinstance(st, ast.AnnAssign) and ast.unparse(st.target) == "PORT_LOOKUP":
            return {k.arg: ast.literal_eval(k.value) for k in st.value.keywords}
    raise ValueError("PORT_LOOKUP not found")


def class_table() -> List[dict]:
    cs = Classes()
    ports = port_lookup()
    rows = []
    for name in sorted(cs.defs):
        kind = cs.kind(name)
        if kind is None or name in ("Service", "Application"):
            continue
        if set(cs.mro(name)) & cs.dups:
            raise ValueError(f"software class {name} has an ambiguous class name in its hierarchy")
        kw = cs.init_kwargs(name)
        if "name" not in kw:
            continue  # abstract bases (FTPServiceABC, AbstractC2)
        nm = kw["name"].value
        p, pr = kw.get("port"), kw.get("protocol")
        m = re.fullmatch(r"PORT_LOOKUP\['(\w+)'\]", ast.unparse(p)) if p is not None else None
        m2 = re.fullmatch(r"PROTOCOL_LOOKUP\['(\w+)'\]", ast.unparse(pr)) if pr is not None else None
        if not m or not m2 or m.group(1) not in ports or m2.group(1) not in PROTO_CODE:
            raise ValueError(f"{name}: unrecognised port/protocol {ast.unparse(p) if p else None} / {ast.unparse(pr) if pr else None}")
        rows.append({
            "cls": name, "file": cs.file[name], "name": nm, "kind": kind, "disc": cs.discriminator(name),
            "port": ports[m.group(1)], "proto": PROTO_CODE[m2.group(1)],
            "guard": cs.guard_kind(name),
            "ctor_runs": cs.ctor_calls(name, "run") if kind == "application" else cs.ctor_calls(name, "start"),
            "ticks": cs.ticks_reach_base(name, "Service" if kind == "service" else "Application"),
            "overrides": sorted(m_ for m_ in ("start", "stop", "pause", "resume", "restart", "disable", "enable", "close", "install",
                                              "_can_perform_action")
                                if (r := cs.resolve(name, m_)) is not None and r[0] not in ("Service", "Application", "Software", "IOSoftware")
                                and not _only_super(r[1], m_)),
            "run_overrides_ok": _run_ok(cs, name) if kind == "application" else True,
            "base_routes": _base_routes(cs, name),
            "generic_execute": _generic_execute(cs, name) if kind == "application" else True,
        })
    return rows


def _only_super(fn: ast.FunctionDef, meth: str) -> bool:
    """an override that only does class-specific set-up around `super().<meth>()` without touching operating_state"""
    src = ast.unparse(fn)
    return "operating_state" not in src and (f"super().{meth}(" in src or meth in ("install",))


def _generic_execute(cs: Classes, name: str) -> bool:
    """no `_init_request_manager` below Application registers a route called `execute` (so Application's generic one stays)"""
    cur = None
    while True:
        r = cs.resolve(name, "_init_request_manager", cur)
        if r is None:
            return False
        owner, fn = r
        if owner == "Application":
            return True
        for n in ast.walk(fn):
            if isinstance(n, ast.Call) and ast.unparse(n.func).endswith(".add_request"):
                a0 = n.args[0] if n.args else next((k.value for k in n.keywords if k.arg == "name"), None)
                if isinstance(a0, ast.Constant) and a0.value == "execute":
                    return False
        cur = owner


def _base_routes(cs: Classes, name: str) -> bool:
    """every `_init_request_manager` override down to Service/Application starts from `super()._init_request_manager()`"""
    cur = None
    while True:
        r = cs.resolve(name, "_init_request_manager", cur)
        if r is None:
            return False
        owner, fn = r
        if owner in ("Service", "Application"):
            return True
        if not any(isinstance(n, ast.Call) and ast.unparse(n.func) == "super()._init_request_manager" for n in ast.walk(fn)):
            return False
        cur = owner


def _run_ok(cs: Classes, name: str) -> bool:
    """every `run` override calls `super().run()` first and never writes operating_state itself"""
    cur = None
    while True:
        r = cs.resolve(name, "run", cur)
        if r is None:
            return False
        owner, fn = r
        if owner == "Application":
            return True
        b = body_no_doc(fn)
        if not b or ast.unparse(b[0]) != "super().run()" or "operating_state =" in ast.unparse(fn):
            return False
        cur = owner


# ------------------------------------------------------------------------------------------------ software manager
def class_map_writers() -> List[str]:
    """statements that add a key to `_software_class_to_name_map` (subscript assignment, update, setdefault), as
    `<file>:<function>:<statement>` (no line numbers: they move with unrelated edits)"""
    out = []
    for f in sorted(SRC.rglob("*.py")):
        src = f.read_text()
        if "_software_class_to_name_map" not in src:
            continue
        tree = ast.parse(src)
        owner = {}
        for fn in ast.walk(tree):
            if isinstance(fn, (ast.FunctionDef, ast.AsyncFunctionDef)):
                for n in ast.walk(fn):
                    owner.setdefault(id(n), fn.name)
        for n in ast.walk(tree):
            if isinstance(n, (ast.Assign, ast.AugAssign, ast.AnnAssign)):
                tgts = n.targets if isinstance(n, ast.Assign) else [n.target]
                for t in tgts:
                    if isinstance(t, ast.Subscript) and "_software_class_to_name_map" in ast.unparse(t.value):
                        out.append(f"{f.relative_to(SRC)}:{owner.get(id(n), '?')}:{ast.unparse(n)}")
            if isinstance(n, ast.Call) and re.search(r"_software_class_to_name_map\.(update|setdefault|__setitem__)$", ast.unparse(n.func)):
                out.append(f"{f.relative_to(SRC)}:{owner.get(id(n), '?')}:{ast.unparse(n)}")
    return out


def install_guard() -> str:
    """the test of the `if …: log; return` that opens `SoftwareManager.install` ("" when install has no such statement)"""
    fn = find_method(class_def(parse(SM), "SoftwareManager"), "install")
    b = body_no_doc(fn)
    if b and isinstance(b[0], ast.If) and not b[0].orelse and \
            all(is_log(x) or (isinstance(x, ast.Return) and x.value is None) for x in b[0].body) and \
            any(isinstance(x, ast.Return) for x in b[0].body):
        return ast.unparse(b[0].test)
    return ""


def uninstall_cleanup() -> Tuple[bool, bool]:
    """`uninstall` removes (a) the first port-table entry whose owner carries the uninstalled name, (b) the first class-map
    entry whose value is the uninstalled name — both as `for k, v in d.items(): if <test>: d.pop(k); break`"""
    fn = find_method(class_def(parse(SM), "SoftwareManager"), "uninstall")

    def has(dname: str, test: str) -> bool:
        for st in fn.body:
            if isinstance(st, ast.For) and ast.unparse(st.iter) == f"self.{dname}.items()" and ast.unparse(st.target) == "(key, value)" \
                    and len(st.body) == 1 and isinstance(st.body[0], ast.If) and not st.body[0].orelse and not st.orelse:
                inner = st.body[0]
                if ast.unparse(inner.test) == test and [ast.unparse(x) for x in inner.body] == [f"self.{dname}.pop(key)", "break"]:
                    return True
        return False
    return has("port_protocol_mapping", "value.name == software_name"), has("_software_class_to_name_map", "value == software_name")


def port_scan_delivery() -> str:
    """what `receive_payload_from_session_manager` does with a PortScanPayload: 'nmap-if-installed' (handed to software["nmap"]
    when there is one, dropped otherwise, then return) | 'nmap-unchecked' (dereferenced blindly) — anything else raises"""
    fn = find_method(class_def(parse(SM), "SoftwareManager"), "receive_payload_from_session_manager")
    b = body_no_doc(fn)
    if not (b and isinstance(b[0], ast.If) and not b[0].orelse and
            ast.unparse(b[0].test) == "payload.__class__.__name__ == 'PortScanPayload'"):
        raise ValueError("receive_payload_from_session_manager: port-scan branch not first")
    body = [ast.unparse(x) for x in b[0].body if not is_log(x)]
    call = "receive(payload=payload, session_id=session_id)"
    if body == ["nmap = self.software.get('nmap')", f"if nmap:\n    nmap.{call}", "return"]:
        return "nmap-if-installed"
    if body == [f"self.software.get('nmap').{call}", "return"]:
        return "nmap-unchecked"
    raise ValueError(f"receive_payload_from_session_manager: unrecognised port-scan branch {body}")


def ctor_loads_fixing_countdown() -> bool:
    """`Software.__init__` sets `_fixing_countdown = config.fixing_duration` when the configured starting health is FIXING"""
    fn = find_method(class_def(parse(SW), "Software"), "__init__")
    want = ["super().__init__(**kwargs)", "self.health_state_actual = self.config.starting_health_state"]
    b = [x for x in body_no_doc(fn)]
    if [ast.unparse(x) for x in b[:2]] != want:
        raise ValueError("Software.__init__: unrecognised shape")
    rest = b[2:]
    if not rest:
        return False
    if len(rest) == 1 and isinstance(rest[0], ast.If) and not rest[0].orelse and \
            ast.unparse(rest[0].test) == "self.health_state_actual == SoftwareHealthState.FIXING and self._fixing_countdown is None" and \
            [ast.unparse(x) for x in rest[0].body] == ["self._fixing_countdown = self.config.fixing_duration"]:
        return True
    raise ValueError("Software.__init__: unrecognised statements after the health assignment")


def install_order() -> List[str]:
    """the registry writes of SoftwareManager.install in source order"""
    fn = find_method(class_def(parse(SM), "SoftwareManager"), "install")
    order = []
    b = body_no_doc(fn)
    for st in b:
        # `if software.name in self.software: log; self.uninstall(software.name)` — the installed instance of that name is evicted
        if isinstance(st, ast.If) and ast.unparse(st.test) == "software.name in self.software":
            rest = [x for x in st.body if not is_log(x)]
            if st.orelse or [ast.unparse(x) for x in rest] != ["self.uninstall(software.name)"]:
                raise ValueError("install: unrecognised handling of an installed name")
            order.append((st.lineno, "evict"))
    marks = [("self.node.applications[software.uuid] = software", "applications"),
             ("self.node._application_request_manager.add_request(", "appRoute"),
             ("self.node.services[software.uuid] = software", "services"),
             ("self.node._service_request_manager.add_request(", "svcRoute"),
             ("software.start()", "start"), ("software.install()", "install"),
             ("self.software[software.name] = software", "software"),
             ("self._software_class_to_name_map[software_class] = software.name", "classMap"),
             ("self.port_protocol_mapping[software.port, software.protocol] = software", "portMap"),
             ("software.operating_state = ApplicationOperatingState.CLOSED", "forceClosed")]
    for st in ast.walk(fn):
        if isinstance(st, (ast.Assign, ast.Expr)):
            s = ast.unparse(st)
            for pat, tag in marks:
                if s.startswith(pat):
                    order.append((st.lineno, tag))
    order.sort()
    return [t for _, t in order]


def open_ports_shape() -> bool:
    """get_open_ports iterates port_protocol_mapping.values() and tests RUNNING before appending port and listen_on_ports"""
    fn = find_method(class_def(parse(SM), "SoftwareManager"), "get_open_ports")
    loop = next(n for n in ast.walk(fn) if isinstance(n, ast.For))
    if ast.unparse(loop.iter) != "self.port_protocol_mapping.values()":
        return False
    inner = loop.body[0]
    return (isinstance(inner, ast.If) and len(loop.body) == 1
            and ast.unparse(inner.test) == "software.operating_state in {ApplicationOperatingState.RUNNING, ServiceOperatingState.RUNNING}")


# ------------------------------------------------------------------------------------------------ docs
def docs_mask_rows() -> List[Tuple[str, bool, Optional[str]]]:
    """rows `node-service-*` / `node-application-*` of docs/source/action_masking.rst → (action, node_on, state|None)"""
    txt = (REPO / "docs" / "source" / "action_masking.rst").read_text()
    rows = []
    for m in re.finditer(r"^\|\s*\*\*(node-(?:service|application)-[\w-]+)\*\*\s*\|\s*(.*?)\s*\|\s*$", txt, re.M):
        act, logic = m.group(1), m.group(2)
        sents = [s.strip() for s in logic.split(".") if s.strip()]
        node_on, state = False, None
        for s in sents:
            if s == "Node is on":
                node_on = True
            else:
                mm = re.fullmatch(r"(Service|Application) is (\w+)", s)
                if not mm:
                    raise ValueError(f"docs row {act}: unrecognised condition {s!r}")
                state = mm.group(2).upper()
        rows.append((act, node_on, state))
    if len(rows) < 15:
        raise ValueError(f"only {len(rows)} service/application rows found in action_masking.rst")
    return rows


# ------------------------------------------------------------------------------------------------ emit
def _opt_state(prefix: str, s: Optional[str]) -> str:
    return "none" if s is None else f"(some {prefix}.{lean_ctor(s)})"


def emit() -> str:
    svc_cls = class_def(parse(SVC), "Service")
    app_cls = class_def(parse(APP), "Application")
    sw_cls = class_def(parse(SW), "Software")
    SE, AE, HE = "ServiceOperatingState", "ApplicationOperatingState", "SoftwareHealthState"
    svc_enum, app_enum, h_enum = enum_members(SVC, SE), enum_members(APP, AE), enum_members(SW, HE)
    L = ["import PrimaiteModel.Model.Lifecycle", "namespace Primaite.Gen.Software", "open Primaite.Lifecycle", ""]

    def enum_tbl(nm, ty, members):
        L.append(f"/-- members of `{nm}` with their values, in source order -/")
        L.append(f"def {ty}Values : List ({ty} × Nat) := [" + ", ".join(f"(.{lean_ctor(k)}, {v})" for k, v in members) + "]")
    enum_tbl(SE, "SvcState", svc_enum)
    enum_tbl(AE, "AppState", app_enum)
    enum_tbl(HE, "Health", h_enum)
    L.append("")
    L.append(f"def restartDuration : Int := {field_default(svc_cls, 'restart_duration')}")
    L.append(f"def installDuration : Int := {field_default(app_cls, 'install_duration')}")
    cfg = next(n for n in sw_cls.body if isinstance(n, ast.ClassDef) and n.name == "ConfigSchema")
    L.append(f"def fixingDuration : Int := {field_default(cfg, 'fixing_duration')}")
    init_svc = ast.unparse(next(st for st in svc_cls.body if isinstance(st, ast.AnnAssign) and ast.unparse(st.target) == 'operating_state').value)
    init_app = ast.unparse(next(st for st in app_cls.body if isinstance(st, ast.AnnAssign) and ast.unparse(st.target) == 'operating_state').value)
    L.append(f"def svcInitial : SvcState := .{lean_ctor(init_svc.split('.')[-1])}")
    L.append(f"def appInitial : AppState := .{lean_ctor(init_app.split('.')[-1])}")
    L.append("")

    # method guard tables
    L.append("/-- `(method, needs node ON, source states (none = any), target, value returned when accepted, when refused)` -/")
    rows = []
    for m in ("start", "stop", "pause", "resume", "restart", "disable", "enable"):
        g = method_guard(svc_cls, m, SE)
        src = "none" if g["sources"] is None else "(some [" + ", ".join("." + lean_ctor(x) for x in g["sources"]) + "])"
        rows.append(f'("{m}", {str(g["on"]).lower()}, {src}, SvcState.{lean_ctor(g["target"])}, "{g["acc"]}", "{g["ref"]}")')
        if m == "restart" and g["cd"] != "self.restart_duration":
            raise ValueError("restart does not load restart_countdown from restart_duration")
    L.append("def svcMethods : List (String × Bool × Option (List SvcState) × SvcState × String × String) := [\n  " + ",\n  ".join(rows) + "]")
    rows = []
    for m in ("run", "close", "install"):
        g = method_guard(app_cls, m, AE)
        src = "none" if g["sources"] is None else "(some [" + ", ".join("." + lean_ctor(x) for x in g["sources"]) + "])"
        rows.append(f'("{m}", {str(g["on"]).lower()}, {src}, AppState.{lean_ctor(g["target"])}, "{g["acc"]}", "{g["ref"]}")')
        if m == "install" and g["cd"] != "self.install_duration":
            raise ValueError("install does not load install_countdown from install_duration")
    L.append("def appMethods : List (String × Bool × Option (List AppState) × AppState × String × String) := [\n  " + ",\n  ".join(rows) + "]")
    L.append("")

    # request tables
    L.append("/-- routes of `Service._init_request_manager`: `(name, state required by the validator, method called)` -/")
    L.append("def svcRoutes : List (String × Option SvcState × String) := [\n  " +
             ",\n  ".join(f'("{n}", {_opt_state("SvcState", s)}, "{m}")' for n, s, m in request_table(svc_cls, SE, "Service")) + "]")
    L.append("def appRoutes : List (String × Option AppState × String) := [\n  " +
             ",\n  ".join(f'("{n}", {_opt_state("AppState", s)}, "{m}")' for n, s, m in request_table(app_cls, AE, "Application")) + "]")
    base_routes = request_table_software(sw_cls)
    L.append("/-- routes of `Software._init_request_manager` (no validators) -/")
    L.append("def softwareRoutes : List (String × String) := [" + ", ".join(f'("{n}", "{m}")' for n, m in base_routes) + "]")
    L.append("")

    # countdown idioms
    L.append(f'def restartIdiom : String := "{countdown_idiom(svc_cls, SE, "RESTARTING", "restart_countdown")}"')
    L.append(f'def installIdiom : String := "{countdown_idiom(app_cls, AE, "INSTALLING", "install_countdown")}"')
    L.append("")

    # class table
    tbl = class_table()
    L.append("/-- every concrete Service / Application class shipped: `(class, name, discriminator, isApp, port, proto, receive-guard, ctor runs/starts, apply_timestep reaches base, run override ok, request manager built on super's, execute is the generic one)` -/")
    L.append("def classes : List (String × String × String × Bool × Nat × Nat × String × Bool × Bool × Bool × Bool × Bool) := [\n  " + ",\n  ".join(
        f'("{r["cls"]}", "{r["name"]}", "{r["disc"] or ""}", {str(r["kind"] == "application").lower()}, {r["port"]}, {r["proto"]}, '
        f'"{r["guard"]}", {str(r["ctor_runs"]).lower()}, {str(r["ticks"]).lower()}, {str(r["run_overrides_ok"]).lower()}, {str(r["base_routes"]).lower()}, {str(r["generic_execute"]).lower()})' for r in tbl) + "]")
    L.append("/-- `apply_timestep` overrides below `Software` that do not call `super().apply_timestep(…)` on every path -/")
    L.append("def tickOverridesSkippingSuper : List String := [" + ", ".join(f'"{x}"' for x in tick_overrides_skipping_super()) + "]")
    L.append("/-- subclasses that override a lifecycle method with something other than set-up around `super()` -/")
    L.append("def lifecycleOverrides : List (String × String) := [" +
             ", ".join(f'("{r["cls"]}", "{m}")' for r in tbl for m in r["overrides"]) + "]")
    L.append("")
    L.append("/-- source locations that add a key to `SoftwareManager._software_class_to_name_map` -/")
    L.append("def classMapWriters : List String := [" + ", ".join(f'"{w}"' for w in class_map_writers()) + "]")
    L.append("/-- the test of the `if …: return` that opens `SoftwareManager.install` -/")
    L.append(f'def installGuard : String := "{install_guard()}"')
    pm_ok, cm_ok = uninstall_cleanup()
    L.append("/-- `uninstall` pops the first port-table entry owned by the uninstalled name / the first class-map entry naming it -/")
    L.append(f"def uninstallPopsPortEntryOfOwner : Bool := {str(pm_ok).lower()}")
    L.append(f"def uninstallPopsClassMapEntry : Bool := {str(cm_ok).lower()}")
    L.append("/-- what `receive_payload_from_session_manager` does with a PortScanPayload -/")
    L.append(f'def portScanDelivery : String := "{port_scan_delivery()}"')
    L.append("/-- `Software.__init__` loads `_fixing_countdown` from `config.fixing_duration` for software configured FIXING -/")
    L.append(f"def ctorLoadsFixingCountdown : Bool := {str(ctor_loads_fixing_countdown()).lower()}")
    L.append("/-- registry writes of `SoftwareManager.install` in source order -/")
    L.append("def installOrder : List String := [" + ", ".join(f'"{w}"' for w in install_order()) + "]")
    L.append(f"def openPortsFromRunningPortMapOwners : Bool := {str(open_ports_shape()).lower()}")
    L.append("")
    L.append("/-- docs/source/action_masking.rst: `(action, needs node on, required software state)` -/")
    L.append("def docMask : List (String × Bool × Option String) := [\n  " + ",\n  ".join(
        f'("{a}", {str(on).lower()}, {"none" if s is None else f"(some \"{s}\")"})' for a, on, s in docs_mask_rows()) + "]")
    L.append("")
    L.append("end Primaite.Gen.Software")
    return "\n".join(L) + "\n"


def request_table_software(sw_cls: ast.ClassDef) -> List[Tuple[str, str]]:
    fn = find_method(sw_cls, "_init_request_manager")
    out = []
    for st in body_no_doc(fn):
        if isinstance(st, ast.Expr) and isinstance(st.value, ast.Call) and ast.unparse(st.value.func) == "rm.add_request":
            call = st.value
            name = call.args[0].value
            rt = call.args[1]
            rkw = {k.arg: k.value for k in rt.keywords}
            if "validator" in rkw:
                raise ValueError(f"Software route {name} has a validator")
            m = re.fullmatch(r"lambda request, context: RequestResponse\.from_bool\(self\.(\w+)\((.*)\)\)", ast.unparse(rkw["func"]))
            if not m:
                raise ValueError(f"Software route {name}: unrecognised handler")
            out.append((name, m.group(1) + (f"({m.group(2)})" if m.group(2) else "")))
    return out


if __name__ == "__main__":
    print(emit())
