"""C13: TRANSLATE the `receive` and `send` methods of every shipped software class, through their class chains, into programs
over `Primaite.Relay.Stmt` (Gen/SoftwareRelay.lean).  Props/C13Relay.lean proves on the translated programs, for EVERY payload
and every return value of a callee, that a run with `_can_perform_action() = False` returns False and performs no effect besides the
FTP classes' `_active` flag (checker `quietChain`, proved sound).  Strict BEFORE the running-guard (an unrecognised statement
raises); after the guard an unrecognised statement becomes an opaque effect (what running software does with a payload is the
business of the payload models).  Also: the dispatch chain of `AbstractC2._handle_c2_payload` and the callers of the C2 / FTP
handlers in the package (nothing reaches a handler except through `receive`).  Pure `ast`."""
import ast
import re
from typing import List, Optional, Tuple

from harness.extract.software import SRC, Classes, body_no_doc, class_table, is_log

GEN_NAME = "SoftwareRelay"


class Unsupported(Exception):
    pass


def _q(s: str) -> str:
    return '"' + s.replace("\\", "\\\\").replace('"', '\\"') + '"'


def _self_call(e: ast.AST) -> Optional[str]:
    """`self.m(…)` -> m"""
    if isinstance(e, ast.Call) and isinstance(e.func, ast.Attribute) and isinstance(e.func.value, ast.Name) and e.func.value.id == "self":
        return e.func.attr
    return None


def _payload_only(t: ast.AST) -> bool:
    """a test without effects: reads the payload / session arguments, attributes and constants; the only calls are pure builtins"""
    for n in ast.walk(t):
        if isinstance(n, ast.Call) and not (isinstance(n.func, ast.Name) and n.func.id in ("isinstance", "len", "is_valid_port", "is_valid_protocol")):
            return False
    return True


def _strip_logs(stmts: List[ast.stmt]) -> List[ast.stmt]:
    return [s for s in stmts if not is_log(s) and not (isinstance(s, ast.Expr) and isinstance(s.value, ast.Constant))]


def _ret_const(st: ast.stmt) -> Optional[bool]:
    if isinstance(st, ast.Return):
        if st.value is None:
            return False
        if isinstance(st.value, ast.Constant) and st.value.value in (True, False, None):
            return bool(st.value.value)
    return None


def translate(fn: ast.FunctionDef, meth: str, strict: bool = True) -> List[str]:
    """body -> list of Lean `Stmt` terms; `strict`: an unrecognised statement before the running-guard raises (else it becomes an
    opaque effect, which the checker `quietBody` then rejects)"""
    out: List[str] = []
    guarded = False

    def opaque(st: ast.stmt) -> str:
        if not guarded and strict:
            raise Unsupported(f"{fn.name}: statement before the running-guard: {ast.unparse(st)[:120]}")
        return f".eff {_q('stmt:' + re.sub(chr(10) + r'\s*', ' ', ast.unparse(st))[:80])}"

    def walk(stmts: List[ast.stmt]):
        nonlocal guarded
        for st in _strip_logs(stmts):
            s = ast.unparse(st)
            if isinstance(st, ast.AnnAssign) and s.startswith("payload:") and st.value is not None and _payload_only(st.value):
                continue
            if isinstance(st, ast.If):
                t = ast.unparse(st.test)
                body = _strip_logs(st.body)
                m = re.fullmatch(r"not \(?isinstance\(payload, (\w+)\)\)?", t)
                if m and not st.orelse and len(body) == 1 and _ret_const(body[0]) is False:
                    out.append(f".typeCheck {_q(m.group(1))}")
                    continue
                if t == "not self._can_perform_action()" and not st.orelse and len(body) == 1 and _ret_const(body[0]) is False:
                    out.append(".guardCan")
                    guarded = True
                    continue
                if re.fullmatch(rf"not super\(\)\.{meth}\(.*\)", t, re.S) and not st.orelse and len(body) == 1 and _ret_const(body[0]) is False:
                    out.append(".guardSuper")
                    guarded = True
                    continue
                if _payload_only(st.test) and len(body) == 1:
                    b = body[0]
                    done = True
                    if _ret_const(b) is not None:
                        out.append(f".retIf {_q(t)} {'true' if _ret_const(b) else 'false'}")
                    elif isinstance(b, ast.Return) and _self_call(b.value):
                        out.append(f".retEffIf {_q(t)} {_q(_self_call(b.value))}")
                    elif isinstance(b, ast.Expr) and _self_call(b.value) and not st.orelse:
                        out.append(f".doIf {_q(t)} {_q(_self_call(b.value))}")
                    else:
                        done = False
                    if done:
                        # a branch that returns: the else / elif branch is what follows
                        if st.orelse:
                            if not isinstance(b, ast.Return):
                                raise Unsupported(f"{fn.name}: else after a branch that does not return: {t}")
                            walk(st.orelse)
                            return
                        continue
                out.append(opaque(st))
                continue
            if isinstance(st, ast.Return):
                v = st.value
                if _ret_const(st) is not None:
                    out.append(f".ret {'true' if _ret_const(st) else 'false'}")
                elif re.fullmatch(rf"super\(\)\.{meth}\(.*\)", ast.unparse(v), re.S):
                    out.append(".retSuper")
                    guarded = True
                elif ast.unparse(v) == "self._can_perform_action()":
                    out.append(".retCan")
                    guarded = True
                elif _self_call(v):
                    out.append(f".retEff {_q(_self_call(v))}")
                else:
                    out.append(f".retEff {_q('expr:' + re.sub(chr(10) + r'\s*', ' ', ast.unparse(v))[:80])}")
                return
            if isinstance(st, ast.Assign) and len(st.targets) == 1 and isinstance(st.targets[0], ast.Attribute) \
                    and isinstance(st.targets[0].value, ast.Name) and st.targets[0].value.id == "self" \
                    and not any(isinstance(x, ast.Call) for x in ast.walk(st.value)):
                out.append(f".eff {_q('set:' + st.targets[0].attr)}")
                continue
            if isinstance(st, ast.Assign) and all(isinstance(t, ast.Name) for t in st.targets) and \
                    not any(isinstance(x, ast.Call) for x in ast.walk(st.value)):
                continue  # a local set to a call-free expression
            if isinstance(st, ast.Expr) and _self_call(st.value):
                out.append(f".eff {_q(_self_call(st.value))}")
                continue
            out.append(opaque(st))

    walk(body_no_doc(fn))
    return out


def chain(cs: Classes, name: str, meth: str, strict: bool = True) -> List[Tuple[str, List[str]]]:
    """the method through the class chain: [(owner, program)], most derived first, as far as `super().<meth>` is reached"""
    res = []
    after = None
    while True:
        r = cs.resolve(name, meth, after)
        if r is None:
            break
        owner, fn = r
        prog = translate(fn, meth, strict)
        res.append((owner, prog))
        if not any(p in (".guardSuper", ".retSuper") for p in prog):
            break
        after = owner
    return res


def callers(names: List[str], root: str) -> List[Tuple[str, List[str]]]:
    """for each method name: the `Class.method`s under `root` whose body calls `self.<name>(`"""
    out = {n: [] for n in names}
    for f in sorted((SRC / root).rglob("*.py")):
        tree = ast.parse(f.read_text())
        for c in tree.body:
            if not isinstance(c, ast.ClassDef):
                continue
            for fn in c.body:
                if not isinstance(fn, ast.FunctionDef):
                    continue
                for x in ast.walk(fn):
                    if isinstance(x, ast.Call) and isinstance(x.func, ast.Attribute) and x.func.attr in out:
                        who = f"{c.name}.{fn.name}"
                        if who not in out[x.func.attr]:
                            out[x.func.attr].append(who)
    return [(n, out[n]) for n in names]


def emit() -> str:
    cs = Classes()
    rows = class_table()
    L = ["import PrimaiteModel.Model.C13Relay", "namespace Primaite.Gen.SoftwareRelay", "open Primaite.Relay", ""]

    def emit_chains(defname: str, meth: str, doc: str, strict: bool = True):
        L.append(f"/-- {doc} -/")
        L.append(f"def {defname} : List (String × List (String × List Stmt)) := [")
        items = []
        for r in rows:
            ch = chain(cs, r["cls"], meth, strict)
            inner = ", ".join(f"({_q(o)}, [{', '.join(p)}])" for o, p in ch)
            items.append(f"  ({_q(r['cls'])}, [{inner}])")
        L.append(",\n".join(items) + "]")
        L.append("")

    emit_chains("receiveChains", "receive", "TRANSLATED: `receive` of every shipped class through its class chain: (class, [(owner of the body, program)]), most derived first (a statement before the guard that has no translation is an opaque effect: the checker rejects that class)", strict=False)
    emit_chains("sendChains", "send", "TRANSLATED: `send` of every shipped class through its class chain (a statement before the guard that has no translation is an opaque effect: the checker rejects that class)", strict=False)
    # the C2 dispatch
    r = cs.resolve("AbstractC2", "_handle_c2_payload")
    if r is None:
        raise Unsupported("AbstractC2._handle_c2_payload not found")
    L.append("/-- TRANSLATED: `AbstractC2._handle_c2_payload` (the relay's dispatch on the payload type) -/")
    L.append(f"def c2HandlePayload : List Stmt := [{', '.join(translate_unguarded(r[1]))}]")
    L.append("")
    hs = ["_handle_c2_payload", "_handle_keep_alive", "_handle_command_input", "_handle_command_output", "_process_ftp_command"]
    L.append("/-- who calls the payload handlers of the C2 suite and of the FTP classes (whole package): (handler, callers) -/")
    L.append("def handlerCallers : List (String × List String) := [" + ", ".join(
        f"({_q(n)}, [{', '.join(_q(c) for c in cl)}])" for n, cl in callers(hs, "simulator")) + "]")
    L.append("")
    # classes whose `send` never reaches a running-guard: who calls `self.send(` inside that class
    ung = []
    for r in rows:
        ch = chain(cs, r["cls"], "send", False)
        if not any(p == ".guardCan" for _, prog in ch for p in prog):
            owner = ch[0][0]
            who = []
            for fn in cs.defs[owner].body:
                if isinstance(fn, ast.FunctionDef) and any(isinstance(x, ast.Call) and ast.unparse(x.func) == "self.send" for x in ast.walk(fn)):
                    who.append(f"{owner}.{fn.name}")
            ext = []   # calls `<something else>.send(` on an object of that class cannot be told apart syntactically: the rig's oracle covers them
            ung.append(f"({_q(r['cls'])}, [{', '.join(_q(w) for w in who + ext)}])")
    L.append("/-- classes whose `send` reaches no running-guard, with the methods of the class that call `self.send(` -/")
    L.append("def unguardedSend : List (String × List String) := [" + ", ".join(ung) + "]")
    L.append("")
    L.append("end Primaite.Gen.SoftwareRelay")
    return "\n".join(L) + "\n"


def translate_unguarded(fn: ast.FunctionDef) -> List[str]:
    """a handler that is only reached after the guard: translated with the same shapes, opaque statements allowed"""
    src = ast.parse("def f(self):\n    if not self._can_perform_action():\n        return False\n").body[0]
    fn2 = ast.FunctionDef(name=fn.name, args=fn.args, body=src.body + body_no_doc(fn), decorator_list=[], returns=None, type_comment=None)
    prog = translate(fn2, fn.name)
    assert prog[0] == ".guardCan"
    return prog[1:]
