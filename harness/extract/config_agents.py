"""C20 - the defaults of `agent_settings` per registered agent type, read off the schema SOURCE by pure `ast` (never imports
primaite): what an agent's settings are when the file leaves a key out. `agents_oracle` (harness/rigs/config.py) compares every
setting the file omits on the BUILT agent with this table. Only literal defaults (and `Field(default=<literal>)`) are listed;
a field whose default is computed is listed with the marker NON_LITERAL and not compared."""
import ast
from pathlib import Path
from typing import Any, Dict, Optional, Tuple

from harness.lib.core import SRC

NON_LITERAL = "<non-literal>"
AGENT_DIR = "game/agent"


def _literal_default(v: Optional[ast.AST]) -> Any:
    if v is None:
        return NON_LITERAL          # a required field: the file cannot leave it out
    try:
        return ast.literal_eval(v)
    except Exception:
        pass
    if isinstance(v, ast.Call) and isinstance(v.func, ast.Name) and v.func.id == "Field":
        for k in v.keywords:
            if k.arg == "default":
                return _literal_default(k.value)
        if v.args:
            return _literal_default(v.args[0])
    return NON_LITERAL


def _classes() -> Dict[str, Tuple[ast.ClassDef, Optional[str]]]:
    out = {}
    for f in sorted((Path(SRC) / AGENT_DIR).rglob("*.py")):
        for n in ast.parse(f.read_text()).body:
            if isinstance(n, ast.ClassDef):
                disc = next((k.value.value for k in n.keywords if k.arg == "discriminator" and isinstance(k.value, ast.Constant)), None)
                out[n.name] = (n, disc)
    return out


def _own_schema(c: ast.ClassDef) -> Optional[ast.ClassDef]:
    return next((n for n in c.body if isinstance(n, ast.ClassDef) and n.name == "AgentSettingsSchema"), None)


def _fields(cname: str, classes, depth: int = 0) -> Dict[str, Any]:
    """fields of `cname.AgentSettingsSchema`, base first"""
    if cname not in classes or depth > 12:
        return {}
    c = classes[cname][0]
    sch = _own_schema(c)
    if sch is None:
        out: Dict[str, Any] = {}
        for b in c.bases:
            if isinstance(b, ast.Name):
                out.update(_fields(b.id, classes, depth + 1))
        return out
    out = {}
    for b in sch.bases:
        if isinstance(b, ast.Attribute) and b.attr == "AgentSettingsSchema" and isinstance(b.value, ast.Name):
            out.update(_fields(b.value.id, classes, depth + 1))
    for st in sch.body:
        if isinstance(st, ast.AnnAssign) and isinstance(st.target, ast.Name) and st.target.id != "model_config":
            out[st.target.id] = _literal_default(st.value)
    return out


def _is_agent(name: str, classes, depth: int = 0) -> bool:
    if name == "AbstractAgent":
        return True
    if name not in classes or depth > 12:
        return False
    return any(isinstance(b, ast.Name) and _is_agent(b.id, classes, depth + 1) for b in classes[name][0].bases)


def agent_settings_defaults() -> Dict[str, Dict[str, Any]]:
    """agent type (discriminator) -> {setting: default literal or NON_LITERAL}, for every registered class that descends from AbstractAgent"""
    classes = _classes()
    return {disc: _fields(name, classes) for name, (c, disc) in sorted(classes.items()) if disc and _is_agent(name, classes)}
