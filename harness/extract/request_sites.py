"""E4b — the CONDITIONS under which every dynamic `add_request` / `remove_request` site runs (pure `ast`).

For each site outside the top level of an `_init_request_manager` (the sites E4 lists): the guard set of the statement =
every enclosing `if` test (with polarity, `else` branches negated), every enclosing `for` (as `for <target> in <iter>`), and
every EARLIER guard clause of an enclosing block — an `if` whose body ends in `return` / `raise` / `continue` (the statement
runs only when that test was false).  The same is computed for the REGISTRY statement of the site's level in the same function
(the assignment that makes the component exist in the object graph: `self.network_interface[new_nic_num] = …`,
`self.software[software.name] = …`, `self.folders[folder.uuid] = …`, `self.files[file.uuid] = …`, `self.nodes[node.uuid] = …`,
`self.applications[application_instance.uuid] = …`; for removes the matching `pop`).

Each condition is classified: `state` (reads a power / operating / enabled state), `type` (`isinstance`), `presence` (is the
component / name already there: membership tests, look-up results, `is None`), `other`.  Emitted per site: the guard list, the
registry's guard list, whether any guard reads STATE, and the kinds of the guards the route has IN ADDITION to the registry
statement (for an add site these may only be `presence` / `type`: "already registered" or "of the other software kind").
Strict: a site whose registry statement cannot be found raises.
"""
from __future__ import annotations

import ast
from typing import Dict, List, Optional, Tuple

from harness.extract import request_schema as x_schema

GEN_NAME = "RequestSites"

STATE_TOKENS = ("operating_state", "OperatingState", ".enabled", "is_resetting", "health_state", "countdown", "power", "_can_perform")
# registry statements per (function, level): source text of the assignment target / pop call that (un)registers the component
REGISTRY_ADD = {
    "folder": ["self.folders[folder.uuid]"], "file": ["self.files[file.uuid]"], "node": ["self.nodes[node.uuid]"],
    "nic": ["self.network_interface[new_nic_num]"],
    "application": ["self.software[software.name]", "self.applications[application_instance.uuid]"],
    "service": ["self.software[software.name]"],
}
REGISTRY_REMOVE = {
    "node": ["self.nodes.pop(node.uuid)"], "nic": ["self.network_interface.pop(port)"],
    "application": ["self.software.pop(software_name)"], "service": ["self.software.pop(software_name)"],
}


def _ends_flow(body: List[ast.stmt]) -> bool:
    return bool(body) and isinstance(body[-1], (ast.Return, ast.Raise, ast.Continue, ast.Break))


def _neg(src: str) -> str:
    return src[4:] if src.startswith("not ") and "(" not in src.split(" ", 1)[1][:1] and " and " not in src and " or " not in src else f"not ({src})"


def guards_of(fn: ast.FunctionDef, target: ast.AST) -> Optional[List[str]]:
    """guard set of the statement that contains `target` inside `fn` (None if not inside)"""
    def walk(body: List[ast.stmt], acc: List[str]) -> Optional[List[str]]:
        acc = list(acc)
        for st in body:
            if any(n is target for n in ast.walk(st)):
                if isinstance(st, ast.If):
                    test = " ".join(ast.unparse(st.test).split())
                    if any(n is target for b in st.body for n in ast.walk(b)):
                        return walk(st.body, acc + [test])
                    if any(n is target for b in st.orelse for n in ast.walk(b)):
                        return walk(st.orelse, acc + [_neg(test)])
                    return acc   # in the test itself
                if isinstance(st, (ast.For, ast.While)):
                    head = f"for {ast.unparse(st.target)} in {ast.unparse(st.iter)}" if isinstance(st, ast.For) else f"while {ast.unparse(st.test)}"
                    return walk(st.body, acc + [" ".join(head.split())])
                if isinstance(st, ast.Try):
                    for blk in [st.body, st.orelse, st.finalbody] + [h.body for h in st.handlers]:
                        if any(n is target for b in blk for n in ast.walk(b)):
                            return walk(blk, acc + (["try"] if blk is not st.body else []))
                if isinstance(st, ast.With):
                    return walk(st.body, acc)
                if isinstance(st, (ast.FunctionDef,)):
                    return walk(st.body, acc)
                return acc
            # an earlier guard clause of this block
            if isinstance(st, ast.If) and _ends_flow(st.body) and not st.orelse:
                acc.append(_neg(" ".join(ast.unparse(st.test).split())))
            elif isinstance(st, ast.If) and st.orelse and _ends_flow(st.orelse) and not _ends_flow(st.body):
                acc.append(" ".join(ast.unparse(st.test).split()))
        return None
    return walk(fn.body, [])


def kind_of(cond: str, fn: ast.FunctionDef) -> str:
    if any(t in cond for t in STATE_TOKENS):
        return "state"
    if "isinstance(" in cond:
        return "type"
    # names assigned from a look-up in this function: `folder = self.get_folder(...)`, `file = self.get_file(...)`, `x = d.get(...)`
    looked_up = set()
    for n in ast.walk(fn):
        if isinstance(n, ast.Assign) and len(n.targets) == 1 and isinstance(n.targets[0], ast.Name) and isinstance(n.value, ast.Call):
            f = ast.unparse(n.value.func)
            if f.endswith(("get_folder", "get_file", ".get", "get_folder_by_id", "get_file_by_id")):
                looked_up.add(n.targets[0].id)
    toks = cond.replace("(", " ").replace(")", " ").split()
    if " in self" in cond or " in Application._registry" in cond or ".get(" in cond or "is None" in cond or "is not None" in cond \
            or any(t in looked_up for t in toks) or cond.startswith("for ") or "!= -1" in cond or "force" in cond \
            or "software_config" in cond or "network_interface or " in cond:
        return "presence"
    return "other"


def build() -> List[dict]:
    classes = x_schema.load_classes()
    out: List[dict] = []
    seen = set()
    for cname, c in classes.items():
        if cname == "RequestManager":
            continue
        for fn in [n for n in c.node.body if isinstance(n, ast.FunctionDef)]:
            top_level_calls = set()
            if fn.name == "_init_request_manager":
                for st in fn.body:
                    if isinstance(st, ast.Expr):
                        v = st.value.elts[0] if isinstance(st.value, ast.Tuple) and len(st.value.elts) == 1 else st.value
                        if isinstance(v, ast.Call):
                            top_level_calls.add(id(v))
            inner_fns = [fn] + [n for n in ast.walk(fn) if isinstance(n, ast.FunctionDef) and n is not fn]
            for call in [n for n in ast.walk(fn) if isinstance(n, ast.Call) and isinstance(n.func, ast.Attribute)
                         and n.func.attr in ("add_request", "remove_request")]:
                if id(call) in top_level_calls or id(call) in seen:
                    continue
                mgr = ast.unparse(call.func.value)
                attr = mgr.split(".")[-1]
                level = {"_folder_request_manager": "folder", "_file_request_manager": "file", "_node_request_manager": "node",
                         "_nic_request_manager": "nic", "_application_request_manager": "application",
                         "_service_request_manager": "service"}.get(attr)
                if level is None:
                    continue   # literal-key registrations inside nested helpers of an _init_request_manager (not dynamic levels)
                seen.add(id(call))
                host = next((f for f in reversed(inner_fns) if any(n is call for n in ast.walk(f))), fn)
                conds = guards_of(host, call)
                if conds is None:
                    raise ValueError(f"{cname}.{fn.name}: cannot locate the {call.func.attr} site")
                op = "add" if call.func.attr == "add_request" else "remove"
                reg_srcs = (REGISTRY_ADD if op == "add" else REGISTRY_REMOVE).get(level, [])
                reg_node = None
                for n in ast.walk(host):
                    if op == "add" and isinstance(n, ast.Assign) and ast.unparse(n.targets[0]) in reg_srcs:
                        reg_node = n
                        break
                    if op == "remove" and isinstance(n, ast.Call) and ast.unparse(n) in reg_srcs:
                        reg_node = n
                        break
                if reg_node is None:
                    raise ValueError(f"{cname}.{host.name}: no registry statement for the {op} of level {level} ({reg_srcs})")
                rconds = guards_of(host, reg_node) or []
                extra = [x for x in conds if x not in rconds]
                out.append({"site": f"{cname}.{host.name}" if host is fn else f"{cname}.{fn.name}.{host.name}", "op": op, "level": level,
                            "conds": conds, "registry": ast.unparse(reg_node.targets[0] if op == "add" else reg_node),
                            "registry_conds": rconds, "kinds": [kind_of(x, host) for x in conds],
                            "extra_kinds": [kind_of(x, host) for x in extra]})
    if len(out) < 10:
        raise ValueError(f"only {len(out)} dynamic sites found")
    return sorted(out, key=lambda d: (d["site"], d["op"], d["level"]))


def lstr(s: str) -> str:
    return '"' + s.replace("\\", "\\\\").replace('"', '\\"') + '"'


def emit() -> str:
    sites = build()
    L = ["import PrimaiteModel.Model.Schema", "namespace Primaite.Gen.RequestSites", "open Primaite.Schema", ""]
    L.append("/-- one dynamic `add_request` / `remove_request` site: where, what, the guards it runs under, the guards of the registry")
    L.append("statement of the same function, does any guard read a power / operating / enabled STATE, kinds of the extra guards -/")
    L.append("structure Site where\n  site : String\n  isAdd : Bool\n  level : Level\n  conds : List String\n  registry : String\n"
             "  registryConds : List String\n  readsState : Bool\n  extraKinds : List String\nderiving Repr")
    L.append("")
    L.append("def sites : List Site := [")
    rows = []
    for s in sites:
        rows.append("  { site := " + lstr(s["site"]) + ", isAdd := " + ("true" if s["op"] == "add" else "false") + f", level := .{s['level']},\n"
                    "    conds := [" + ", ".join(lstr(x) for x in s["conds"]) + "],\n    registry := " + lstr(s["registry"]) +
                    ", registryConds := [" + ", ".join(lstr(x) for x in s["registry_conds"]) + "],\n    readsState := " +
                    ("true" if "state" in s["kinds"] else "false") + ", extraKinds := [" + ", ".join(lstr(x) for x in s["extra_kinds"]) + "] }")
    L.append(",\n".join(rows) + "]")
    L.append("")
    L.append("end Primaite.Gen.RequestSites")
    return "\n".join(L) + "\n"


if __name__ == "__main__":
    import json
    print(json.dumps(build(), indent=1))
