"""C17 round 7: statement-by-statement translation of the database service's TICK path and life-cycle methods.

The methods live in four classes (DatabaseService -> Service -> IOSoftware -> Software -> SimComponent).  The translator walks
the class chain the way Python does: `self.m()` is resolved from the MOST DERIVED class (DatabaseService), `super().m()` from
the class after the one whose body is being translated.  Translated (each a Lean function over `TickW`, Model/DatabaseTick.lean):

    apply_timestep      DatabaseService.apply_timestep -> Service.apply_timestep -> Software.apply_timestep -> SimComponent's (`pass`)
    _update_fix_status  DatabaseService._update_fix_status -> Software._update_fix_status
    fix                 Software.fix
    stop / start / pause / resume / restart / disable / enable      Service.*

`self.restore_backup()` / `self.backup_database()` become calls of the functions TRANSLATED by database_tr.py
(Gen/DatabaseTr.lean), so the tick is composed of translated pieces only.  Props/C17Tick.lean proves the results EQUAL to the
model's `Server.tickSvc` and `Server.request` (`C17_tr_tick_svc`, `C17_tr_lifecycle`).

Vocabulary: self.health_state_actual -> w.s.health; self.operating_state -> w.s.op; self._fixing_countdown -> w.cd : Option Int;
self.restart_countdown -> w.rcd : Int; self.config.fixing_duration / self.restart_duration -> the model's fixDur / restartDur;
timestep -> t; `super()._can_perform_action()` inside Service (= IOSoftware._can_perform_action, shape-checked: the node is ON).
Statements without effect on the modelled state: logging, `self.fixing_count += 1`, `pass`, docstrings.
Pure `ast`; strict: anything else raises Unsupported; a root that cannot be translated gets a stub that makes ITS theorem fail.
"""
import ast
from typing import Dict, List, Tuple

from harness.extract.util import class_def, find_method, parse

GEN_NAME = "DatabaseTickTr"
CHAIN = [("DatabaseService", "simulator/system/services/database/database_service.py"),
         ("Service", "simulator/system/services/service.py"),
         ("IOSoftware", "simulator/system/software.py"),
         ("Software", "simulator/system/software.py"),
         ("SimComponent", "simulator/core.py")]
ENUMS = {
    "ServiceOperatingState": ("SvcState", {"STOPPED": "stopped", "RUNNING": "running", "PAUSED": "paused", "RESTARTING": "restarting",
                                           "DISABLED": "disabled"}),
    "SoftwareHealthState": ("Health", {"UNUSED": "unused", "GOOD": "good", "FIXING": "fixing", "COMPROMISED": "compromised",
                                       "OVERWHELMED": "overwhelmed"}),
}
PARAMS = "(w : TickW) (t : Nat) (pathReq pathResp big sendOk : Bool)"
ARGS = "t pathReq pathResp big sendOk"
SKIP_AUG = ("self.fixing_count",)
# (root method, Lean name, returns a bool?)
ROOTS = [("apply_timestep", "applyTimestep", False), ("fix", "fix", True), ("stop", "stop", True), ("start", "start", True),
         ("pause", "pause", True), ("resume", "resume", True), ("restart", "restart", True), ("disable", "disable", True),
         ("enable", "enable", True)]
# methods a translated body may call on self (dynamic dispatch from the most derived class), and whether they return a bool
CALLABLE = {"_update_fix_status": False, "apply_timestep": False}


class Unsupported(Exception):
    pass


def u(n: ast.AST) -> str:
    return ast.unparse(n)


class Chain:
    def __init__(self, chain=None):
        self.chain = chain or CHAIN
        self.classes: List[ast.ClassDef] = []
        for i, (name, rel) in enumerate(self.chain):
            c = class_def(parse(rel), name)
            self.classes.append(c)
            if i + 1 < len(self.chain):
                bases = [u(b) for b in c.bases if u(b) != "ABC"]
                if bases != [self.chain[i + 1][0]]:
                    raise Unsupported(f"class {name} derives from {bases}, expected [{self.chain[i + 1][0]}]")
        # `super()._can_perform_action()` as seen from Service: exactly "the node is ON"
        i_svc = [n for n, _ in self.chain].index("Service")
        for k in range(i_svc):     # nothing below Service may override what Service's methods call on `self`
            for n in self.classes[k].body:
                if isinstance(n, ast.FunctionDef) and n.name in ("set_health_state",):
                    raise Unsupported(f"{self.chain[k][0]} overrides {n.name}")
        _, cpa_fn = self.resolve("_can_perform_action", i_svc + 1)
        cpa = [x for x in cpa_fn.body if not _noeffect(x)]
        if not (len(cpa) == 2 and isinstance(cpa[0], ast.If) and u(cpa[1]) == "return True"
                and u(cpa[0].test) == "self.software_manager and self.software_manager.node.operating_state != NodeOperatingState.ON"
                and u([x for x in cpa[0].body if not _noeffect(x)][0]) == "return False"):
            raise Unsupported("the _can_perform_action below Service is not `node is ON`")
        shs = [x for x in self.resolve("set_health_state", 0)[1].body if not _noeffect(x)]
        if [u(x) for x in shs] != ["self.health_state_actual = health_state", "return True"]:
            raise Unsupported("Software.set_health_state is not the plain setter")

    def resolve(self, method: str, start: int) -> Tuple[int, ast.FunctionDef]:
        for i in range(start, len(self.classes)):
            for n in self.classes[i].body:
                if isinstance(n, ast.FunctionDef) and n.name == method:
                    return i, n
        raise Unsupported(f"method {method} not found from {self.chain[start][0]} upwards")


def _noeffect(st: ast.stmt) -> bool:
    if isinstance(st, ast.Pass):
        return True
    if isinstance(st, ast.Expr) and isinstance(st.value, ast.Constant) and isinstance(st.value.value, str):
        return True
    if isinstance(st, ast.Expr) and isinstance(st.value, ast.Call) and ".sys_log." in u(st.value.func):
        return True
    if isinstance(st, ast.AugAssign) and u(st.target) in SKIP_AUG:
        return True
    if isinstance(st, ast.If) and all(_noeffect(x) for x in st.body + st.orelse):
        return True
    return False


# ---------------------------------------------------------------------------------------------- expressions
def value(e: ast.AST) -> Tuple[str, str]:
    """-> (lean term, type in {int, optint, SvcState, Health, bool})"""
    s = u(e)
    if isinstance(e, ast.Constant):
        if e.value is None:
            return "none", "optint"
        if isinstance(e.value, bool):
            return ("true" if e.value else "false"), "bool"
        if isinstance(e.value, int):
            return f"({e.value} : Int)", "int"
        raise Unsupported(f"constant {s}")
    if isinstance(e, ast.UnaryOp) and isinstance(e.op, ast.USub) and isinstance(e.operand, ast.Constant) and isinstance(e.operand.value, int):
        return f"(-{e.operand.value} : Int)", "int"
    if isinstance(e, ast.Attribute) and isinstance(e.value, ast.Name) and e.value.id in ENUMS:
        ty, members = ENUMS[e.value.id]
        if e.attr not in members:
            raise Unsupported(f"enum member {s}")
        return f"{ty}.{members[e.attr]}", ty
    table = {"self.health_state_actual": ("w.s.health", "Health"), "self.operating_state": ("w.s.op", "SvcState"),
             "self._fixing_countdown": ("w.cd", "optint"), "self.restart_countdown": ("w.rcd", "int"),
             "self.config.fixing_duration": ("(w.s.fixDur : Int)", "int"), "self.restart_duration": ("(w.s.restartDur : Int)", "int"),
             "timestep": ("(t : Int)", "int")}
    if s in table:
        return table[s]
    if isinstance(e, ast.BinOp) and isinstance(e.op, (ast.Add, ast.Sub)):
        (l, lt), (r, rt) = value(e.left), value(e.right)
        op = "+" if isinstance(e.op, ast.Add) else "-"
        if lt == rt == "int":
            return f"({l} {op} {r})", "int"
        if lt == "optint" and rt == "int":      # None - 1 raises in Python: see TickW.of
            return f"(({l}).map (· {op} {r}))", "optint"
    raise Unsupported(f"value {s}")


CMP = {ast.LtE: "≤", ast.Lt: "<", ast.GtE: "≥", ast.Gt: ">", ast.Eq: "=", ast.NotEq: "≠"}


def truthy(e: ast.AST) -> str:
    if isinstance(e, (ast.Compare, ast.BoolOp)) or (isinstance(e, ast.UnaryOp) and isinstance(e.op, ast.Not)):
        return cond(e)
    if u(e) == "super()._can_perform_action()":
        return "w.s.node.isOn"
    v, ty = value(e)
    if ty == "bool":
        return v
    if ty == "optint":
        return f"(optTruthy {v})"
    if ty == "int":
        return f"(decide ({v} ≠ 0))"
    raise Unsupported(f"truthiness of {u(e)} : {ty}")


def cond(e: ast.AST) -> str:
    if isinstance(e, ast.UnaryOp) and isinstance(e.op, ast.Not):
        return f"(!{truthy(e.operand)})"
    if isinstance(e, ast.BoolOp):
        op = " && " if isinstance(e.op, ast.And) else " || "
        return "(" + op.join(truthy(v) for v in e.values) + ")"
    if isinstance(e, ast.Compare) and len(e.ops) == 1:
        op, rhs = e.ops[0], e.comparators[0]
        if isinstance(op, (ast.In, ast.NotIn)) and isinstance(rhs, (ast.List, ast.Tuple, ast.Set)):
            l, lt = value(e.left)
            alts = []
            for x in rhs.elts:
                r, rt = value(x)
                if rt != lt:
                    raise Unsupported(f"membership of {lt} in a collection of {rt}")
                alts.append(f"({l} == {r})")
            txt = "(" + " || ".join(alts or ["false"]) + ")"
            return txt if isinstance(op, ast.In) else f"(!{txt})"
        (l, lt), (r, rt) = value(e.left), value(rhs)
        if isinstance(op, (ast.Is, ast.IsNot)):
            if lt == "optint" and r == "none":
                return f"({l}).isNone" if isinstance(op, ast.Is) else f"({l}).isSome"
            if lt == rt and lt in ("SvcState", "Health"):
                return f"({l} == {r})" if isinstance(op, ast.Is) else f"(!({l} == {r}))"
            raise Unsupported(f"identity test {u(e)}")
        if type(op) in CMP:
            sym = CMP[type(op)]
            if lt == rt and lt in ("SvcState", "Health") and isinstance(op, (ast.Eq, ast.NotEq)):
                return f"({l} == {r})" if isinstance(op, ast.Eq) else f"(!({l} == {r}))"
            if lt == rt == "int":
                return f"(decide ({l} {sym} {r}))"
            if lt == "optint" and rt == "int":
                return f"(optCmp {l} (fun n => decide (n {sym} {r})))"
            if lt == "int" and rt == "optint":
                return f"(optCmp {r} (fun n => decide ({l} {sym} n)))"
            if lt == rt == "optint" and isinstance(op, (ast.Eq, ast.NotEq)):
                return f"({l} == {r})" if isinstance(op, ast.Eq) else f"(!({l} == {r}))"
    raise Unsupported(f"condition {u(e)}")


# ---------------------------------------------------------------------------------------------- statements
class Emitter:
    def __init__(self, chain=None, prefix=""):
        self.chain = Chain(chain)
        self.CH = self.chain.chain
        self.prefix = prefix
        self.defs: List[str] = []          # emitted Lean definitions, callee first
        self.names: Dict[Tuple[int, str], str] = {}
        self.bool_ret: Dict[Tuple[int, str], bool] = {}
        self.stack: List[Tuple[int, str]] = []

    def fn(self, idx: int, method: str, want_bool: bool) -> str:
        """Lean name of the translation of CHAIN[idx].method (translating it first if need be)."""
        key = (idx, method)
        if key in self.names:
            if self.bool_ret[key] != want_bool:
                raise Unsupported(f"{method}: used both as a procedure and as a function")
            return self.names[key]
        if key in self.stack:
            raise Unsupported(f"recursion through {method}")
        self.stack.append(key)
        fdef = find_method(self.chain.classes[idx], method)
        CHAIN = self.CH
        name = f"{self.prefix}{CHAIN[idx][0]}_{method.strip('_')}"
        if CHAIN[idx][0] == "SimComponent":
            if not all(_noeffect(x) for x in fdef.body):
                raise Unsupported(f"SimComponent.{method} does something")
            body = "  w" if not want_bool else "  (w, true)"
        else:
            body = self.go(list(fdef.body), idx, want_bool, 1)
        ret = "TickW × Bool" if want_bool else "TickW"
        self.defs.append(f"/-- `{CHAIN[idx][0]}.{method}`, translated statement by statement -/\ndef {name} {PARAMS} : {ret} :=\n{body}\n")
        self.names[key] = name
        self.bool_ret[key] = want_bool
        self.stack.pop()
        return name

    def call(self, c: ast.Call, idx: int) -> str:
        """a call statement with an effect -> Lean term for the new `w`"""
        f = u(c.func)
        if f.startswith("super()."):
            m = f[len("super()."):]
            j, _ = self.chain.resolve(m, idx + 1)
            return f"{self.fn(j, m, False)} w {ARGS}"
        if f == "self.set_health_state" and len(c.args) == 1 and not c.keywords:
            v, ty = value(c.args[0])
            if ty != "Health":
                raise Unsupported(f"set_health_state({u(c.args[0])})")
            return f"w.setHealth {v}"
        if f == "self.restore_backup" and not c.args and not c.keywords:
            return "w.afterRestore (Gen.DatabaseTr.restoreBackup w.s w.b pathReq pathResp sendOk)"
        if f == "self.backup_database" and not c.args and not c.keywords:
            return "w.afterBackup (Gen.DatabaseTr.backupDatabase w.s w.b pathReq big)"
        if f.startswith("self.") and f[5:] in CALLABLE and not c.keywords and [u(a) for a in c.args] in ([], ["timestep"]):
            j, _ = self.chain.resolve(f[5:], 0)       # dynamic dispatch: from the most derived class
            return f"{self.fn(j, f[5:], False)} w {ARGS}"
        raise Unsupported(f"call {u(c)[:100]}")

    def go(self, body: List[ast.stmt], idx: int, want_bool: bool, ind: int) -> str:
        pad = "  " * ind
        body = list(body)
        while body and _noeffect(body[0]):
            body.pop(0)
        if not body:
            if want_bool:
                raise Unsupported("a function expected to return a bool falls off its end")
            return pad + "w"
        st, rest = body[0], body[1:]
        if isinstance(st, ast.Return):
            if want_bool:
                if isinstance(st.value, ast.Constant) and isinstance(st.value.value, bool):
                    return f"{pad}(w, {'true' if st.value.value else 'false'})"
                raise Unsupported(f"return {u(st)}")
            if st.value is None or (isinstance(st.value, ast.Constant) and st.value.value is None):
                return pad + "w"
            if isinstance(st.value, ast.Call) and u(st.value.func).startswith("super()."):     # `return super().apply_timestep(t)`
                return f"{pad}{self.call(st.value, idx)}"
            raise Unsupported(f"return {u(st)}")
        if isinstance(st, ast.If):
            return (f"{pad}if {truthy(st.test)} then\n{self.go(list(st.body) + rest, idx, want_bool, ind + 1)}\n{pad}else\n"
                    f"{self.go(list(st.orelse) + rest, idx, want_bool, ind + 1)}")
        if isinstance(st, ast.Expr) and isinstance(st.value, ast.Call):
            return f"{pad}let w := {self.call(st.value, idx)}\n" + self.go(rest, idx, want_bool, ind)
        if isinstance(st, (ast.Assign, ast.AugAssign)):
            if isinstance(st, ast.AugAssign):
                tgt = u(st.target)
                rhs = ast.BinOp(left=st.target, op=st.op, right=st.value)
            else:
                if len(st.targets) != 1:
                    raise Unsupported(u(st))
                tgt, rhs = u(st.targets[0]), st.value
            v, ty = value(rhs)
            if tgt == "self._fixing_countdown" and ty in ("optint", "int"):
                new = f"w.setCd {v}" if ty == "optint" else f"w.setCd (some {v})"
            elif tgt == "self.restart_countdown" and ty == "int":
                new = f"w.setRcd {v}"
            elif tgt == "self.operating_state" and ty == "SvcState":
                new = f"w.setOp {v}"
            elif tgt == "self.health_state_actual" and ty == "Health":
                new = f"w.setHealth {v}"
            else:
                raise Unsupported(f"assignment {u(st)[:100]}")
            return f"{pad}let w := {new}\n" + self.go(rest, idx, want_bool, ind)
        raise Unsupported(f"statement {u(st)[:100]}")


FAILED: Dict[str, str] = {}
FTPC_CHAIN = [("FTPClient", "simulator/system/services/ftp/ftp_client.py"), ("FTPServiceABC", "simulator/system/services/ftp/ftp_service.py")] + CHAIN[1:]
# the FTP client on the database host: its tick and the two methods that load its countdowns
FTPC_ROOTS = [("apply_timestep", "ftpcApplyTimestep", False), ("fix", "ftpcFix", True), ("restart", "ftpcRestart", True)]


def _emit_chain(out: List[str], chain, prefix: str, roots, who: str, failkey):
    try:
        em = Emitter(chain, prefix)
    except Exception as e:  # noqa: BLE001
        em = None
        FAILED[failkey("class-chain")] = f"{type(e).__name__}: {e}"
    for method, lean, want_bool in roots:
        ret = "TickW × Bool" if want_bool else "TickW"
        stub = "(w.setOp SvcState.disabled, false)" if want_bool else "w.setOp SvcState.disabled"
        snap = None
        try:
            if em is None:
                raise Unsupported(FAILED[failkey("class-chain")])
            snap = (len(em.defs), dict(em.names), dict(em.bool_ret))
            idx, _ = em.chain.resolve(method, 0)
            name = em.fn(idx, method, want_bool)
            out += em.defs[snap[0]:]
            out += [f"/-- `{who}.{method}(...)` as Python dispatches it ({chain[idx][0]}.{method}) -/",
                    f"def {lean} {PARAMS} : {ret} := {name} w {ARGS}", ""]
        except Exception as e:  # noqa: BLE001
            FAILED[failkey(method)] = f"{type(e).__name__}: {e}"
            if em is not None and snap is not None:
                del em.defs[snap[0]:]
                em.names, em.bool_ret = snap[1], snap[2]
                em.stack.clear()
            out += [f"/-- `{who}.{method}`: NOT TRANSLATED ({type(e).__name__}) -/", f"def {lean} {PARAMS} : {ret} := {stub}", ""]


def emit() -> str:
    FAILED.clear()
    out = ["import PrimaiteModel.Model.DatabaseTick", "import PrimaiteModel.Gen.DatabaseTr", "set_option linter.unusedVariables false",
           "namespace Primaite.Gen.DatabaseTickTr", "open Primaite.Database", ""]
    _emit_chain(out, CHAIN, "", ROOTS, "database_service", lambda m: m)
    out += ["/-! ### the FTP client on the database host (FTPClient -> FTPServiceABC -> Service -> IOSoftware -> Software) -/", ""]
    _emit_chain(out, FTPC_CHAIN, "Ftpc_", FTPC_ROOTS, "ftp_client", lambda m: "ftpc:" + m)
    out += ["end Primaite.Gen.DatabaseTickTr", ""]
    return "\n".join(out)
